package main

import (
	"fmt"
	"strings"

	"github.com/logrange/logrange/api"
)

// What an event carries besides its timestamp is a function of the timestamp, so that every read can check it: the
// message (empty; plain; non-ASCII; bytes that are not UTF-8, a NUL; 700 bytes; line feeds, quotes, braces) and, for one
// class, a field. "Every event whose write was acknowledged is exactly as before" is about these bytes too.
func eventFor(t int64) *api.LogEvent {
	e := &api.LogEvent{Timestamp: t}
	k := t % 7
	if k < 0 {
		k += 7
	}
	switch k {
	case 0:
		e.Message = ""
	case 1:
		e.Message = fmt.Sprintf("e%d", t)
	case 2:
		e.Message = fmt.Sprintf("é☃ %d 日本", t)
	case 3:
		e.Message = fmt.Sprintf("\xff\xfe%d\x00\x80", t)
	case 4:
		e.Message = strings.Repeat("x", 700) + fmt.Sprint(t)
	case 5:
		e.Message = fmt.Sprintf("line one %d\nline \"two\" {a=b}\\\r\n", t)
	default:
		e.Message = fmt.Sprintf("f%d", t)
		e.Fields = fmt.Sprintf("k=v%d", t)
	}
	return e
}

// badContent collects, per child process, what reads found different from eventFor (reported with the next answer)
var badContent []string

func checkEvent(tags string, e *api.LogEvent) {
	w := eventFor(e.Timestamp)
	if e.Message != w.Message {
		badContent = append(badContent, fmt.Sprintf("%s ts=%d: message %q, written %q", tags, e.Timestamp, short(e.Message), short(w.Message)))
		return
	}
	// the destination of a pipe carries the source's tags as additional fields
	if !strings.HasPrefix(tags, "logrange.pipe=") && e.Fields != w.Fields {
		badContent = append(badContent, fmt.Sprintf("%s ts=%d: fields %q, written %q", tags, e.Timestamp, e.Fields, w.Fields))
	}
}

func short(s string) string {
	if len(s) > 60 {
		return s[:60] + "..."
	}
	return s
}

func takeBad() []string {
	b := badContent
	badContent = nil
	if len(b) > 5 {
		b = b[:5]
	}
	return b
}
