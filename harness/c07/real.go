package main

import (
	"context"
	"encoding/json"
	"fmt"
	"io"
	"os"
	"sort"
	"strings"
	"time"

	"bufio"

	"github.com/logrange/logrange/api"
	"github.com/logrange/logrange/api/rpc"
	"github.com/logrange/logrange/server"
	"github.com/logrange/range/pkg/transport"
	. "verifharness/common"
)

// "serve-real": the server of this child is started by server.Start itself (the function the logrange binary calls:
// its list of components, its directory names, Init of every component, and - when the context is cancelled - Shutdown
// of every component), not by the harness's own assembly of the components. There is no handle on any component then:
// everything goes through the public RPC endpoint, as a client of a deployed server would do it: writes (ingestor),
// queries (querier), and LQL statements (admin) for pipes, partitions and TRUNCATE. A flush can not be asked for: the
// server runs with a short flush timer and "sync" waits until every acknowledged event can be read.
func serveRealMain(args []string) {
	dir := args[0]
	flushMs := 20
	if len(args) > 1 {
		fmt.Sscanf(args[1], "%d", &flushMs)
	}
	out := json.NewEncoder(os.Stdout)
	var cl api.Client
	var cancel context.CancelFunc
	done := make(chan error, 1)
	var lastErr string
	for attempt := 0; attempt < 5 && cl == nil; attempt++ {
		cfg := server.GetDefaultConfig()
		cfg.BaseDir = dir
		cfg.JrnlCtrlConfig.WriteFlushMs = flushMs
		addr := fmt.Sprintf("127.0.0.1:%d", FreePort())
		cfg.PublicApiRpc = transport.Config{ListenAddr: addr}
		var ctx context.Context
		ctx, cancel = context.WithCancel(context.Background())
		started := make(chan struct{})
		go func() {
			defer func() {
				if r := recover(); r != nil {
					done <- fmt.Errorf("init panic: %v", r)
				}
			}()
			close(started)
			done <- server.Start(ctx, cfg)
		}()
		<-started
		// the endpoint answers once Init of every component is over
		ok := WaitFor(30*time.Second, func() bool {
			select {
			case err := <-done:
				if err != nil {
					lastErr = err.Error()
				} else {
					lastErr = "server.Start returned"
				}
				return true
			default:
			}
			c, err := rpc.NewClient(transport.Config{ListenAddr: addr})
			if err != nil {
				time.Sleep(5 * time.Millisecond)
				return false
			}
			if _, err := c.Execute(context.Background(), api.ExecRequest{Query: "SHOW PIPES"}); err != nil {
				c.Close()
				time.Sleep(5 * time.Millisecond)
				return false
			}
			cl = c
			return true
		})
		if cl != nil {
			break
		}
		cancel()
		if !ok {
			lastErr = "the RPC endpoint of server.Start did not answer within 30 s"
		}
		if !strings.Contains(lastErr, "address already in use") {
			break
		}
	}
	if cl == nil {
		out.Encode(Ans{Ok: true, Started: false, Err: lastErr})
		os.Exit(0)
	}
	out.Encode(Ans{Ok: true, Started: true})
	ctx := context.Background()
	exec := func(q string) (string, error) {
		r, err := cl.Execute(ctx, api.ExecRequest{Query: q})
		if err != nil {
			return "", err
		}
		return r.Output, r.Err
	}
	read := func(tags string, rg *[2]int64) ([]int64, error) {
		q := "SELECT FROM {" + tags + "}"
		if rg != nil {
			q += fmt.Sprintf(" RANGE [\"%d\":\"%d\"]", rg[0], rg[1])
		}
		var res api.QueryResult
		err := cl.Query(ctx, &api.QueryRequest{Query: q, Limit: 10000}, &res)
		if err == nil {
			err = res.Err
		}
		if err != nil && err != io.EOF {
			if strings.Contains(err.Error(), "no sources") || strings.Contains(err.Error(), "EOF") {
				err = nil
			} else {
				return nil, err
			}
		}
		ts := make([]int64, len(res.Events))
		for i, e := range res.Events {
			ts[i] = e.Timestamp
			checkEvent(tags, e)
		}
		return ts, nil
	}
	exists := func(tags string) (bool, error) {
		_, err := exec("DESCRIBE PARTITION {" + tags + "}")
		if err == nil {
			return true, nil
		}
		if strings.Contains(strings.ToLower(err.Error()), "not found") {
			return false, nil
		}
		return false, err
	}
	want := map[string]int{} // tags -> number of events that have to be readable (acknowledged in this session + found)
	rd := bufio.NewReader(os.Stdin)
	for {
		line, err := rd.ReadString('\n')
		if err != nil {
			os.Exit(3)
		}
		var c Cmd
		if err := json.Unmarshal([]byte(line), &c); err != nil {
			out.Encode(Ans{Err: "bad command: " + err.Error()})
			continue
		}
		switch c.Op {
		case "write":
			if _, ok := want[c.Tags]; !ok {
				have, _ := read(c.Tags, nil)
				want[c.Tags] = len(have)
			}
			evs := make([]*api.LogEvent, len(c.Ts))
			for i, t := range c.Ts {
				evs[i] = eventFor(t)
			}
			var wr api.WriteResult
			err := cl.Write(ctx, c.Tags, "", evs, &wr)
			if err == nil {
				err = wr.Err
			}
			if err == nil {
				want[c.Tags] += len(c.Ts)
			}
			out.Encode(ans(err))
		case "sync":
			// the flush timer has fired for every acknowledged event: all of them can be read
			var bad string
			ok := WaitFor(30*time.Second, func() bool {
				for t, n := range want {
					evs, err := read(t, nil)
					if err != nil || len(evs) < n {
						bad = fmt.Sprintf("%s: %d of %d acknowledged events readable (err=%v)", t, len(evs), n, err)
						time.Sleep(2 * time.Millisecond)
						return false
					}
				}
				return true
			})
			if !ok {
				out.Encode(Ans{Err: "acknowledged events did not become readable within 30 s: " + bad})
				continue
			}
			out.Encode(Ans{Ok: true})
		case "pipe":
			_, err := exec("CREATE PIPE " + c.Name + " FROM never=matches")
			if err != nil && strings.Contains(err.Error(), "already exists") {
				err = nil
			}
			out.Encode(ans(err))
		case "delpipe":
			_, err := exec("DELETE PIPE " + c.Name)
			if err != nil && strings.Contains(strings.ToLower(err.Error()), "not found") {
				err = nil
			}
			out.Encode(ans(err))
		case "drop":
			var lastErr error
			gone := WaitFor(20*time.Second, func() bool {
				if _, err := exec("TRUNCATE {" + c.Tags + "} MAXSIZE 1"); err != nil {
					lastErr = err
				}
				ex, err := exists(c.Tags)
				return err == nil && !ex
			})
			if !gone {
				out.Encode(Ans{Err: fmt.Sprintf("the partition %s is still there after TRUNCATE MAXSIZE 1 (last error: %v)", c.Tags, lastErr)})
				continue
			}
			delete(want, c.Tags)
			out.Encode(Ans{Ok: true})
		case "observe":
			a := Ans{Ok: true}
			for _, t := range c.Know {
				pv := PartView{Tags: t}
				ex, err := exists(t)
				if err != nil {
					ex, pv.Err = true, err.Error()
				}
				if ex {
					pv.Exists = true
					evs, err := read(t, nil)
					if err != nil {
						pv.Err = err.Error()
					}
					pv.Events = evs
					a.Count++
				}
				a.Parts = append(a.Parts, pv)
			}
			o, err := exec("SHOW PIPES")
			if err != nil {
				a.Ok, a.Err = false, err.Error()
			}
			for i, l := range strings.Split(strings.TrimSpace(o), "\n") {
				if i > 0 && strings.TrimSpace(l) != "" {
					a.Pipes = append(a.Pipes, strings.TrimSpace(l))
				}
			}
			sort.Strings(a.Pipes)
			a.Bad = takeBad()
			out.Encode(a)
		case "range":
			rg := [2]int64{c.Lo, c.Hi}
			evs, err := read(c.Tags, &rg)
			a := Ans{Ok: true, Events: evs}
			a.Bad = takeBad()
			if err != nil {
				a.Bad = append(a.Bad, "RANGE query on "+c.Tags+" fails: "+err.Error())
			}
			out.Encode(a)
		case "stop":
			// what the logrange binary does on SIGTERM: the context of server.Start is cancelled, Start shuts every component
			// down and returns
			cl.Close()
			cancel()
			select {
			case err := <-done:
				if err != nil {
					out.Encode(Ans{Err: "server.Start: " + err.Error()})
					os.Exit(0)
				}
			case <-time.After(50 * time.Second):
				out.Encode(Ans{Err: "server.Start did not return within 50 s after its context was cancelled"})
				os.Exit(0)
			}
			out.Encode(Ans{Ok: true})
			os.Exit(0)
		default:
			out.Encode(Ans{Err: "unknown op " + c.Op})
		}
	}
}
