package main

import (
	"path/filepath"
	"strings"
	"syscall"
	"unsafe"
)

// dropWatch observes, through one inotify queue (events of one instance are delivered in the order they happened), the
// two file-system effects of the removal of a partition: the tag index without the partition's record getting in place
// (tindex.dat is renamed over, or written and closed) and the partition's directory going away (a directory removed
// from one of the db/<xx> buckets). Which of the two comes first decides what a crash in between leaves behind: a record
// without data (tolerated by the start-up consistency check) or data without a record (the server refuses to start).
type dropWatch struct {
	fd     int
	tindex int32
}

func newDropWatch(dir string) (*dropWatch, error) {
	fd, err := syscall.InotifyInit1(syscall.IN_NONBLOCK | syscall.IN_CLOEXEC)
	if err != nil {
		return nil, err
	}
	w := &dropWatch{fd: fd}
	wd, err := syscall.InotifyAddWatch(fd, filepath.Join(dir, "tindex"), syscall.IN_MOVED_TO|syscall.IN_CLOSE_WRITE)
	if err != nil {
		syscall.Close(fd)
		return nil, err
	}
	w.tindex = int32(wd)
	buckets, _ := filepath.Glob(filepath.Join(dir, "db", "*"))
	for _, b := range buckets {
		if _, err := syscall.InotifyAddWatch(fd, b, syscall.IN_DELETE); err != nil {
			syscall.Close(fd)
			return nil, err
		}
	}
	return w, nil
}

// order reads what happened since the watch was set up: "data-first", "record-first", or "unseen" when one of the two
// effects did not happen (the partition did not exist, had no directory yet, ...)
func (w *dropWatch) order() string {
	defer syscall.Close(w.fd)
	idx, dirGone, n := -1, -1, 0
	buf := make([]byte, 64*1024)
	for {
		k, err := syscall.Read(w.fd, buf)
		if k <= 0 || err != nil {
			break
		}
		for off := 0; off+syscall.SizeofInotifyEvent <= k; {
			ev := (*syscall.InotifyEvent)(unsafe.Pointer(&buf[off]))
			name := strings.TrimRight(string(buf[off+syscall.SizeofInotifyEvent:off+syscall.SizeofInotifyEvent+int(ev.Len)]), "\x00")
			off += syscall.SizeofInotifyEvent + int(ev.Len)
			n++
			switch {
			case ev.Wd == w.tindex && name == "tindex.dat" && idx < 0:
				idx = n
			case ev.Wd != w.tindex && ev.Mask&syscall.IN_ISDIR != 0 && ev.Mask&syscall.IN_DELETE != 0 && dirGone < 0:
				dirGone = n
			}
		}
	}
	switch {
	case idx < 0 || dirGone < 0:
		return "unseen"
	case dirGone < idx:
		return "data-first"
	default:
		return "record-first"
	}
}
