package main

import (
	"bufio"
	"context"
	"encoding/json"
	"fmt"
	"io"
	"io/ioutil"
	"os"
	"path/filepath"
	"sort"
	"strings"
	"sync"
	"syscall"
	"time"
	"unsafe"

	"github.com/logrange/logrange/api"
	"github.com/logrange/logrange/pkg/pipe"
	"github.com/logrange/range/pkg/records/journal"
	"github.com/logrange/range/pkg/utils/fileutil"
	. "verifharness/common"
)

// The server runs in a CHILD PROCESS (this binary, first argument "serve"): a graceful stop followed by the
// process exit, or a SIGKILL, really ends every writer goroutine and drops every buffer - which an in-process
// "restart" would not. The parent drives it with one JSON command per line on stdin, one JSON answer per line on stdout.

type Cmd struct {
	Op     string   `json:"op"`             // write | sync | pipe | delpipe | drop | hold | burst | round | observe | range | stop
	Dest   string   `json:"dest,omitempty"` // round: the tags of the pipe's destination partition
	Skip   int      `json:"skip,omitempty"` // round: source events the pipe is known to have passed over (it lost its position in a crash)
	Cond   string   `json:"cond,omitempty"` // pipe: the source condition (default: one that matches no partition)
	N      int      `json:"n,omitempty"`    // round: the deadline of the wait in ms (default 40 s)
	Tags   string   `json:"tags,omitempty"`
	Ts     []int64  `json:"ts,omitempty"`
	Name   string   `json:"name,omitempty"`
	Lo     int64    `json:"lo,omitempty"`
	Hi     int64    `json:"hi,omitempty"`
	Know   []string `json:"know,omitempty"`   // observe: the tag lines to look at
	Create []string `json:"create,omitempty"` // burst: pipes created ...
	Delete []string `json:"delete,omitempty"` // ... and pipes deleted, all at the same time
	Soft   *int64   `json:"soft,omitempty"`   // write: files can not grow past this size while the write runs (the tag-index save fails)
	Lim    *int64   `json:"lim,omitempty"`    // stop, write: file size limit set just before the shutdown sequence / the write runs (crash injection)
}

type PartView struct {
	Tags   string  `json:"tags"`
	Exists bool    `json:"exists"`
	Events []int64 `json:"events"`
	Err    string  `json:"err,omitempty"` // the partition is there and reading it fails
}

type Ans struct {
	Ok      bool       `json:"ok"`
	Err     string     `json:"err,omitempty"`
	Started bool       `json:"started,omitempty"`
	Parts   []PartView `json:"parts,omitempty"`
	Count   int        `json:"count,omitempty"` // number of partitions the server knows
	Pipes   []string   `json:"pipes,omitempty"`
	Events  []int64    `json:"events,omitempty"`
	Short   bool       `json:"short,omitempty"` // round: the wait ended at its deadline
	Bad     []string   `json:"bad,omitempty"`   // observe, range: events read whose message or fields are not what was written
}

// crashAtFileSize: from now on the first write that would take a file of this process past k bytes ends the process
// INSIDE that write: the kernel writes the part that fits and raises SIGXFSZ, whose disposition is put back to the
// default (terminate) behind the Go runtime's back (the runtime would otherwise ignore the signal and the writer
// would get EFBIG and go on). This is a real crash inside a saver's WriteFile, whichever way the saver is written.
func crashAtFileSize(k int64) {
	var dfl [64]byte // struct sigaction, all zero: sa_handler = SIG_DFL, no flags, empty mask
	syscall.RawSyscall6(syscall.SYS_RT_SIGACTION, uintptr(syscall.SIGXFSZ), uintptr(unsafe.Pointer(&dfl[0])), 0, 8, 0, 0)
	syscall.Setrlimit(syscall.RLIMIT_CORE, &syscall.Rlimit{Cur: 0, Max: 0})
	syscall.Setrlimit(syscall.RLIMIT_FSIZE, &syscall.Rlimit{Cur: uint64(k), Max: uint64(k)})
}

func serveMain(args []string) {
	dir := args[0]
	flushMs := 600000
	if len(args) > 1 {
		fmt.Sscanf(args[1], "%d", &flushMs)
	}
	if len(args) > 2 {
		// crash injection into the savers that run during Init (the tag index is saved at the end of its Init)
		var k int64 = -1
		fmt.Sscanf(args[2], "%d", &k)
		if k >= 0 {
			crashAtFileSize(k)
		}
	}
	out := json.NewEncoder(os.Stdout)
	opts := ServerOpts{Dir: dir, WriteFlushMs: flushMs}
	if len(args) > 3 && strings.HasPrefix(args[3], "chunk:") {
		var n int64
		fmt.Sscanf(strings.TrimPrefix(args[3], "chunk:"), "%d", &n)
		opts.MaxChunkSize = n // many chunks per partition
	}
	if len(args) > 3 && strings.HasPrefix(args[3], "ensure:") {
		// the forwarding pipe is a configured one (PipesConfig.EnsureAtStart): Init creates it when it is not there and leaves
		// it - and its progress - alone when it is there with the same definition
		opts.EnsureAtStart = []pipe.Pipe{{Name: strings.TrimPrefix(args[3], "ensure:"), TagsCond: "app=c07 AND p=0"}}
	}
	srv, err := StartServer(opts)
	if err != nil {
		out.Encode(Ans{Ok: true, Started: false, Err: err.Error()})
		os.Exit(0)
	}
	out.Encode(Ans{Ok: true, Started: true})
	ctx := context.Background()
	rd := bufio.NewReader(os.Stdin)
	for {
		line, err := rd.ReadString('\n')
		if err != nil {
			if err == io.EOF {
				// the parent went away: behave like a crash
				os.Exit(3)
			}
			os.Exit(4)
		}
		var c Cmd
		if err := json.Unmarshal([]byte(line), &c); err != nil {
			out.Encode(Ans{Err: "bad command: " + err.Error()})
			continue
		}
		switch c.Op {
		case "write":
			evs := make([]*api.LogEvent, len(c.Ts))
			for i, t := range c.Ts {
				evs[i] = eventFor(t)
			}
			if c.Lim != nil {
				crashAtFileSize(*c.Lim) // a write that creates a partition: the process dies inside the tag-index save
			}
			if c.Soft != nil {
				// a write that creates a partition while files can not grow past Soft bytes (SIGXFSZ is ignored by the Go
				// runtime: the write of the tag index fails with EFBIG half way): the save fails, the partition must not be
				// registered and the write must not be acknowledged. The limit is lifted again afterwards.
				var old syscall.Rlimit
				syscall.Getrlimit(syscall.RLIMIT_FSIZE, &old)
				syscall.Setrlimit(syscall.RLIMIT_FSIZE, &syscall.Rlimit{Cur: uint64(*c.Soft), Max: old.Max})
				err := srvWrite(ctx, srv, c.Tags, evs)
				syscall.Setrlimit(syscall.RLIMIT_FSIZE, &old)
				_, perr := srv.Partitions.GetParitionInfo(c.Tags)
				a := Ans{Ok: true, Short: err == nil}
				if perr == nil {
					a.Count = 1 // the partition is registered
				}
				if err != nil {
					a.Err = err.Error()
				}
				out.Encode(a)
				continue
			}
			err := srvWrite(ctx, srv, c.Tags, evs)
			out.Encode(ans(err))
		case "sync":
			// stands for "WriteFlushMs passed": every chunk writer flushes
			srv.JCtrl.(journal.Controller).Visit(ctx, func(j journal.Journal) bool {
				j.Sync()
				return true
			})
			out.Encode(Ans{Ok: true})
		case "pipe":
			// creating an existing pipe / deleting a missing one is refused and changes nothing: not an error of the scenario
			cond := c.Cond
			if cond == "" {
				cond = "never=matches"
			}
			_, err := srv.Pipes.CreatePipe(pipe.Pipe{Name: c.Name, TagsCond: cond})
			if err != nil && strings.Contains(err.Error(), "already exists") {
				err = nil
			}
			out.Encode(ans(err))
		case "hold":
			// the index rebuilder gets no worker: what a write finds inconsistent stays as it is until the process ends
			srv.Partitions.VC02HoldRebuilder()
			out.Encode(Ans{Ok: true})
		case "burst":
			// many clients change the pipe definitions at the same moment; when every request is acknowledged the answer carries
			// what the definitions' file holds now, i.e. what a SIGKILL at this moment would leave
			var wg sync.WaitGroup
			gate := make(chan struct{})
			var mu sync.Mutex
			var firstErr error
			run := func(f func() error) {
				wg.Add(1)
				go func() {
					defer wg.Done()
					<-gate
					if err := f(); err != nil {
						mu.Lock()
						if firstErr == nil {
							firstErr = err
						}
						mu.Unlock()
					}
				}()
			}
			for _, n := range c.Create {
				n := n
				run(func() error {
					_, err := srv.Pipes.CreatePipe(pipe.Pipe{Name: n, TagsCond: "never=matches"})
					return err
				})
			}
			for _, n := range c.Delete {
				n := n
				run(func() error { return srv.Pipes.DeletePipe(n) })
			}
			close(gate)
			wg.Wait()
			a := ans(firstErr)
			if data, err := ioutil.ReadFile(registryFile(dir)); err == nil {
				var ps []pipe.Pipe
				if json.Unmarshal(data, &ps) == nil {
					for _, p := range ps {
						a.Pipes = append(a.Pipes, p.Name)
					}
				} else {
					a.Pipes = []string{"<the definitions' file does not parse>"}
				}
			}
			sort.Strings(a.Pipes)
			out.Encode(a)
		case "delpipe":
			err := srv.Pipes.DeletePipe(c.Name)
			if err != nil && strings.Contains(strings.ToLower(err.Error()), "not found") {
				err = nil
			}
			out.Encode(ans(err))
		case "drop":
			// the partition is truncated away completely (TRUNCATE ... MAXSIZE 1 removes every chunk, an empty partition
			// is deleted). The deletion needs the partition exclusively: a cursor of an earlier query may still hold it for
			// a moment, so the statement is repeated until the partition is gone (generous deadline)
			var lastErr error
			gone := WaitFor(20*time.Second, func() bool {
				if _, err := srv.Exec("TRUNCATE {" + c.Tags + "} MAXSIZE 1"); err != nil {
					lastErr = err
				}
				_, err := srv.Partitions.GetParitionInfo(c.Tags)
				return err != nil && strings.Contains(err.Error(), "not found")
			})
			if !gone {
				out.Encode(Ans{Err: fmt.Sprintf("the partition %s is still there after TRUNCATE MAXSIZE 1 (last error: %v)", c.Tags, lastErr)})
				continue
			}
			out.Encode(Ans{Ok: true})
		case "round":
			// one round of a pipe from the partition Tags to the partition Dest. The pipe's worker must never be between
			// reading its source and asking its cursor for the position while source records get flushed (what is flushed
			// in that window is skipped by the pipe for ever: a defect of the pipe, not of persistence), so the source is
			// flushed only while the worker waits for new data or does not run:
			//   1. flush every journal: what earlier rounds left buffered in the source becomes readable, a waiting worker
			//      wakes up and forwards it;
			//   2. write Ts to the source (acknowledged, stays buffered): a worker that does not run is started by the
			//      notification and forwards what step 1 made readable;
			//   3. wait until the destination holds as many events as the source had flushed after step 1, less Skip (only the
			//      destination is flushed meanwhile) and the pipe's
			//      progress file was rewritten since step 1 (the worker is past the position query of this round).
			t0 := time.Now()
			pf := filepath.Join(dir, "pipes", "pipe"+fileutil.EscapeToFileName(c.Name)+".dat")
			before := statOf(pf)
			srv.JCtrl.(journal.Controller).Visit(ctx, func(j journal.Journal) bool {
				j.Sync()
				return true
			})
			// what the pipe has to have forwarded at the end of the round: the source's flushed events, as they are now
			have, _ := readAll(ctx, srv, c.Tags, nil)
			evs := make([]*api.LogEvent, len(c.Ts))
			for i, t := range c.Ts {
				evs[i] = eventFor(t)
			}
			if err := srvWrite(ctx, srv, c.Tags, evs); err != nil {
				out.Encode(ans(err))
				continue
			}
			deadline := 40 * time.Second
			if c.N > 0 {
				deadline = time.Duration(c.N) * time.Millisecond
			}
			var got []int64
			var complete time.Time
			stale := false // the destination is complete, the progress file was not rewritten
			done := WaitFor(deadline, func() bool {
				if pi, err := srv.Partitions.GetParitionInfo(c.Dest); err == nil {
					if j, err := srv.JCtrl.(journal.Controller).GetOrCreate(ctx, pi.JournalId); err == nil {
						j.Sync()
					}
				}
				got, _ = readAll(ctx, srv, c.Dest, nil)
				if len(got) >= len(have)-c.Skip {
					if statOf(pf) != before {
						return true
					}
					// the save follows the write to the destination at once; a pipe that does not rewrite its progress
					// file is not waited for longer than this
					if complete.IsZero() {
						complete = time.Now()
					} else if time.Since(complete) > 10*time.Second {
						stale = true
						return true
					}
				}
				time.Sleep(5 * time.Millisecond)
				return false
			})
			out.Encode(Ans{Ok: true, Events: got, Count: int(time.Since(t0) / time.Millisecond), Short: !done || stale})
		case "observe":
			a := Ans{Ok: true}
			for _, t := range c.Know {
				pv := PartView{Tags: t}
				_, err := srv.Partitions.GetParitionInfo(t)
				if err == nil {
					pv.Exists = true
					evs, err := readAll(ctx, srv, t, nil)
					if err != nil {
						pv.Err = err.Error() // a verdict of the oracle, not a failure of the harness
					}
					pv.Events = evs
				} else if !strings.Contains(err.Error(), "not found") {
					pv.Exists, pv.Err = true, err.Error() // registered, and not even its description can be had
				}
				a.Parts = append(a.Parts, pv)
			}
			pi, err := srv.Partitions.Partitions(ctx, nil, 0, 1000)
			if err != nil {
				a.Ok, a.Err = false, err.Error()
			} else {
				a.Count = pi.Count
			}
			for _, p := range srv.Pipes.GetPipes() {
				a.Pipes = append(a.Pipes, p.Name)
			}
			sort.Strings(a.Pipes)
			a.Bad = takeBad()
			out.Encode(a)
		case "range":
			rg := [2]int64{c.Lo, c.Hi}
			evs, err := readAll(ctx, srv, c.Tags, &rg)
			a := Ans{Ok: true, Events: evs}
			a.Bad = takeBad()
			if err != nil {
				a.Bad = append(a.Bad, "RANGE query on "+c.Tags+" fails: "+err.Error())
			}
			out.Encode(a)
		case "stop":
			if c.Lim != nil {
				crashAtFileSize(*c.Lim) // the first saver of the shutdown sequence that writes more than this dies in the write
			}
			srv.Stop() // cancel the context, Shutdown() of every component in reverse order - as server.Start does
			out.Encode(Ans{Ok: true})
			os.Exit(0)
		default:
			out.Encode(Ans{Err: "unknown op " + c.Op})
		}
	}
}

// statOf: modification time and size of a file ("" if it is not there)
func statOf(fn string) string {
	fi, err := os.Stat(fn)
	if err != nil {
		return ""
	}
	return fmt.Sprintf("%d/%d", fi.ModTime().UnixNano(), fi.Size())
}

func ans(err error) Ans {
	if err != nil {
		return Ans{Err: err.Error()}
	}
	return Ans{Ok: true}
}

func srvWrite(ctx context.Context, srv *Server, tags string, evs []*api.LogEvent) error {
	var wr api.WriteResult
	if err := srv.Client.Write(ctx, tags, "", evs, &wr); err != nil {
		return err
	}
	return wr.Err
}

func readAll(ctx context.Context, srv *Server, tags string, rg *[2]int64) ([]int64, error) {
	q := "SELECT FROM {" + tags + "}"
	if rg != nil {
		q += fmt.Sprintf(" RANGE [\"%d\":\"%d\"]", rg[0], rg[1])
	}
	res, err := srv.Querier.Query(ctx, &api.QueryRequest{Query: q, Limit: 10000})
	if err != nil && !(err == io.EOF && res != nil) {
		if strings.Contains(err.Error(), "no sources") {
			return nil, nil
		}
		return nil, err
	}
	ts := make([]int64, len(res.Events))
	for i, e := range res.Events {
		ts[i] = e.Timestamp
		checkEvent(tags, e)
	}
	return ts, nil
}
