package main

import (
	"bufio"
	"context"
	"encoding/json"
	"fmt"
	"io"
	"os"
	"sort"
	"strings"
	"syscall"
	"unsafe"

	"github.com/logrange/logrange/api"
	"github.com/logrange/logrange/pkg/pipe"
	"github.com/logrange/range/pkg/records/journal"
	. "verifharness/common"
)

// The server runs in a CHILD PROCESS (this binary, first argument "serve"): a graceful stop followed by the
// process exit, or a SIGKILL, really ends every writer goroutine and drops every buffer - which an in-process
// "restart" would not. The parent drives it with one JSON command per line on stdin, one JSON answer per line on stdout.

type Cmd struct {
	Op   string   `json:"op"` // write | sync | pipe | delpipe | observe | range | stop
	Tags string   `json:"tags,omitempty"`
	Ts   []int64  `json:"ts,omitempty"`
	Name string   `json:"name,omitempty"`
	Lo   int64    `json:"lo,omitempty"`
	Hi   int64    `json:"hi,omitempty"`
	Know []string `json:"know,omitempty"` // observe: the tag lines to look at
	Lim  *int64   `json:"lim,omitempty"`  // stop: file size limit set just before the shutdown sequence runs (crash injection)
}

type PartView struct {
	Tags   string  `json:"tags"`
	Exists bool    `json:"exists"`
	Events []int64 `json:"events"`
}

type Ans struct {
	Ok      bool       `json:"ok"`
	Err     string     `json:"err,omitempty"`
	Started bool       `json:"started,omitempty"`
	Parts   []PartView `json:"parts,omitempty"`
	Count   int        `json:"count,omitempty"` // number of partitions the server knows
	Pipes   []string   `json:"pipes,omitempty"`
	Events  []int64    `json:"events,omitempty"`
}

// crashAtFileSize: from now on the first write that would take a file of this process past k bytes ends the process
// INSIDE that write: the kernel writes the part that fits and raises SIGXFSZ, whose disposition is put back to the
// default (terminate) behind the Go runtime's back (the runtime would otherwise ignore the signal and the writer
// would get EFBIG and go on). This is a real crash inside a saver's WriteFile, whichever way the saver is written.
func crashAtFileSize(k int64) {
	var dfl [64]byte // struct sigaction, all zero: sa_handler = SIG_DFL, no flags, empty mask
	syscall.RawSyscall6(syscall.SYS_RT_SIGACTION, uintptr(syscall.SIGXFSZ), uintptr(unsafe.Pointer(&dfl[0])), 0, 8, 0, 0)
	syscall.Setrlimit(syscall.RLIMIT_CORE, &syscall.Rlimit{Cur: 0, Max: 0})
	syscall.Setrlimit(syscall.RLIMIT_FSIZE, &syscall.Rlimit{Cur: uint64(k), Max: uint64(k)})
}

func serveMain(args []string) {
	dir := args[0]
	flushMs := 600000
	if len(args) > 1 {
		fmt.Sscanf(args[1], "%d", &flushMs)
	}
	if len(args) > 2 {
		// crash injection into the savers that run during Init (the tag index is saved at the end of its Init)
		var k int64 = -1
		fmt.Sscanf(args[2], "%d", &k)
		if k >= 0 {
			crashAtFileSize(k)
		}
	}
	out := json.NewEncoder(os.Stdout)
	srv, err := StartServer(ServerOpts{Dir: dir, WriteFlushMs: flushMs})
	if err != nil {
		out.Encode(Ans{Ok: true, Started: false, Err: err.Error()})
		os.Exit(0)
	}
	out.Encode(Ans{Ok: true, Started: true})
	ctx := context.Background()
	rd := bufio.NewReader(os.Stdin)
	for {
		line, err := rd.ReadString('\n')
		if err != nil {
			if err == io.EOF {
				// the parent went away: behave like a crash
				os.Exit(3)
			}
			os.Exit(4)
		}
		var c Cmd
		if err := json.Unmarshal([]byte(line), &c); err != nil {
			out.Encode(Ans{Err: "bad command: " + err.Error()})
			continue
		}
		switch c.Op {
		case "write":
			evs := make([]*api.LogEvent, len(c.Ts))
			for i, t := range c.Ts {
				evs[i] = &api.LogEvent{Timestamp: t, Message: fmt.Sprintf("e%d", t)}
			}
			err := srvWrite(ctx, srv, c.Tags, evs)
			out.Encode(ans(err))
		case "sync":
			// stands for "WriteFlushMs passed": every chunk writer flushes
			srv.JCtrl.(journal.Controller).Visit(ctx, func(j journal.Journal) bool {
				j.Sync()
				return true
			})
			out.Encode(Ans{Ok: true})
		case "pipe":
			// creating an existing pipe / deleting a missing one is refused and changes nothing: not an error of the scenario
			_, err := srv.Pipes.CreatePipe(pipe.Pipe{Name: c.Name, TagsCond: "never=matches"})
			if err != nil && strings.Contains(err.Error(), "already exists") {
				err = nil
			}
			out.Encode(ans(err))
		case "delpipe":
			err := srv.Pipes.DeletePipe(c.Name)
			if err != nil && strings.Contains(strings.ToLower(err.Error()), "not found") {
				err = nil
			}
			out.Encode(ans(err))
		case "observe":
			a := Ans{Ok: true}
			for _, t := range c.Know {
				pv := PartView{Tags: t}
				_, err := srv.Partitions.GetParitionInfo(t)
				if err == nil {
					pv.Exists = true
					evs, err := readAll(ctx, srv, t, nil)
					if err != nil {
						a.Ok, a.Err = false, err.Error()
					}
					pv.Events = evs
				} else if !strings.Contains(err.Error(), "not found") {
					a.Ok, a.Err = false, err.Error()
				}
				a.Parts = append(a.Parts, pv)
			}
			pi, err := srv.Partitions.Partitions(ctx, nil, 0, 1000)
			if err != nil {
				a.Ok, a.Err = false, err.Error()
			} else {
				a.Count = pi.Count
			}
			for _, p := range srv.Pipes.GetPipes() {
				a.Pipes = append(a.Pipes, p.Name)
			}
			sort.Strings(a.Pipes)
			out.Encode(a)
		case "range":
			rg := [2]int64{c.Lo, c.Hi}
			evs, err := readAll(ctx, srv, c.Tags, &rg)
			a := ans(err)
			a.Events = evs
			out.Encode(a)
		case "stop":
			if c.Lim != nil {
				crashAtFileSize(*c.Lim) // the first saver of the shutdown sequence that writes more than this dies in the write
			}
			srv.Stop() // cancel the context, Shutdown() of every component in reverse order - as server.Start does
			out.Encode(Ans{Ok: true})
			os.Exit(0)
		default:
			out.Encode(Ans{Err: "unknown op " + c.Op})
		}
	}
}

func ans(err error) Ans {
	if err != nil {
		return Ans{Err: err.Error()}
	}
	return Ans{Ok: true}
}

func srvWrite(ctx context.Context, srv *Server, tags string, evs []*api.LogEvent) error {
	var wr api.WriteResult
	if err := srv.Client.Write(ctx, tags, "", evs, &wr); err != nil {
		return err
	}
	return wr.Err
}

func readAll(ctx context.Context, srv *Server, tags string, rg *[2]int64) ([]int64, error) {
	q := "SELECT FROM {" + tags + "}"
	if rg != nil {
		q += fmt.Sprintf(" RANGE [\"%d\":\"%d\"]", rg[0], rg[1])
	}
	res, err := srv.Querier.Query(ctx, &api.QueryRequest{Query: q, Limit: 10000})
	if err != nil && !(err == io.EOF && res != nil) {
		if strings.Contains(err.Error(), "no sources") {
			return nil, nil
		}
		return nil, err
	}
	ts := make([]int64, len(res.Events))
	for i, e := range res.Events {
		ts[i] = e.Timestamp
	}
	return ts, nil
}
