package main

import (
	"bytes"
	"encoding/json"
	"fmt"
	"io/ioutil"
	"os"
	"path/filepath"
	"sort"

	. "verifharness/common"
)

// A scenario is a list of sessions of one server directory. A session: the server is started, the steps are
// executed, the session ends gracefully ("stop": context cancelled, every Shutdown runs, the process exits) or by
// SIGKILL ("kill"); afterwards the listed file surgery is applied to the stopped directory. After the last session
// the server is started once more. Every start is followed by an observation (or "refused to start").
type Step struct {
	Op   string  `json:"op"` // write | sync | pipe | delpipe
	Part int     `json:"part,omitempty"`
	Ts   []int64 `json:"ts,omitempty"`
	Name string  `json:"name,omitempty"`
}

type Surgery struct {
	Kind string `json:"kind"`        // tindex-torn | tindex-orphan | cindex-drop | cindex-stale | cindex-torn
	K    int    `json:"k,omitempty"` // torn: keep K per mille of the file (always a proper prefix)
	Part int    `json:"part,omitempty"`
}

type Session struct {
	Steps   []Step    `json:"steps"`
	End     string    `json:"end"`             // stop | kill | crash-stop (the process dies inside the first saver of the shutdown sequence)
	EndK    int       `json:"end_k,omitempty"` // crash-stop: the file size limit is EndK per mille of pipes.dat (what savePipes is about to write)
	Surgery []Surgery `json:"surgery,omitempty"`
}

type Scenario struct {
	Kind     string    `json:"kind"`
	NParts   int       `json:"nparts"`
	Sessions []Session `json:"sessions"`
	Range    [2]int64  `json:"range"` // the time-range probe asked of every partition after every start
}

type Obs struct {
	Started bool
	Err     string
	Parts   []PartView // by partition number
	Count   int
	Pipes   []string
	Ranges  [][]int64
}

func partTags(i int) string { return fmt.Sprintf("app=c07,p=%d", i) }

func (sc *Scenario) know() []string {
	k := make([]string, sc.NParts)
	for i := range k {
		k[i] = partTags(i)
	}
	return k
}

func observe(c *child, sc *Scenario) (Obs, error) {
	a, err := c.do(Cmd{Op: "observe", Know: sc.know()})
	if err != nil {
		return Obs{}, err
	}
	o := Obs{Started: true, Parts: a.Parts, Count: a.Count, Pipes: a.Pipes}
	for i := 0; i < sc.NParts; i++ {
		var evs []int64
		if a.Parts[i].Exists {
			r, err := c.do(Cmd{Op: "range", Tags: partTags(i), Lo: sc.Range[0], Hi: sc.Range[1]})
			if err != nil {
				return Obs{}, err
			}
			evs = r.Events
		}
		o.Ranges = append(o.Ranges, evs)
	}
	return o, nil
}

func tornPrefix(data []byte, perMille int) []byte {
	n := len(data) * perMille / 1000
	if n >= len(data) {
		n = len(data) - 1
	}
	if n < 0 {
		n = 0
	}
	return data[:n]
}

// applySurgery makes the stopped directory look like a crash at some point of the metadata savers. The crash inside the
// tag-index save is a real one (a start of the server that dies in the saver's write); the others are file edits.
func applySurgery(dir string, s Surgery, saved map[string][]byte, tr *trace) error {
	tdat := filepath.Join(dir, "tindex", "tindex.dat")
	cdat := filepath.Join(dir, "cindex", "cindex.dat")
	tear := func(fn string) error {
		data, err := ioutil.ReadFile(fn)
		if os.IsNotExist(err) {
			return nil
		}
		if err != nil {
			return err
		}
		return ioutil.WriteFile(fn, tornPrefix(data, s.K), 0640)
	}
	switch s.Kind {
	case "tindex-torn":
		// a crash inside the write of the tag-index save that ends every Init: the server is started with a file size
		// limit of K per mille of tindex.dat (the save writes the same index again, so the limit is always reached) and
		// dies inside the saver's write, k bytes written. Which file is torn is the saver's business: tindex.dat itself
		// (a saver that writes in place) or a temporary file (a saver that writes aside and renames).
		data, err := ioutil.ReadFile(tdat)
		if os.IsNotExist(err) {
			return nil
		}
		if err != nil {
			return err
		}
		how, err := crashStart(dir, int64(len(tornPrefix(data, s.K))))
		if err != nil {
			return err
		}
		tr.inject = append(tr.inject, "start:"+how)
		return nil
	case "tindex-orphan": // crash between TIndex.Delete (index saved without the partition) and the removal of its directory
		data, err := ioutil.ReadFile(tdat)
		if os.IsNotExist(err) {
			return nil
		}
		if err != nil {
			return err
		}
		var m map[string]json.RawMessage
		if err := json.Unmarshal(data, &m); err != nil {
			return nil // already torn: nothing to take a record out of
		}
		var keys []string
		for k := range m {
			keys = append(keys, k)
		}
		sort.Strings(keys)
		found := false
		for _, k := range keys {
			if bytes.Contains([]byte(k), []byte(fmt.Sprintf("p=%d", s.Part))) {
				delete(m, k)
				found = true
			}
		}
		if !found {
			return nil
		}
		out, _ := json.Marshal(m)
		return ioutil.WriteFile(tdat, out, 0640)
	case "cindex-drop":
		err := os.Remove(cdat)
		if os.IsNotExist(err) {
			return nil
		}
		return err
	case "cindex-torn":
		return tear(cdat)
	case "cindex-stale": // the snapshot of the previous clean shutdown (as after a crash of the session that just ended)
		old, ok := saved["cindex"]
		if !ok {
			err := os.Remove(cdat)
			if os.IsNotExist(err) {
				return nil
			}
			return err
		}
		return ioutil.WriteFile(cdat, old, 0640)
	}
	return fmt.Errorf("unknown surgery %q", s.Kind)
}

type trace struct {
	pre     []Obs    // one per session: what the server showed just before the session ended
	obs     []Obs    // one per start
	errs    []string // harness-level notes
	inject  []string // how every injected crash ended ("start:died:file size limit exceeded", ...)
	cdatOld bool
}

// runScenario executes the scenario on a fresh directory
func runScenario(sc *Scenario) (*trace, error) {
	dir := TempDir("c07")
	defer RemoveAll(dir)
	tr := &trace{}
	saved := map[string][]byte{}
	start := func() (*child, error) {
		c, started, msg, err := startChild(dir, 600000)
		if err != nil {
			return nil, err
		}
		if !started {
			tr.obs = append(tr.obs, Obs{Started: false, Err: msg})
			return nil, nil
		}
		o, err := observe(c, sc)
		if err != nil {
			c.kill()
			return nil, err
		}
		tr.obs = append(tr.obs, o)
		return c, nil
	}
	for si, ss := range sc.Sessions {
		c, err := start()
		if err != nil {
			return nil, err
		}
		if c == nil {
			return tr, nil // the server refuses to start: the scenario ends here
		}
		for _, st := range ss.Steps {
			var cmd Cmd
			switch st.Op {
			case "write":
				cmd = Cmd{Op: "write", Tags: partTags(st.Part), Ts: st.Ts}
			case "sync":
				cmd = Cmd{Op: "sync"}
			case "pipe":
				cmd = Cmd{Op: "pipe", Name: st.Name}
			case "delpipe":
				cmd = Cmd{Op: "delpipe", Name: st.Name}
			default:
				c.kill()
				return nil, fmt.Errorf("unknown step %q", st.Op)
			}
			if _, err := c.do(cmd); err != nil {
				c.kill()
				return nil, fmt.Errorf("session %d: %v", si, err)
			}
		}
		pre, err := observe(c, sc)
		if err != nil {
			c.kill()
			return nil, err
		}
		tr.pre = append(tr.pre, pre)
		// the snapshot a crash of THIS session would leave behind is the one written by the previous clean stop
		if data, err := ioutil.ReadFile(filepath.Join(dir, "cindex", "cindex.dat")); err == nil {
			saved["cindex"] = data
		} else {
			delete(saved, "cindex")
		}
		switch ss.End {
		case "kill":
			c.kill()
		case "crash-stop":
			// pipes.dat holds the list the shutdown is about to write again (the definitions are saved when they change);
			// a directory that never had a pipe gets "[]"
			size := 2
			if data, err := ioutil.ReadFile(filepath.Join(dir, "pipes", "pipes.dat")); err == nil && len(data) > 0 {
				size = len(data)
			}
			how, err := c.crashStop(int64(len(tornPrefix(make([]byte, size), ss.EndK))))
			if err != nil {
				return nil, err
			}
			tr.inject = append(tr.inject, "stop:"+how)
		default:
			if err := c.stop(); err != nil {
				return nil, err
			}
		}
		for _, sg := range ss.Surgery {
			if err := applySurgery(dir, sg, saved, tr); err != nil {
				return nil, fmt.Errorf("surgery %s: %v", sg.Kind, err)
			}
		}
	}
	c, err := start()
	if err != nil {
		return nil, err
	}
	if c != nil {
		if err := c.stop(); err != nil {
			return nil, err
		}
	}
	return tr, nil
}
