package main

import (
	"bytes"
	"encoding/json"
	"fmt"
	"io/ioutil"
	"os"
	"path/filepath"
	"sort"
	"strconv"
	"strings"

	"github.com/logrange/range/pkg/utils/fileutil"
	"time"

	. "verifharness/common"
)

// A scenario is a list of sessions of one server directory. A session: the server is started, the steps are
// executed, the session ends gracefully ("stop": context cancelled, every Shutdown runs, the process exits) or by
// SIGKILL ("kill"); afterwards the listed file surgery is applied to the stopped directory. After the last session
// the server is started once more. Every start is followed by an observation (or "refused to start").
type Step struct {
	Op   string  `json:"op"` // write | sync | pipe | delpipe | failcreate (a write that creates a partition while the tag index can not be saved) | drop (the partition is truncated away completely) | fwdpipe (the pipe "pf" from partition 0 to the last partition) | round (flush; write Ts to partition 0, which stays buffered; wait until that pipe has forwarded what is flushed; flush the destination)
	Part int     `json:"part,omitempty"`
	Ts   []int64 `json:"ts,omitempty"`
	Name string  `json:"name,omitempty"`
	// burst: pipes created and pipes deleted by concurrent requests
	Create []string `json:"create,omitempty"`
	Delete []string `json:"delete,omitempty"`
}

type Surgery struct {
	Name string `json:"name,omitempty"` // progress-torn: the pipe
	Kind string `json:"kind"`           // tindex-torn | drop-window | progress-torn | registry-old-name | tidx-drop | tidx-short | tidx-zero | tindex-damaged | pipes-damaged | record-removed | cindex-drop | cindex-stale | cindex-torn
	K    int    `json:"k,omitempty"`    // torn: keep K per mille of the file (always a proper prefix)
	Part int    `json:"part,omitempty"`
}

type Session struct {
	Steps   []Step    `json:"steps"`
	End     string    `json:"end"`             // stop | kill | crash-stop (the process dies inside the first saver of the shutdown sequence) | crash-create (it dies inside the tag-index save of a partition creation)
	EndK    int       `json:"end_k,omitempty"` // crash-stop: the file size limit is EndK per mille of pipes.dat (what savePipes is about to write); crash-create: EndK bytes above the length of tindex.dat
	Surgery []Surgery `json:"surgery,omitempty"`
	// Blind: nothing is asked of the server between the start of this session and its first step (no read, no RANGE
	// probe: a query lets the time index learn the chunks its snapshot does not know; here a write finds them unknown)
	Blind bool `json:"blind,omitempty"`
	// Hold (with Blind): the rebuilder of the time index is held for the whole session: a chunk info that a write marks
	// as partial (the index learnt about the chunk from that write) is still partial when the session ends
	Hold bool `json:"hold,omitempty"`
}

type Scenario struct {
	Kind     string    `json:"kind"`
	NParts   int       `json:"nparts"`
	Sessions []Session `json:"sessions"`
	Range    [2]int64  `json:"range"` // the time-range probe asked of every partition after every start
	// Ensure (fwd scenarios): the forwarding pipe is not created by a step but configured (PipesConfig.EnsureAtStart): every
	// start ensures it
	Ensure bool   `json:"ensure,omitempty"`
	Pipe   string `json:"pipe,omitempty"` // fwd scenarios: the name of the forwarding pipe (default "pf")
	// TagStyle: what the partitions' tag lines look like besides app=c07,p=<n>: 0 nothing more; 1 a quoted value with a
	// blank; 2 non-ASCII key and value; 3 a value of 300 bytes; 4 a quoted value with = , { } and a backslash
	TagStyle int `json:"tagstyle,omitempty"`
	// Chunk: MaxChunkSize of the server in bytes (0: the default, one chunk per partition)
	Chunk int `json:"chunk,omitempty"`
}

type Obs struct {
	Blind   bool // started, not observed
	Started bool
	Err     string
	Parts   []PartView // by partition number
	Count   int
	Pipes   []string
	Ranges  [][]int64
	Bad     []string // events read whose message or fields are not what was written
}

const fwdPipe = "pf"

// fwdName: the name of the scenario's forwarding pipe: "pf", or "s" - the name whose progress file pipe<name>.dat is
// pipes.dat, the file the pipe definitions used to be kept in
func (sc *Scenario) fwdName() string {
	if sc.Pipe != "" {
		return sc.Pipe
	}
	return fwdPipe
}

// progressFile: pipes/pipe<escaped name>.dat
func progressFile(dir, name string) string {
	return filepath.Join(dir, "pipes", "pipe"+fileutil.EscapeToFileName(name)+".dat")
}

// registryFile: the file of the pipe definitions (registry.dat; pipes.dat for a server that keeps them there)
func registryFile(dir string) string {
	fn := filepath.Join(dir, "pipes", "registry.dat")
	if _, err := os.Stat(fn); err == nil {
		return fn
	}
	return filepath.Join(dir, "pipes", "pipes.dat")
}

// tags of partition i; in a "fwd" scenario the last partition is the destination of the pipe "pf"
func (sc *Scenario) tags(i int) string {
	if sc.Kind == "fwd" && i == sc.NParts-1 {
		return "logrange.pipe=" + strconv.Quote(sc.fwdName())
	}
	t := fmt.Sprintf("app=c07,p=%d", i)
	switch sc.TagStyle {
	case 1:
		t += `,note="two words"`
	case 2:
		t += ",ü=ñ☃"
	case 3:
		t += ",long=" + strings.Repeat("v", 300)
	case 4:
		t += `,q="a=b,c{d}\\e"`
	}
	return t
}

func (sc *Scenario) know() []string {
	k := make([]string, sc.NParts)
	for i := range k {
		k[i] = sc.tags(i)
	}
	return k
}

func observe(c *child, sc *Scenario) (Obs, error) {
	a, err := c.do(Cmd{Op: "observe", Know: sc.know()})
	if err != nil {
		return Obs{}, err
	}
	o := Obs{Started: true, Parts: a.Parts, Count: a.Count, Pipes: a.Pipes, Bad: a.Bad}
	for i := 0; i < sc.NParts; i++ {
		var evs []int64
		if a.Parts[i].Exists {
			r, err := c.do(Cmd{Op: "range", Tags: sc.tags(i), Lo: sc.Range[0], Hi: sc.Range[1]})
			if err != nil {
				return Obs{}, err
			}
			evs = r.Events
			o.Bad = append(o.Bad, r.Bad...)
		}
		o.Ranges = append(o.Ranges, evs)
	}
	return o, nil
}

// rangeComplete: every event of the full read that lies in the probe range is in the RANGE answer, in order
func rangeComplete(sc *Scenario, events, answer []int64) bool {
	var inr []int64
	for _, t := range events {
		if t >= sc.Range[0] && t <= sc.Range[1] {
			inr = append(inr, t)
		}
	}
	return isSubseq(inr, answer)
}

func tornPrefix(data []byte, perMille int) []byte {
	n := len(data) * perMille / 1000
	switch {
	case perMille >= 2000:
		n = len(data) - (perMille - 2000) // so many bytes before the end
	case perMille >= 1000:
		n = perMille - 1000 // so many bytes
	}
	if n >= len(data) {
		n = len(data) - 1
	}
	if n < 0 {
		n = 0
	}
	return data[:n]
}

// applySurgery makes the stopped directory look like a crash at some point of the metadata savers. The crash inside the
// tag-index save is a real one (a start of the server that dies in the saver's write); the others are file edits.
func applySurgery(dir string, s Surgery, saved map[string][]byte, tr *trace) error {
	tdat := filepath.Join(dir, "tindex", "tindex.dat")
	cdat := filepath.Join(dir, "cindex", "cindex.dat")
	tear := func(fn string) error {
		data, err := ioutil.ReadFile(fn)
		if os.IsNotExist(err) {
			return nil
		}
		if err != nil {
			return err
		}
		return ioutil.WriteFile(fn, tornPrefix(data, s.K), 0640)
	}
	switch s.Kind {
	case "tindex-torn":
		// a crash inside the write of the tag-index save that ends every Init: the server is started with a file size
		// limit of K per mille of tindex.dat (the save writes the same index again, so the limit is always reached) and
		// dies inside the saver's write, k bytes written. Which file is torn is the saver's business: tindex.dat itself
		// (a saver that writes in place) or a temporary file (a saver that writes aside and renames).
		data, err := ioutil.ReadFile(tdat)
		if os.IsNotExist(err) {
			return nil
		}
		if err != nil {
			return err
		}
		how, err := crashStart(dir, int64(len(tornPrefix(data, s.K))))
		if err != nil {
			return err
		}
		tr.inject = append(tr.inject, "start:"+how)
		return nil
	case "drop-window":
		// a crash between the two effects of the removal of a partition, in the order the server applies them: the
		// partition's directory is gone, its record is still in the tag index (that the server really removes the directory
		// first is observed at every removal: dropWatch)
		data, err := ioutil.ReadFile(tdat)
		if os.IsNotExist(err) {
			return nil
		}
		if err != nil {
			return err
		}
		var m map[string]struct{ Src string }
		if err := json.Unmarshal(data, &m); err != nil {
			return nil
		}
		var keys []string
		for k := range m {
			keys = append(keys, k)
		}
		sort.Strings(keys)
		for _, k := range keys {
			if bytes.Contains([]byte(k), []byte(fmt.Sprintf("p=%d", s.Part))) && m[k].Src != "" {
				dirs, _ := filepath.Glob(filepath.Join(dir, "db", "*", m[k].Src))
				for _, d := range dirs {
					if err := os.RemoveAll(d); err != nil {
						return err
					}
				}
			}
		}
		return nil
	case "tidx-drop", "tidx-short", "tidx-zero":
		// the memory-mapped tree files of the time index (cindex/*.tidx) missing / cut to half / zeroed while cindex.dat, which
		// refers to them, is intact: kernel write-back after a crash can leave any of it. The model has no tree: nothing
		// observable may change (positions are found by a scan until the index is rebuilt)
		fns, _ := filepath.Glob(filepath.Join(dir, "cindex", "*.tidx"))
		for _, fn := range fns {
			switch s.Kind {
			case "tidx-drop":
				if err := os.Remove(fn); err != nil {
					return err
				}
			case "tidx-short":
				fi, err := os.Stat(fn)
				if err != nil {
					return err
				}
				if err := os.Truncate(fn, fi.Size()/2); err != nil {
					return err
				}
			default:
				fi, err := os.Stat(fn)
				if err != nil {
					return err
				}
				if err := ioutil.WriteFile(fn, make([]byte, fi.Size()), 0640); err != nil {
					return err
				}
			}
		}
		return nil
	case "tindex-damaged": // not crash-shaped: the file cut in place from outside; the loader has to refuse
		return tear(tdat)
	case "pipes-damaged":
		return tear(registryFile(dir))
	case "record-removed": // not crash-shaped: a record taken out of tindex.dat, the partition's data stays: the loader has to refuse
		data, err := ioutil.ReadFile(tdat)
		if err != nil {
			return nil
		}
		var m map[string]json.RawMessage
		if err := json.Unmarshal(data, &m); err != nil {
			return nil
		}
		for k := range m {
			if bytes.Contains([]byte(k), []byte(fmt.Sprintf("p=%d", s.Part))) {
				delete(m, k)
			}
		}
		out, _ := json.Marshal(m)
		return ioutil.WriteFile(tdat, out, 0640)
	case "registry-old-name":
		// the directory as the previous version of the server left it: the pipe definitions in pipes.dat, no registry.dat
		// (not in the model: the definitions are the same object under either name)
		reg := filepath.Join(dir, "pipes", "registry.dat")
		if _, err := os.Stat(reg); err != nil {
			return nil
		}
		return os.Rename(reg, filepath.Join(dir, "pipes", "pipes.dat"))
	case "progress-torn":
		// a crash inside the in-place rewrite of the progress file of the forwarding pipe (pipes/pipe<name>.dat is written
		// by ioutil.WriteFile after every batch): any proper prefix of it, the empty file included
		return tear(progressFile(dir, s.Name))
	case "cindex-drop":
		err := os.Remove(cdat)
		if os.IsNotExist(err) {
			return nil
		}
		return err
	case "cindex-torn":
		return tear(cdat)
	case "cindex-stale": // the snapshot of the previous clean shutdown (as after a crash of the session that just ended)
		old, ok := saved["cindex"]
		if !ok {
			err := os.Remove(cdat)
			if os.IsNotExist(err) {
				return nil
			}
			return err
		}
		return ioutil.WriteFile(cdat, old, 0640)
	}
	return fmt.Errorf("unknown surgery %q", s.Kind)
}

type trace struct {
	pre     []Obs    // one per session: what the server showed just before the session ended
	obs     []Obs    // one per start
	errs    []string // harness-level notes
	cut     int      // > 0: the (single) session was ended by SIGKILL after so many steps (burst scenarios)
	stepErr string   // a plain request (write, flush, pipe create / delete) the server refused: the scenario ended there
	drops   []string // per partition removal: which of its two file-system effects came first ("data-first", "record-first", "unseen")
	inject  []string // how every injected crash ended ("start:died:file size limit exceeded", ...)
	cdatOld bool
}

// runScenario executes the scenario on a fresh directory
func runScenario(sc *Scenario) (*trace, error) {
	dir := TempDir("c07")
	defer RemoveAll(dir)
	tr := &trace{}
	saved := map[string][]byte{}
	gaveUp, rangeGaveUp := false, false
	burstPipes := map[string]bool{}
	ghosts := 0
	skipped, pendingAtTear, lastRound, positionLost := 0, 0, 0, false // the forwarding pipe: see the "round" step
	start := func(blind, hold bool) (*child, error) {
		var c *child
		var started bool
		var msg string
		var err error
		if sc.Kind == "real" {
			c, started, msg, err = startRealChild(dir)
		} else if sc.Ensure {
			c, started, msg, err = startEnsureChild(dir, 600000, sc.fwdName())
		} else if sc.Chunk > 0 {
			c, started, msg, err = startChildMode("serve", dir, 600000, -1, fmt.Sprintf("chunk:%d", sc.Chunk))
		} else {
			c, started, msg, err = startChild(dir, 600000)
		}
		if err != nil {
			return nil, err
		}
		if !started {
			tr.obs = append(tr.obs, Obs{Started: false, Err: msg})
			return nil, nil
		}
		if blind {
			tr.obs = append(tr.obs, Obs{Started: true, Blind: true})
			if hold {
				if _, err := c.do(Cmd{Op: "hold"}); err != nil {
					c.kill()
					return nil, err
				}
			}
			return c, nil
		}
		o, err := observe(c, sc)
		if err != nil {
			c.kill()
			return nil, err
		}
		if sc.Ensure && len(tr.obs) == 0 {
			// the configured pipe is created by the first Init; the model creates it as the first step of the first session:
			// it is taken out of the very first observation (every later start has to show it)
			var ps []string
			for _, n := range o.Pipes {
				if n != sc.fwdName() {
					ps = append(ps, n)
				}
			}
			if len(ps) == len(o.Pipes) {
				tr.errs = append(tr.errs, "configured-pipe-missing-at-first-start")
			}
			o.Pipes = ps
		}
		tr.obs = append(tr.obs, o)
		return c, nil
	}
	for si, ss := range sc.Sessions {
		c, err := start(ss.Blind, ss.Blind && ss.Hold)
		if err != nil {
			return nil, err
		}
		if c == nil {
			return tr, nil // the server refuses to start: the scenario ends here
		}
		for ti, st := range ss.Steps {
			var cmd Cmd
			switch st.Op {
			case "write":
				cmd = Cmd{Op: "write", Tags: sc.tags(st.Part), Ts: st.Ts}
			case "sync":
				cmd = Cmd{Op: "sync"}
			case "pipe":
				cmd = Cmd{Op: "pipe", Name: st.Name}
			case "delpipe":
				cmd = Cmd{Op: "delpipe", Name: st.Name}
			case "failcreate":
				// a write to tags nobody has seen while the tag index can not be saved (the file size limit lies inside the
				// record the index grows by): the write has to fail, the partition must not exist
				size := 0
				if data, err := ioutil.ReadFile(filepath.Join(dir, "tindex", "tindex.dat")); err == nil {
					size = len(data)
				}
				soft := int64(size + 10)
				ghosts++
				cmd = Cmd{Op: "write", Tags: fmt.Sprintf("app=c07,ghost=f%d", ghosts), Ts: []int64{1}, Soft: &soft}
			case "burst":
				cmd = Cmd{Op: "burst", Create: st.Create, Delete: st.Delete}
			case "drop":
				cmd = Cmd{Op: "drop", Tags: sc.tags(st.Part)}
			case "fwdpipe":
				cmd = Cmd{Op: "pipe", Name: sc.fwdName(), Cond: "app=c07 AND p=0"}
			case "round":
				cmd = Cmd{Op: "round", Name: sc.fwdName(), Tags: sc.tags(0), Ts: st.Ts, Dest: sc.tags(sc.NParts - 1), Skip: skipped}
				if positionLost {
					// the pipe has no position: it takes the start of this write, i.e. it passes over what the last round
					// of the session before the crash left unforwarded
					skipped += pendingAtTear
					cmd.Skip = skipped
					positionLost = false
				}
				lastRound = len(st.Ts)
				if gaveUp {
					cmd.N = 2000 // a pipe that did not catch up once is not waited for at length again
				}
			default:
				c.kill()
				return nil, fmt.Errorf("unknown step %q", st.Op)
			}
			var dw *dropWatch
			if st.Op == "drop" {
				if dw, err = newDropWatch(dir); err != nil {
					c.kill()
					return nil, fmt.Errorf("session %d: inotify: %v", si, err)
				}
			}
			a, err := c.do(cmd)
			if dw != nil {
				tr.drops = append(tr.drops, dw.order())
			}
			if err != nil && (st.Op == "write" || st.Op == "sync" || st.Op == "pipe" || st.Op == "delpipe") && !strings.Contains(err.Error(), "no answer from the server process") {
				// the server refuses a plain request: a verdict of the oracle (the scenario ends here), not a failure of the harness
				c.kill()
				tr.stepErr = fmt.Sprintf("session %d, step %q: %v", si, st.Op, err)
				return tr, nil
			}
			if err != nil {
				c.kill()
				return nil, fmt.Errorf("session %d: %v", si, err)
			}
			if st.Op == "burst" {
				for _, n := range st.Create {
					burstPipes[n] = true
				}
				for _, n := range st.Delete {
					delete(burstPipes, n)
				}
				var want []string
				for n := range burstPipes {
					want = append(want, n)
				}
				sort.Strings(want)
				if fmt.Sprint(want) != fmt.Sprint(a.Pipes) {
					// the file is behind what was acknowledged: the crash comes now (the rest of the session is not run), the
					// start that follows shows it
					tr.cut = ti + 1
					tr.inject = append(tr.inject, "burst:file-behind")
					break
				}
			}
			if st.Op == "failcreate" && (a.Short || a.Count > 0) {
				tr.errs = append(tr.errs, "index-save-failed-write-acknowledged")
			}
			if st.Op == "round" {
				switch {
				case a.Short:
					gaveUp = true
					tr.inject = append(tr.inject, "round:gave-up")
				case a.Count > 5000:
					tr.inject = append(tr.inject, "round:took-more-than-5s")
				}
			}
		}
		pre, err := observe(c, sc)
		if err != nil {
			c.kill()
			return nil, err
		}
		// a time index that was found inconsistent by a write is rebuilt in the background: a RANGE answer that misses
		// events of the full read is asked again until it is complete (generous deadline) - unless this start already
		// showed the same partition short (a stale snapshot: the answer stays as it is)
		startObs := tr.obs[len(tr.obs)-1]
		for p := 0; p < sc.NParts; p++ {
			if !pre.Parts[p].Exists || rangeComplete(sc, pre.Parts[p].Events, pre.Ranges[p]) {
				continue
			}
			if !startObs.Blind && p < len(startObs.Parts) && startObs.Parts[p].Exists && !rangeComplete(sc, startObs.Parts[p].Events, startObs.Ranges[p]) {
				continue
			}
			patience := 10 * time.Second
			if rangeGaveUp {
				patience = time.Second // an answer that stayed short once in this scenario is not waited for at length again
			}
			rangeGaveUp = !WaitFor(patience, func() bool {
				r, err := c.do(Cmd{Op: "range", Tags: sc.tags(p), Lo: sc.Range[0], Hi: sc.Range[1]})
				if err != nil {
					return true
				}
				pre.Ranges[p] = r.Events
				if rangeComplete(sc, pre.Parts[p].Events, r.Events) {
					return true
				}
				time.Sleep(20 * time.Millisecond)
				return false
			})
		}
		tr.pre = append(tr.pre, pre)
		// the snapshot a crash of THIS session would leave behind is the one written by the previous clean stop
		if data, err := ioutil.ReadFile(filepath.Join(dir, "cindex", "cindex.dat")); err == nil {
			saved["cindex"] = data
		} else {
			delete(saved, "cindex")
		}
		switch ss.End {
		case "kill":
			c.kill()
		case "crash-stop":
			// pipes.dat holds the list the shutdown is about to write again (the definitions are saved when they change);
			// a directory that never had a pipe gets "[]"
			size := 2
			if data, err := ioutil.ReadFile(registryFile(dir)); err == nil && len(data) > 0 {
				size = len(data)
			}
			how, err := c.crashStop(int64(len(tornPrefix(make([]byte, size), ss.EndK))))
			if err != nil {
				return nil, err
			}
			tr.inject = append(tr.inject, "stop:"+how)
		case "crash-create":
			// the tag index is about to grow by the record of a partition nobody has seen (its tags are not among the
			// scenario's): the limit lies EndK bytes above the present length, inside the new record
			size := 0
			if data, err := ioutil.ReadFile(filepath.Join(dir, "tindex", "tindex.dat")); err == nil {
				size = len(data)
			}
			how, err := c.crashCreate(fmt.Sprintf("app=c07,ghost=%d", si), int64(size+ss.EndK))
			if err != nil {
				return nil, err
			}
			tr.inject = append(tr.inject, "create:"+how)
		default:
			if err := c.stop(); err != nil {
				return nil, err
			}
		}
		for _, sg := range ss.Surgery {
			if sg.Kind == "progress-torn" {
				if _, err := os.Stat(progressFile(dir, sc.fwdName())); err == nil {
					positionLost, pendingAtTear = true, lastRound
				}
			}
			if err := applySurgery(dir, sg, saved, tr); err != nil {
				return nil, fmt.Errorf("surgery %s: %v", sg.Kind, err)
			}
		}
	}
	c, err := start(false, false)
	if err != nil {
		return nil, err
	}
	if c != nil {
		if err := c.stop(); err != nil {
			return nil, err
		}
	}
	return tr, nil
}
