package main

import (
	"bytes"
	"encoding/json"
	"fmt"
	"io/ioutil"
	"os"
	"path/filepath"
	"sort"

	. "verifharness/common"
)

// A scenario is a list of sessions of one server directory. A session: the server is started, the steps are
// executed, the session ends gracefully ("stop": context cancelled, every Shutdown runs, the process exits) or by
// SIGKILL ("kill"); afterwards the listed file surgery is applied to the stopped directory. After the last session
// the server is started once more. Every start is followed by an observation (or "refused to start").
type Step struct {
	Op   string  `json:"op"` // write | sync | pipe | delpipe
	Part int     `json:"part,omitempty"`
	Ts   []int64 `json:"ts,omitempty"`
	Name string  `json:"name,omitempty"`
}

type Surgery struct {
	Kind string `json:"kind"`        // tindex-renamed | tindex-torn | tindex-orphan | cindex-drop | cindex-stale | cindex-torn | pipes-torn | pipes-drop | bak-drop
	K    int    `json:"k,omitempty"` // torn: keep K per mille of the file (always a proper prefix)
	Part int    `json:"part,omitempty"`
}

type Session struct {
	Steps   []Step    `json:"steps"`
	End     string    `json:"end"` // stop | kill
	Surgery []Surgery `json:"surgery,omitempty"`
}

type Scenario struct {
	Kind     string    `json:"kind"`
	NParts   int       `json:"nparts"`
	Sessions []Session `json:"sessions"`
	Range    [2]int64  `json:"range"` // the time-range probe asked of every partition after every start
}

type Obs struct {
	Started bool
	Err     string
	Parts   []PartView // by partition number
	Count   int
	Pipes   []string
	Ranges  [][]int64
}

func partTags(i int) string { return fmt.Sprintf("app=c07,p=%d", i) }

func (sc *Scenario) know() []string {
	k := make([]string, sc.NParts)
	for i := range k {
		k[i] = partTags(i)
	}
	return k
}

func observe(c *child, sc *Scenario) (Obs, error) {
	a, err := c.do(Cmd{Op: "observe", Know: sc.know()})
	if err != nil {
		return Obs{}, err
	}
	o := Obs{Started: true, Parts: a.Parts, Count: a.Count, Pipes: a.Pipes}
	for i := 0; i < sc.NParts; i++ {
		var evs []int64
		if a.Parts[i].Exists {
			r, err := c.do(Cmd{Op: "range", Tags: partTags(i), Lo: sc.Range[0], Hi: sc.Range[1]})
			if err != nil {
				return Obs{}, err
			}
			evs = r.Events
		}
		o.Ranges = append(o.Ranges, evs)
	}
	return o, nil
}

func tornPrefix(data []byte, perMille int) []byte {
	n := len(data) * perMille / 1000
	if n >= len(data) {
		n = len(data) - 1
	}
	if n < 0 {
		n = 0
	}
	return data[:n]
}

// fixedSavers: the savers write <file>.tmp and rename it over <file> (proposed_fixes/C07-*): their crash-shaped
// states are a torn .tmp next to an intact file. Set VERIF_C07_FIXED=1 (and code_fix in model/Persist.v) once applied.
var fixedSavers = os.Getenv("VERIF_C07_FIXED") != ""

// applySurgery makes the stopped directory look like a crash inside one of the metadata savers
func applySurgery(dir string, s Surgery, saved map[string][]byte) error {
	if fixedSavers {
		switch s.Kind {
		case "tindex-renamed", "pipes-drop":
			return nil
		case "tindex-torn", "pipes-torn":
			fn := filepath.Join(dir, "tindex", "tindex.dat")
			if s.Kind == "pipes-torn" {
				fn = filepath.Join(dir, "pipes", "pipes.dat")
			}
			data, err := ioutil.ReadFile(fn)
			if err != nil {
				return nil
			}
			return ioutil.WriteFile(fn+".tmp", tornPrefix(data, s.K), 0640)
		}
	}
	tdat := filepath.Join(dir, "tindex", "tindex.dat")
	tbak := filepath.Join(dir, "tindex", "tindex.bak")
	cdat := filepath.Join(dir, "cindex", "cindex.dat")
	pdat := filepath.Join(dir, "pipes", "pipes.dat")
	tear := func(fn string) error {
		data, err := ioutil.ReadFile(fn)
		if os.IsNotExist(err) {
			return nil
		}
		if err != nil {
			return err
		}
		return ioutil.WriteFile(fn, tornPrefix(data, s.K), 0640)
	}
	switch s.Kind {
	case "tindex-renamed": // crash between Rename(dat -> bak) and WriteFile(dat)
		if _, err := os.Stat(tdat); os.IsNotExist(err) {
			return nil
		}
		return os.Rename(tdat, tbak)
	case "tindex-torn": // crash inside WriteFile(dat): the previous content went to .bak first
		data, err := ioutil.ReadFile(tdat)
		if os.IsNotExist(err) {
			return nil
		}
		if err != nil {
			return err
		}
		if err := ioutil.WriteFile(tbak, data, 0640); err != nil {
			return err
		}
		return ioutil.WriteFile(tdat, tornPrefix(data, s.K), 0640)
	case "tindex-orphan": // crash between TIndex.Delete (index saved without the partition) and the removal of its directory
		data, err := ioutil.ReadFile(tdat)
		if os.IsNotExist(err) {
			return nil
		}
		if err != nil {
			return err
		}
		var m map[string]json.RawMessage
		if err := json.Unmarshal(data, &m); err != nil {
			return nil // already torn: nothing to take a record out of
		}
		var keys []string
		for k := range m {
			keys = append(keys, k)
		}
		sort.Strings(keys)
		found := false
		for _, k := range keys {
			if bytes.Contains([]byte(k), []byte(fmt.Sprintf("p=%d", s.Part))) {
				delete(m, k)
				found = true
			}
		}
		if !found {
			return nil
		}
		out, _ := json.Marshal(m)
		return ioutil.WriteFile(tdat, out, 0640)
	case "cindex-drop":
		err := os.Remove(cdat)
		if os.IsNotExist(err) {
			return nil
		}
		return err
	case "cindex-torn":
		return tear(cdat)
	case "cindex-stale": // the snapshot of the previous clean shutdown (as after a crash of the session that just ended)
		old, ok := saved["cindex"]
		if !ok {
			err := os.Remove(cdat)
			if os.IsNotExist(err) {
				return nil
			}
			return err
		}
		return ioutil.WriteFile(cdat, old, 0640)
	case "pipes-torn":
		return tear(pdat)
	case "pipes-drop":
		err := os.Remove(pdat)
		if os.IsNotExist(err) {
			return nil
		}
		return err
	}
	return fmt.Errorf("unknown surgery %q", s.Kind)
}

type trace struct {
	pre     []Obs    // one per session: what the server showed just before the session ended
	obs     []Obs    // one per start
	errs    []string // harness-level notes
	cdatOld bool
}

// runScenario executes the scenario on a fresh directory
func runScenario(sc *Scenario) (*trace, error) {
	dir := TempDir("c07")
	defer RemoveAll(dir)
	tr := &trace{}
	saved := map[string][]byte{}
	start := func() (*child, error) {
		c, started, msg, err := startChild(dir, 600000)
		if err != nil {
			return nil, err
		}
		if !started {
			tr.obs = append(tr.obs, Obs{Started: false, Err: msg})
			return nil, nil
		}
		o, err := observe(c, sc)
		if err != nil {
			c.kill()
			return nil, err
		}
		tr.obs = append(tr.obs, o)
		return c, nil
	}
	for si, ss := range sc.Sessions {
		c, err := start()
		if err != nil {
			return nil, err
		}
		if c == nil {
			return tr, nil // the server refuses to start: the scenario ends here
		}
		for _, st := range ss.Steps {
			var cmd Cmd
			switch st.Op {
			case "write":
				cmd = Cmd{Op: "write", Tags: partTags(st.Part), Ts: st.Ts}
			case "sync":
				cmd = Cmd{Op: "sync"}
			case "pipe":
				cmd = Cmd{Op: "pipe", Name: st.Name}
			case "delpipe":
				cmd = Cmd{Op: "delpipe", Name: st.Name}
			default:
				c.kill()
				return nil, fmt.Errorf("unknown step %q", st.Op)
			}
			if _, err := c.do(cmd); err != nil {
				c.kill()
				return nil, fmt.Errorf("session %d: %v", si, err)
			}
		}
		pre, err := observe(c, sc)
		if err != nil {
			c.kill()
			return nil, err
		}
		tr.pre = append(tr.pre, pre)
		// the snapshot a crash of THIS session would leave behind is the one written by the previous clean stop
		if data, err := ioutil.ReadFile(filepath.Join(dir, "cindex", "cindex.dat")); err == nil {
			saved["cindex"] = data
		} else {
			delete(saved, "cindex")
		}
		if ss.End == "kill" {
			c.kill()
		} else if err := c.stop(); err != nil {
			return nil, err
		}
		for _, sg := range ss.Surgery {
			if err := applySurgery(dir, sg, saved); err != nil {
				return nil, fmt.Errorf("surgery %s: %v", sg.Kind, err)
			}
		}
	}
	c, err := start()
	if err != nil {
		return nil, err
	}
	if c != nil {
		if err := c.stop(); err != nil {
			return nil, err
		}
	}
	return tr, nil
}
