// Input classes at the edges of the wait mechanism (generator audit): WaitTimeout at and beyond its limits, a request
// cancelled while it waits, several readers waiting on the same partition, an event that opens a new chunk during the wait.
package main

import (
	"context"
	"fmt"
	"strconv"
	"strings"
	"sync/atomic"
	"time"

	"github.com/logrange/logrange/api"
	"github.com/logrange/logrange/api/rpc"
	"github.com/logrange/range/pkg/transport"
	. "verifharness/common"
)

type EdgeCase struct {
	What    string `json:"what"`    // timeout | cancel | multi | rollover
	Via     string `json:"via"`     // "" backend | rpc
	Timeout int    `json:"timeout"` // timeout: the WaitTimeout of the request
	Parts   int    `json:"parts"`   // cancel: partitions under the reader
	Readers int    `json:"readers"` // multi: readers waiting on the one partition
}

func edgeQuerier(srv *Server, via string) (api.Querier, func(), error) {
	if via != "rpc" {
		return backendQ{srv}, func() {}, nil
	}
	cl, err := rpc.NewClient(transport.Config{ListenAddr: srv.Addr})
	if err != nil {
		return nil, nil, err
	}
	return cl, func() { go cl.Close() }, nil
}

// prepare: parts partitions with one event each, read to the end: the continuation request of a reader standing at the end
func prepare(srv *Server, id string, parts int) ([]string, api.QueryRequest, error) {
	srcs := make([]string, parts)
	for k := 0; k < parts; k++ {
		tags := fmt.Sprintf("edge=%s,part=p%d", id, k)
		if err := writeN(srv, tags, 0, 1); err != nil {
			return nil, api.QueryRequest{}, err
		}
		s, err := srcId(srv, tags)
		if err != nil {
			return nil, api.QueryRequest{}, err
		}
		srcs[k] = s
		syncSrc(srv, s)
	}
	r0, err := srv.Querier.Query(context.Background(), &api.QueryRequest{Query: "SELECT FROM edge=" + id, Limit: 1000})
	if err != nil && (r0 == nil) {
		return nil, api.QueryRequest{}, err
	}
	if len(r0.Events) != parts {
		return nil, api.QueryRequest{}, fmt.Errorf("edge case: read %d events of %d", len(r0.Events), parts)
	}
	return srcs, r0.NextQueryRequest, nil
}

func armGates(srcs []string) []*gate {
	gs := make([]*gate, len(srcs))
	gMu.Lock()
	for k, s := range srcs {
		gs[k] = &gate{arrived: make(chan struct{}, 8), release: make(chan struct{})}
		gates[s] = gs[k]
	}
	gMu.Unlock()
	return gs
}

func dropGates(srcs []string) {
	gMu.Lock()
	for _, s := range srcs {
		delete(gates, s)
	}
	gMu.Unlock()
}

func runEdge(srv *Server, ec EdgeCase) ([]Case, error) {
	if atomic.LoadInt32(&spins) >= 2 {
		return nil, nil
	}
	id := nextId("x")
	rep := map[string]interface{}{"kind": "edge", "edge": ec}
	mk := func(coq string, v *Violation, key string) Case {
		return Case{Coq: coq, Replay: rep, NonTrivial: true, Oracle: v, Stream: "edge-" + ec.What, Key: "edge/" + id + "/" + key,
			Tags: []string{"edge:" + ec.What, "edge-via:" + map[string]string{"": "backend", "rpc": "rpc"}[ec.Via]}}
	}
	in, done, err := edgeQuerier(srv, ec.Via)
	if err != nil {
		return nil, err
	}
	defer done()
	switch ec.What {
	case "timeout":
		// WaitTimeout must lie in [0 .. QueryMaxWaitTimeout]: 60 is served (the reader is woken by a write), 61 and -1 are refused
		srcs, next, err := prepare(srv, id, 1)
		if err != nil {
			return nil, err
		}
		next.WaitTimeout = ec.Timeout
		next.Limit = 10
		gs := armGates(srcs)
		defer dropGates(srcs)
		ch, cancel := queryVia(in, &next)
		defer cancel()
		accepted := false
		var r qres
		select {
		case <-gs[0].arrived: // the request waits: it was accepted
			accepted = true
			writeEv(srv, fmt.Sprintf("edge=%s,part=p0", id), 2, "1")
			syncSrc(srv, srcs[0])
			select {
			case r = <-ch:
			case <-time.After(deadline):
				atomic.AddInt32(&spins, 1)
				return []Case{mk(GApp("KTimeout", GZ(int64(ec.Timeout)), "true", "false"),
					&Violation{Class: "reader-not-woken", Detail: fmt.Sprintf("WaitTimeout %d: the event written during the wait was not returned within %v", ec.Timeout, deadline)}, "t")}, nil
			}
		case r = <-ch:
		case <-time.After(deadline):
			return nil, fmt.Errorf("edge timeout %d: the request neither waited nor returned", ec.Timeout)
		}
		woken := r.err == nil && r.res != nil && len(r.res.Events) == 1
		var v *Violation
		legal := ec.Timeout >= 0 && ec.Timeout <= 60
		switch {
		case legal && ec.Timeout > 0 && !woken:
			v = &Violation{Class: "reader-not-woken", Detail: fmt.Sprintf("WaitTimeout %d (within the limits) via %q: accepted=%v err=%v", ec.Timeout, ec.Via, accepted, r.err)}
		case ec.Timeout == 0 && (r.err != nil || accepted):
			v = &Violation{Class: "wait-timeout-zero-not-served", Detail: fmt.Sprintf("WaitTimeout 0 (a request that does not wait) via %q at the end of the data: waited=%v err=%v; expected the empty answer at once", ec.Via, accepted, r.err)}
		case !legal && (accepted || r.err == nil):
			v = &Violation{Class: "wait-timeout-out-of-range-accepted", Detail: fmt.Sprintf("WaitTimeout %d (allowed: 0..60) via %q: the request was served (waited=%v, err=%v)", ec.Timeout, ec.Via, accepted, r.err)}
		}
		return []Case{mk(GApp("KTimeout", GZ(int64(ec.Timeout)), GBool(accepted), GBool(woken)), v, "t")}, nil

	case "cancel":
		// the request is cancelled while its waiters sleep: it must come back, and a later request from the same
		// continuation must deliver what is written afterwards (nothing is left registered, nothing is lost)
		srcs, next, err := prepare(srv, id, ec.Parts)
		if err != nil {
			return nil, err
		}
		next.WaitTimeout = waitTimeoutS
		next.Limit = 10
		gs := armGates(srcs)
		defer dropGates(srcs)
		ch, cancel := queryVia(in, &next)
		for k := range gs {
			select {
			case <-gs[k].arrived:
			case <-time.After(deadline):
				cancel()
				return nil, fmt.Errorf("edge cancel: the waiter of partition %d did not start", k)
			}
		}
		time.Sleep(20 * time.Millisecond) // let them register (no observable)
		t0 := time.Now()
		cancel()
		var r qres
		select {
		case r = <-ch:
		case <-time.After(deadline):
			atomic.AddInt32(&spins, 1)
			return []Case{mk(GApp("KCancel", "false", GNat(0)), &Violation{Class: "reader-cancelled-does-not-return", Detail: fmt.Sprintf("a waiting request over %d partition(s) via %q did not return within %v after its context was cancelled", ec.Parts, ec.Via, deadline)}, "c")}, nil
		}
		took := time.Since(t0)
		if r.err == nil && r.res != nil && len(r.res.Events) > 0 {
			return []Case{mk(GApp("KCancel", "true", GNat(len(r.res.Events))), &Violation{Class: "reader-returned-unwritten", Detail: fmt.Sprintf("the cancelled request returned %d events, nothing was written", len(r.res.Events))}, "c")}, nil
		}
		// the continuation: the answer's, if there is one (backend), else the request itself again
		cont := next
		if r.err == nil && r.res != nil && r.res.NextQueryRequest.Query != "" {
			cont = r.res.NextQueryRequest
		}
		cont.WaitTimeout = 1
		target := ec.Parts - 1
		writeEv(srv, fmt.Sprintf("edge=%s,part=p%d", id, target), 2, "1")
		syncSrc(srv, srcs[target])
		in2, done2, err := edgeQuerier(srv, ec.Via)
		if err != nil {
			return nil, err
		}
		defer done2()
		ch2, cancel2 := queryVia(in2, &cont)
		defer cancel2()
		var r2 qres
		select {
		case r2 = <-ch2:
		case <-time.After(deadline):
			atomic.AddInt32(&spins, 1)
			return []Case{mk(GApp("KCancel", "true", GNat(0)), &Violation{Class: "reader-after-cancel-stuck", Detail: fmt.Sprintf("after a cancelled wait over %d partition(s) the next request did not return within %v", ec.Parts, deadline)}, "c")}, nil
		}
		nev := 0
		if r2.err == nil && r2.res != nil {
			nev = len(r2.res.Events)
		}
		var v *Violation
		if nev != 1 || r2.res.Events[0].Message != "1" {
			v = &Violation{Class: "reader-after-cancel-loses-event", Detail: fmt.Sprintf("after a cancelled wait over %d partition(s) (the cancelled request returned after %v, err %v) the event written next was not delivered by the following request: %d events, err %v", ec.Parts, took, r.err, nev, r2.err)}
		}
		return []Case{mk(GApp("KCancel", "true", GNat(nev)), v, "c")}, nil

	case "multi":
		// several readers (each with its own cursor) wait at the end of the same partition: one write wakes them all
		srcs, _, err := prepare(srv, id, 1)
		if err != nil {
			return nil, err
		}
		nexts := make([]api.QueryRequest, ec.Readers)
		for i := range nexts {
			r0, err := srv.Querier.Query(context.Background(), &api.QueryRequest{Query: "SELECT FROM edge=" + id, Limit: 1000})
			if err != nil && r0 == nil {
				return nil, err
			}
			nexts[i] = r0.NextQueryRequest
			nexts[i].WaitTimeout = waitTimeoutS
			nexts[i].Limit = 10
		}
		gs := armGates(srcs)
		defer dropGates(srcs)
		chs := make([]chan qres, ec.Readers)
		for i := range chs {
			// every reader is a client of its own (its own connection when the requests go through rpc)
			ini, donei, err := edgeQuerier(srv, ec.Via)
			if err != nil {
				return nil, err
			}
			defer donei()
			var cancel context.CancelFunc
			chs[i], cancel = queryVia(ini, &nexts[i])
			defer cancel()
		}
		for i := 0; i < ec.Readers; i++ {
			select {
			case <-gs[0].arrived:
			case <-time.After(deadline):
				return nil, fmt.Errorf("edge multi: only %d of %d waiters started", i, ec.Readers)
			}
		}
		time.Sleep(20 * time.Millisecond)
		writeEv(srv, fmt.Sprintf("edge=%s,part=p0", id), 2, "1")
		syncSrc(srv, srcs[0])
		var out []Case
		tmo := time.After(deadline)
		for i := range chs {
			var v *Violation
			woken := false
			select {
			case r := <-chs[i]:
				woken = r.err == nil && r.res != nil && len(r.res.Events) == 1 && r.res.Events[0].Message == "1"
				if !woken {
					n, first := 0, ""
					if r.res != nil {
						n = len(r.res.Events)
						if n > 0 {
							first = r.res.Events[0].Message
						}
					}
					v = &Violation{Class: "reader-not-woken", Detail: fmt.Sprintf("%d readers wait on one partition: reader %d did not get the event (err %v, %d events, first %q, after %v)", ec.Readers, i, r.err, n, first, r.dur)}
				}
			case <-tmo:
				atomic.AddInt32(&spins, 1)
				v = &Violation{Class: "reader-not-woken", Detail: fmt.Sprintf("%d readers wait on one partition: reader %d did not return within %v", ec.Readers, i, deadline)}
			}
			out = append(out, mk(GApp("KWait", GNat(1), "WsSleeping", GBool(woken), GNat(map[bool]int{true: 1, false: 0}[woken])), v, "m"+strconv.Itoa(i)))
		}
		return out, nil
	}
	return nil, fmt.Errorf("unknown edge case %q", ec.What)
}

// runRollover: the event written during the wait does not fit into the reader's chunk: it opens a new chunk. A server of its
// own with a small MaxChunkSize.
func runRollover(ec EdgeCase) ([]Case, error) {
	srv, err := StartServer(ServerOpts{NoRPC: true, WriteFlushMs: longFlushMs, MaxChunkSize: 3000, MaxRecordSize: 8000})
	if err != nil {
		return nil, err
	}
	defer srv.Stop()
	id := nextId("o")
	tags := "roll=" + id
	if err := writeEv(srv, tags, 1, "0"); err != nil {
		return nil, err
	}
	if err := writeEv(srv, tags, 2, "big"+strings.Repeat("x", 3100)); err != nil { // beyond MaxChunkSize: the chunk is full
		return nil, err
	}
	src, err := srcId(srv, tags)
	if err != nil {
		return nil, err
	}
	syncSrc(srv, src)
	r0, err := srv.Querier.Query(context.Background(), &api.QueryRequest{Query: "SELECT FROM roll=" + id, Limit: 1000})
	if err != nil && r0 == nil {
		return nil, err
	}
	if len(r0.Events) != 2 {
		return nil, fmt.Errorf("rollover: read %d events of 2", len(r0.Events))
	}
	next := r0.NextQueryRequest
	next.WaitTimeout = waitTimeoutS
	next.Limit = 10
	gs := armGates([]string{src})
	defer dropGates([]string{src})
	ch, cancel := queryVia(backendQ{srv}, &next)
	defer cancel()
	select {
	case <-gs[0].arrived:
	case <-time.After(deadline):
		return nil, fmt.Errorf("rollover: the waiter did not start")
	}
	time.Sleep(20 * time.Millisecond)
	writeEv(srv, tags, 3, "2")
	syncSrc(srv, src)
	j, err := jrnl(srv, src)
	if err != nil {
		return nil, err
	}
	cks, _ := j.Chunks().Chunks(context.Background())
	rep := map[string]interface{}{"kind": "edge", "edge": ec}
	cs := Case{Replay: rep, NonTrivial: len(cks) >= 2, Stream: "edge-rollover", Key: "edge/" + id, Tags: []string{"edge:rollover", fmt.Sprintf("rollover-chunks:%d", len(cks))}}
	woken := false
	select {
	case r := <-ch:
		woken = r.err == nil && r.res != nil && len(r.res.Events) == 1 && r.res.Events[0].Message == "2"
		if !woken {
			n := 0
			if r.res != nil {
				n = len(r.res.Events)
			}
			cs.Oracle = &Violation{Class: "reader-not-woken", Detail: fmt.Sprintf("the event written during the wait opened a new chunk (%d chunks): the request returned %d events (err %v) after %v", len(cks), n, r.err, r.dur)}
		}
	case <-time.After(deadline + waitTimeoutS*time.Second):
		cs.Oracle = &Violation{Class: "reader-not-woken", Detail: fmt.Sprintf("the event written during the wait opened a new chunk (%d chunks): the request did not return", len(cks))}
	}
	cs.Coq = GApp("KWait", GNat(2), "WsSleeping", GBool(woken), GNat(map[bool]int{true: 1, false: 0}[woken]))
	return []Case{cs}, nil
}
