// select: the real client's stream reader (api.Select in stream mode) against the in-process server through the rpc
// client. The stream starts at position "tail" of a partition with n records. The schedule is a list of rounds
// (before, during): `before` records are appended and made readable in the gap before the round's request is sent,
// `during` records while the request waits (after its waiter goroutine exists). A round with nothing to read ends with
// the empty answer of a timed-out wait (WaitTimeout 1 s). Oracle: the handler received every record appended after
// the first request was resolved, each once, in order.
package main

import (
	"context"
	"fmt"
	"strconv"
	"sync"
	"time"

	"github.com/logrange/logrange/api"
	"github.com/logrange/logrange/api/rpc"
	"github.com/logrange/range/pkg/transport"
	. "verifharness/common"
)

type SelectCase struct {
	N0     int      `json:"n0"`
	Rounds [][2]int `json:"rounds"` // (before, during)
	Limit  int      `json:"limit"`  // batch size of the stream (0: 100; never below what a round appends: the model has no batch limit)
}

var (
	rpcMu  sync.Mutex
	rpcCli *rpc.Client
)

func rpcClient(srv *Server) (*rpc.Client, error) {
	rpcMu.Lock()
	defer rpcMu.Unlock()
	if rpcCli != nil {
		return rpcCli, nil
	}
	cl, err := rpc.NewClient(transport.Config{ListenAddr: srv.Addr})
	if err != nil {
		return nil, err
	}
	rpcCli = cl
	return cl, nil
}

// gapQuerier forwards the stream's requests to the real client and plays the schedule around them
type gapQuerier struct {
	in      api.Querier
	srv     *Server
	tags    string
	src     string
	rounds  [][2]int
	k       int
	total   int
	err     error
	cancel  context.CancelFunc
	queries []string
}

func (g *gapQuerier) Query(ctx context.Context, req *api.QueryRequest, res *api.QueryResult) error {
	if g.k >= len(g.rounds) {
		g.cancel()
		return ctx.Err()
	}
	b, d := g.rounds[g.k][0], g.rounds[g.k][1]
	g.k++
	g.queries = append(g.queries, fmt.Sprintf("{id %d pos %q}", req.ReqId, req.Pos))
	if b > 0 {
		if err := writeN(g.srv, g.tags, g.total, b); err != nil {
			g.err = err
			return err
		}
		g.total += b
		syncSrc(g.srv, g.src)
	}
	var wg sync.WaitGroup
	if d > 0 {
		gt := &gate{arrived: make(chan struct{}, 1), release: make(chan struct{})}
		gMu.Lock()
		gates[g.src] = gt
		gMu.Unlock()
		wg.Add(1)
		go func() {
			defer wg.Done()
			select {
			case <-gt.arrived: // the waiter goroutine of this request exists
			case <-time.After(deadline):
				g.err = fmt.Errorf("select case: the request of round %d did not start a wait", g.k)
				return
			}
			if err := writeN(g.srv, g.tags, g.total, d); err != nil {
				g.err = err
				return
			}
			g.total += d
			syncSrc(g.srv, g.src)
		}()
	}
	err := g.in.Query(ctx, req, res)
	wg.Wait()
	gMu.Lock()
	delete(gates, g.src)
	gMu.Unlock()
	if g.k >= len(g.rounds) {
		g.cancel() // the schedule is over: the stream is interrupted after this answer was handled
	}
	return err
}

func runSelect(srv *Server, sc SelectCase) (*Case, error) {
	id := nextId("s")
	tags := "sel=" + id
	if err := writeN(srv, tags, 0, sc.N0); err != nil {
		return nil, err
	}
	src, err := srcId(srv, tags)
	if err != nil {
		return nil, err
	}
	syncSrc(srv, src)
	cl, err := rpcClient(srv)
	if err != nil {
		return nil, err
	}
	ctx, cancel := context.WithCancel(context.Background())
	defer cancel()
	g := &gapQuerier{in: cl, srv: srv, tags: tags, src: src, rounds: sc.Rounds, total: sc.N0, cancel: cancel}
	for _, r := range sc.Rounds {
		if r[0] > 0 && r[1] > 0 {
			return nil, fmt.Errorf("select case: a round appends either in the gap or during the wait")
		}
	}
	limit := sc.Limit
	if limit == 0 {
		limit = 100
	}
	var got []int
	done := make(chan error, 1)
	go func() {
		done <- api.Select(ctx, g, &api.QueryRequest{Query: "SELECT FROM sel=" + id, Pos: "tail", Limit: limit, WaitTimeout: 1}, true,
			func(res *api.QueryResult) {
				for _, e := range res.Events {
					n, err := strconv.Atoi(e.Message)
					if err != nil {
						n = -1
					}
					got = append(got, n)
				}
			})
	}()
	select {
	case err = <-done:
	case <-time.After(deadline + time.Duration(2*len(sc.Rounds))*time.Second):
		return nil, fmt.Errorf("select case: the stream did not end")
	}
	if g.err != nil {
		return nil, g.err
	}
	if err != nil && err != context.Canceled && ctx.Err() == nil {
		return nil, fmt.Errorf("select case: %v", err)
	}
	// expected: everything appended after the first request was resolved
	p0 := sc.N0 + sc.Rounds[0][0]
	var want []int
	for i := p0; i < g.total; i++ {
		want = append(want, i)
	}
	var v *Violation
	if fmt.Sprint(got) != fmt.Sprint(want) {
		v = &Violation{Class: "select-stream-skips-events", Detail: fmt.Sprintf("api.Select in stream mode from tail over %d records, rounds (appended in the gap before the request, while it waits) %v: the handler received %v, appended after the first request: %v; requests sent: %v",
			sc.N0, sc.Rounds, got, want, g.queries)}
	}
	rs := make([]string, len(sc.Rounds))
	empty := 0
	for i, r := range sc.Rounds {
		rs[i] = GPair(GNat(r[0]), GNat(r[1]))
		if r[0]+r[1] == 0 {
			empty++
		}
	}
	return &Case{Coq: GApp("KSelect", GNat(sc.N0), GList(rs), GListNat(got)), Replay: map[string]interface{}{"kind": "select", "select": sc},
		NonTrivial: empty > 0 && g.total > p0, Oracle: v, Stream: "select", Key: "select/" + id,
		Tags: []string{fmt.Sprintf("select-empty-rounds:%d", empty)}}, nil
}

// genSelect: 2..4 rounds, each empty (about two at most: each costs the 1 s time-out), or with 1-2 records appended in the
// gap before its request, or with one record appended while it waits
func genSelect(r *Rng) SelectCase {
	sc := SelectCase{N0: r.PickInt(0, 1, 3)}
	n := r.Range(2, 4)
	empty := 0
	for i := 0; i < n; i++ {
		var rd [2]int
		switch x := r.Intn(6); {
		case x < 2 && empty < 2:
			empty++
		case x < 4:
			rd = [2]int{r.Range(1, 2), 0}
		default:
			rd = [2]int{0, 1}
		}
		if rd[0]+rd[1] == 0 && empty >= 2 && i > 0 && sc.Rounds[i-1][0]+sc.Rounds[i-1][1] != 0 {
			rd = [2]int{1, 0}
		}
		sc.Rounds = append(sc.Rounds, rd)
	}
	return sc
}
