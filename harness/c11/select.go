// select: the real client's stream reader (api.Select in stream mode) against the in-process server through the rpc
// client. The stream starts at position "tail" of a partition with n records. The schedule is a list of rounds
// (before, during): `before` records are appended and made readable in the gap before the round's request is sent,
// `during` records while the request waits (after its waiter goroutine exists). A round with nothing to read ends with
// the empty answer of a timed-out wait (WaitTimeout 1 s). Oracle: the handler received every record appended after
// the first request was resolved, each once, in order.
package main

import (
	"context"
	"fmt"
	"io"
	"strconv"
	"strings"
	"sync"
	"sync/atomic"
	"time"

	"github.com/logrange/logrange/api"
	"github.com/logrange/logrange/api/rpc"
	"github.com/logrange/range/pkg/transport"
	. "verifharness/common"
)

type SelectCase struct {
	N0     int      `json:"n0"`
	Rounds [][2]int `json:"rounds"` // (before, during)
	// NoPart: the partition does not exist when the stream starts (N0 = 0): the source expression of the first request(s)
	// matches nothing, the cursor is the empty cursor; the first record appended creates the partition
	NoPart bool `json:"nopart,omitempty"`
	// Filter: "" | "where" (WHERE msg CONTAINS "m") | "range-ahead" (RANGE from 1000000 on; the stored records are older) |
	// "where+range"; the records of the schedule match the filter; Decoy: every appended batch is preceded by one event
	// the filter rejects (where the partition's timestamps allow it), which the stream must not deliver
	Filter string `json:"filter,omitempty"`
	Decoy  bool   `json:"decoy,omitempty"`
	// Via: "" / "rpc" = through the rpc client (api/rpc ServerQuerier.query), "backend" = pkg/backend Querier.Query
	Via string `json:"via,omitempty"`
	Limit  int      `json:"limit"`  // batch size of the stream (0: 100; never below what a round appends: the model has no batch limit)
}

var (
	rpcMu  sync.Mutex
	rpcCli *rpc.Client
)

func rpcClient(srv *Server) (*rpc.Client, error) {
	rpcMu.Lock()
	defer rpcMu.Unlock()
	if rpcCli != nil {
		return rpcCli, nil
	}
	cl, err := rpc.NewClient(transport.Config{ListenAddr: srv.Addr})
	if err != nil {
		return nil, err
	}
	rpcCli = cl
	return cl, nil
}

// emptySpun: a waiting request over a source that matches nothing never returned (it spins in the server and cannot be
// cancelled): no further request over an empty source is made in this run
var emptySpun int32

// backendQ adapts backend.Querier to api.Querier
type backendQ struct{ srv *Server }

func (b backendQ) Query(ctx context.Context, req *api.QueryRequest, res *api.QueryResult) error {
	r, err := b.srv.Querier.Query(ctx, req)
	if err != nil && (err != io.EOF || r == nil) {
		return err
	}
	*res = *r
	return nil
}

// gapQuerier forwards the stream's requests to the real client and plays the schedule around them
type gapQuerier struct {
	in      api.Querier
	srv     *Server
	tags    string
	src     string
	rounds  [][2]int
	k       int
	total   int
	err     error
	cancel  context.CancelFunc
	queries []string
	filter  string
	decoy   bool
	hot     bool // the partition holds an event inside the RANGE
	decoys  int
}

// appendN appends n records of the schedule (they match the stream's filter), preceded by a rejected event if asked for
func (g *gapQuerier) appendN(n int) error {
	where := g.filter == "where" || g.filter == "where+range"
	ahead := g.filter == "range-ahead" || g.filter == "where+range"
	if g.decoy && (where || (ahead && !g.hot)) {
		g.decoys++
		ts, msg := int64(g.total+1), "x"+strconv.Itoa(g.decoys)
		if where && ahead {
			ts += rangeT0
		}
		if err := writeEv(g.srv, g.tags, ts, msg); err != nil {
			return err
		}
	}
	for i := 0; i < n; i++ {
		ts, msg := int64(g.total+i+1), strconv.Itoa(g.total+i)
		if ahead {
			ts += rangeT0
			g.hot = true
		}
		if where {
			msg = "m" + msg
		}
		if err := writeEv(g.srv, g.tags, ts, msg); err != nil {
			return err
		}
	}
	return nil
}

func (g *gapQuerier) Query(ctx context.Context, req *api.QueryRequest, res *api.QueryResult) error {
	if g.k >= len(g.rounds) {
		g.cancel()
		return ctx.Err()
	}
	b, d := g.rounds[g.k][0], g.rounds[g.k][1]
	g.k++
	g.queries = append(g.queries, fmt.Sprintf("{id %d pos %q query %q}", req.ReqId, req.Pos, req.Query))
	if b > 0 {
		if err := g.appendN(b); err != nil {
			g.err = err
			return err
		}
		g.total += b
		if g.src == "" { // the write created the partition
			src, err := srcId(g.srv, g.tags)
			if err != nil {
				g.err = err
				return err
			}
			g.src = src
		}
		syncSrc(g.srv, g.src)
	}
	var wg sync.WaitGroup
	stop := make(chan struct{})
	if d > 0 {
		gt := &gate{arrived: make(chan struct{}, 1), release: make(chan struct{})}
		gMu.Lock()
		gates[g.src] = gt
		gMu.Unlock()
		wg.Add(1)
		go func() {
			defer wg.Done()
			select {
			case <-gt.arrived: // the waiter goroutine of this request exists
			case <-stop: // the request came back without having waited (an error, or an answer): the records are appended now, in the gap
			case <-time.After(deadline):
				g.err = fmt.Errorf("select case: the request of round %d did not start a wait", g.k)
				return
			}
			if err := g.appendN(d); err != nil {
				g.err = err
				return
			}
			g.total += d
			syncSrc(g.srv, g.src)
		}()
	}
	err := g.in.Query(ctx, req, res)
	close(stop)
	wg.Wait()
	gMu.Lock()
	delete(gates, g.src)
	gMu.Unlock()
	if g.k >= len(g.rounds) {
		g.cancel() // the schedule is over: the stream is interrupted after this answer was handled
	}
	return err
}

func runSelect(srv *Server, sc SelectCase) (*Case, error) {
	id := nextId("s")
	tags := "sel=" + id
	src := ""
	exists := !sc.NoPart
	for _, r := range sc.Rounds {
		if r[1] > 0 && !exists {
			return nil, fmt.Errorf("select case: records can be appended during a wait only once the partition exists")
		}
		exists = exists || r[0] > 0
	}
	if sc.NoPart {
		if sc.N0 != 0 {
			return nil, fmt.Errorf("select case: no partition, but n0 = %d", sc.N0)
		}
		if atomic.LoadInt32(&emptySpun) > 0 {
			return nil, nil
		}
	} else {
		if err := writeN(srv, tags, 0, sc.N0); err != nil {
			return nil, err
		}
		var err error
		if src, err = srcId(srv, tags); err != nil {
			return nil, err
		}
		syncSrc(srv, src)
	}
	var in api.Querier
	var err error
	switch {
	case sc.Via == "backend":
		in = backendQ{srv}
	case sc.NoPart:
		// a connection of its own: a request that spins in the server blocks the read loop of its connection
		cl, e := rpc.NewClient(transport.Config{ListenAddr: srv.Addr})
		if e != nil {
			return nil, e
		}
		defer func() { go cl.Close() }()
		in = cl
	default:
		in, err = rpcClient(srv)
		if err != nil {
			return nil, err
		}
	}
	ctx, cancel := context.WithCancel(context.Background())
	defer cancel()
	g := &gapQuerier{in: in, srv: srv, tags: tags, src: src, rounds: sc.Rounds, total: sc.N0, cancel: cancel, filter: sc.Filter, decoy: sc.Decoy}
	clause := ""
	if sc.Filter == "range-ahead" || sc.Filter == "where+range" {
		clause += fmt.Sprintf(` RANGE ["%d":"4000000000000000000"]`, rangeT0)
	}
	if sc.Filter == "where" || sc.Filter == "where+range" {
		clause += ` WHERE msg CONTAINS "m"`
	}
	for _, r := range sc.Rounds {
		if r[0] > 0 && r[1] > 0 {
			return nil, fmt.Errorf("select case: a round appends either in the gap or during the wait")
		}
	}
	limit := sc.Limit
	if limit == 0 {
		limit = 100
	}
	var got []int
	done := make(chan error, 1)
	go func() {
		done <- api.Select(ctx, g, &api.QueryRequest{Query: "SELECT FROM sel=" + id + clause, Pos: "tail", Limit: limit, WaitTimeout: 1}, true,
			func(res *api.QueryResult) {
				for _, e := range res.Events {
					n, err := strconv.Atoi(strings.TrimPrefix(e.Message, "m"))
					if err != nil {
						n = -1
					}
					got = append(got, n)
				}
			})
	}()
	select {
	case err = <-done:
	case <-time.After(deadline + time.Duration(2*len(sc.Rounds))*time.Second):
		if sc.NoPart {
			// a request over the empty source never returned: it spins between Get = EOF and WaitNewData (which answers at
			// once) and ignores its context: a verdict; no further request of this kind is made
			atomic.AddInt32(&emptySpun, 1)
			cancel()
			rs := make([]string, len(sc.Rounds))
			for i, r := range sc.Rounds {
				rs[i] = GPair(GNat(r[0]), GNat(r[1]))
			}
			return &Case{Coq: GApp("KSelect", GNat(0), GList(rs), "[]"), Replay: map[string]interface{}{"kind": "select", "select": sc}, NonTrivial: true,
				Oracle: &Violation{Class: "reader-empty-source-spins", Detail: fmt.Sprintf("api.Select in stream mode (via %q) over a source expression that matches no partition, WaitTimeout 1 s: request %d (%v) did not return within %v: the stream is stuck (rounds %v)",
					sc.Via, len(g.queries), g.queries, deadline+time.Duration(2*len(sc.Rounds))*time.Second, sc.Rounds)},
				Stream: "select-empty", Key: "select/" + id}, nil
		}
		return nil, fmt.Errorf("select case: the stream did not end")
	}
	if g.err != nil {
		return nil, g.err
	}
	var v *Violation
	if err != nil && err != context.Canceled && ctx.Err() == nil {
		if !sc.NoPart {
			return nil, fmt.Errorf("select case: %v", err)
		}
		// the stream over the (formerly) empty source broke: e.g. the continuation request of an empty answer carried no query
		v = &Violation{Class: "reader-empty-source-continuation-lost", Detail: fmt.Sprintf("api.Select in stream mode (via %q) over a source expression that matches no partition at first: the stream ended with the error %q after the requests %v (rounds %v)", sc.Via, err.Error(), g.queries, sc.Rounds)}
	}
	// expected: everything appended after the first request was resolved
	p0 := sc.N0 + sc.Rounds[0][0]
	var want []int
	for i := p0; i < g.total; i++ {
		want = append(want, i)
	}
	if v == nil && fmt.Sprint(got) != fmt.Sprint(want) {
		v = &Violation{Class: "select-stream-skips-events", Detail: fmt.Sprintf("api.Select in stream mode from tail over %d records, rounds (appended in the gap before the request, while it waits) %v: the handler received %v, appended after the first request: %v; requests sent: %v",
			sc.N0, sc.Rounds, got, want, g.queries)}
	}
	rs := make([]string, len(sc.Rounds))
	empty := 0
	for i, r := range sc.Rounds {
		rs[i] = GPair(GNat(r[0]), GNat(r[1]))
		if r[0]+r[1] == 0 {
			empty++
		}
	}
	return &Case{Coq: GApp("KSelect", GNat(sc.N0), GList(rs), GListNat(got)), Replay: map[string]interface{}{"kind": "select", "select": sc},
		NonTrivial: empty > 0 && g.total > p0, Oracle: v, Stream: map[bool]string{false: "select", true: "select-empty"}[sc.NoPart], Key: "select/" + id,
		Tags: []string{fmt.Sprintf("select-empty-rounds:%d", empty), "select-via:" + map[string]string{"": "rpc", "rpc": "rpc", "backend": "backend"}[sc.Via], "select-filter:" + map[string]string{"": "none"}[sc.Filter] + sc.Filter}}, nil
}

// genSelect: 2..4 rounds, each empty (about two at most: each costs the 1 s time-out), or with 1-2 records appended in the
// gap before its request, or with one record appended while it waits
func genSelect(r *Rng) SelectCase {
	sc := SelectCase{N0: r.PickInt(0, 1, 3)}
	n := r.Range(2, 4)
	empty := 0
	for i := 0; i < n; i++ {
		var rd [2]int
		switch x := r.Intn(6); {
		case x < 2 && empty < 2:
			empty++
		case x < 4:
			rd = [2]int{r.Range(1, 2), 0}
		default:
			rd = [2]int{0, 1}
		}
		if rd[0]+rd[1] == 0 && empty >= 2 && i > 0 && sc.Rounds[i-1][0]+sc.Rounds[i-1][1] != 0 {
			rd = [2]int{1, 0}
		}
		sc.Rounds = append(sc.Rounds, rd)
	}
	if r.Chance(1, 2) {
		sc.Filter = r.PickStr("where", "range-ahead", "where+range")
		sc.Decoy = r.Chance(1, 2)
	}
	return sc
}

// runEmpty: one waiting request (WaitTimeout 1 s) over a source expression that matches no partition, nothing is written.
// It must return, empty, and its continuation request must carry the query.
func runEmpty(srv *Server, via string) (*Case, error) {
	if atomic.LoadInt32(&emptySpun) > 0 {
		return nil, nil
	}
	id := nextId("e")
	q := "SELECT FROM nosuch=" + id
	var in api.Querier = backendQ{srv}
	if via != "backend" {
		cl, err := rpc.NewClient(transport.Config{ListenAddr: srv.Addr})
		if err != nil {
			return nil, err
		}
		defer func() { go cl.Close() }()
		in = cl
	}
	type ans struct {
		res api.QueryResult
		err error
		dur time.Duration
	}
	ch := make(chan ans, 1)
	ctx, cancel := context.WithCancel(context.Background())
	defer cancel()
	go func() {
		var a ans
		t0 := time.Now()
		a.err = in.Query(ctx, &api.QueryRequest{Query: q, Limit: 10, WaitTimeout: 1}, &a.res)
		a.dur = time.Since(t0)
		ch <- a
	}()
	cs := &Case{Replay: map[string]interface{}{"kind": "empty", "via": via}, NonTrivial: true, Stream: "empty", Key: "empty/" + id, Tags: []string{"empty-via:" + via}}
	select {
	case a := <-ch:
		if a.err != nil {
			return nil, fmt.Errorf("empty case: %v", a.err)
		}
		cont := a.res.NextQueryRequest.Query != ""
		cs.Coq = GApp("KEmpty", "true", GNat(len(a.res.Events)), GBool(cont))
		switch {
		case len(a.res.Events) != 0:
			cs.Oracle = &Violation{Class: "reader-returned-unwritten", Detail: fmt.Sprintf("%s (via %s) matches no partition, the request returned %d events", q, via, len(a.res.Events))}
		case !cont:
			cs.Oracle = &Violation{Class: "reader-empty-source-continuation-lost", Detail: fmt.Sprintf("%s (via %s) matches no partition: the answer's continuation request carries no query (%+v): a stream reader cannot go on", q, via, a.res.NextQueryRequest)}
		}
	case <-time.After(deadline + time.Second):
		atomic.AddInt32(&emptySpun, 1)
		cs.Coq = GApp("KEmpty", "false", GNat(0), "false")
		cs.Oracle = &Violation{Class: "reader-empty-source-spins", Detail: fmt.Sprintf("%s (via %s) matches no partition: the request with WaitTimeout 1 s did not return within %v", q, via, deadline+time.Second)}
	}
	return cs, nil
}
