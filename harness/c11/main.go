// C11 harness.
//
//	read:  the real journal iterator (journal.NewJIterator, what cursors and pipe workers read with) is read to its
//	       end in rounds over the real journal of an in-process server, with the chunk objects interposed so that
//	       every look at the confirmed count is recorded and appends+flushes can be injected between two looks.
//	range: /repo's own journal iterator (partition.NewJIterator, what cursors with RANGE read with) is read to its end
//	       three times over the same interposed journal, an append+flush injected before each look in turn; oracle:
//	       nothing readable is stepped over (the defect was repaired in /repo; a skip is a regression).
//	wait:  Query with WaitTimeout at the end of one / several partitions on the real server; the write is injected
//	       at a protocol point (schedule hook before Chunks().WaitForNewData); oracle: the event is returned well
//	       before the time-out; nothing written => empty after the time-out.
//	rearm: a pipe worker whose 10 s wait expires with a notification pending.
//	select: the real client's stream reader (api.Select) through the rpc client, see select.go.
package main

import (
	"context"
	"fmt"
	"io"
	"math"
	"sort"
	"strconv"
	"sync"
	"sync/atomic"
	"time"

	"github.com/logrange/logrange/api"
	"github.com/logrange/logrange/api/rpc"
	"github.com/logrange/logrange/pkg/cursor"
	"github.com/logrange/logrange/pkg/model"
	"github.com/logrange/logrange/pkg/model/tag"
	"github.com/logrange/logrange/pkg/partition"
	"github.com/logrange/range/pkg/records"
	"github.com/logrange/range/pkg/records/chunk"
	"github.com/logrange/range/pkg/records/journal"
	"github.com/logrange/range/pkg/transport"
	. "verifharness/common"
)

const longFlushMs = 600000
const deadline = 25 * time.Second

// ---------------------------------------------------------------- common helpers

func writeN(srv *Server, tags string, from, n int) error {
	les := make([]model.LogEvent, n)
	for i := range les {
		les[i] = model.LogEvent{Timestamp: int64(from + i + 1), Msg: []byte(strconv.Itoa(from + i))}
	}
	ts, err := tag.Parse(tags)
	if err != nil {
		return err
	}
	it := (&model.LogEventIterator{}).Wrap(ts.Line(), model.NewTestLogEventsWrapper(les))
	return srv.Partitions.Write(context.Background(), tags, it, false)
}

func srcId(srv *Server, tags string) (string, error) {
	src, _, err := srv.TIndex.GetOrCreateJournal(tags)
	if err != nil {
		return "", err
	}
	srv.TIndex.Release(src)
	return src, nil
}

func jrnl(srv *Server, src string) (journal.Journal, error) {
	return srv.JCtrl.(journal.Controller).GetOrCreate(context.Background(), src)
}

func syncSrc(srv *Server, src string) {
	if j, err := jrnl(srv, src); err == nil {
		j.Sync()
	}
}

// ---------------------------------------------------------------- read: interposed journal

type Inject struct {
	At int `json:"at"` // before the At-th look (0-based, counted over the whole case)
	K  int `json:"k"`  // records appended and flushed
}

type ReadCase struct {
	N0      int      `json:"n0"`      // records readable at the start
	P0      int      `json:"p0"`      // start position
	Rounds  int      `json:"rounds"`  // read-to-end rounds
	Between []int    `json:"between"` // records appended+flushed after round i (a wake by a flush)
	Inj     []Inject `json:"inj"`
}

type look struct {
	kind string
	cnt  uint32
}

type interposer struct {
	srv   *Server
	tags  string
	src   string
	total int
	inj   map[int]int
	calls int
	trace []look
}

func (h *interposer) look(kind string, c chunk.Chunk) {
	if k, ok := h.inj[h.calls]; ok {
		writeN(h.srv, h.tags, h.total, k)
		h.total += k
		syncSrc(h.srv, h.src)
	}
	h.calls++
	h.trace = append(h.trace, look{kind, c.Count()})
}

type wJournal struct {
	journal.Journal
	h *interposer
}

func (w *wJournal) Chunks() journal.ChnksController { return &wCC{w.Journal.Chunks(), w.h} }

type wCC struct {
	journal.ChnksController
	h *interposer
}

func (c *wCC) Chunks(ctx context.Context) (chunk.Chunks, error) {
	cks, err := c.ChnksController.Chunks(ctx)
	if err != nil {
		return nil, err
	}
	res := make(chunk.Chunks, len(cks))
	for i, ck := range cks {
		res[i] = &wChunk{ck, c.h}
	}
	return res, nil
}

type wChunk struct {
	chunk.Chunk
	h *interposer
}

func (c *wChunk) Count() uint32 {
	c.h.look("OC", c.Chunk)
	return c.Chunk.Count()
}

func (c *wChunk) Iterator() (chunk.Iterator, error) {
	it, err := c.Chunk.Iterator()
	if err != nil {
		return nil, err
	}
	return &wIt{it, c.Chunk, c.h}, nil
}

type wIt struct {
	chunk.Iterator
	ck chunk.Chunk
	h  *interposer
}

func (i *wIt) Get(ctx context.Context) (records.Record, error) {
	i.h.look("OG", i.ck)
	return i.Iterator.Get(ctx)
}

func (i *wIt) SetPos(p int64) error {
	i.h.look("OS", i.ck)
	return i.Iterator.SetPos(p)
}

func (i *wIt) Next(ctx context.Context) {
	i.h.look("ON", i.ck)
	i.Iterator.Next(ctx)
}

var readSeq int
var seqMu sync.Mutex

func nextId(prefix string) string {
	seqMu.Lock()
	defer seqMu.Unlock()
	readSeq++
	return fmt.Sprintf("%s%d", prefix, readSeq)
}

func runRead(srv *Server, rc ReadCase) (*Case, error) {
	tags := "rd=" + nextId("r")
	if err := writeN(srv, tags, 0, rc.N0); err != nil {
		return nil, err
	}
	src, err := srcId(srv, tags)
	if err != nil {
		return nil, err
	}
	syncSrc(srv, src)
	j, err := jrnl(srv, src)
	if err != nil {
		return nil, err
	}
	cks, err := j.Chunks().Chunks(context.Background())
	if err != nil || len(cks) != 1 {
		return nil, fmt.Errorf("read case: expected one chunk, got %d (%v)", len(cks), err)
	}
	h := &interposer{srv: srv, tags: tags, src: src, total: rc.N0, inj: map[int]int{}}
	for _, in := range rc.Inj {
		h.inj[in.At] += in.K
	}
	// the iterator a cursor without RANGE reads this journal with
	it := cursor.NewItFactory().Itearator(&wJournal{j, h}, nil)
	it.SetPos(journal.Pos{CId: cks[0].Id(), Idx: uint32(rc.P0)})
	ctx := context.Background()
	var obs []string
	var all []int
	type round struct {
		del []int
		pos int
	}
	var rounds []round
	for r := 0; r < rc.Rounds; r++ {
		var del []int
		for guard := 0; guard < 100000; guard++ {
			rec, err := it.Get(ctx)
			if err == io.EOF {
				break
			}
			if err != nil {
				return nil, fmt.Errorf("read case: Get: %v", err)
			}
			var le model.LogEvent
			if _, err := le.Unmarshal(rec, true); err != nil {
				return nil, err
			}
			idx, _ := strconv.Atoi(string(le.Msg))
			del = append(del, idx)
			it.Next(ctx)
		}
		it.Release()
		pos := int(it.Pos().Idx)
		rounds = append(rounds, round{del, pos})
		all = append(all, del...)
		obs = append(obs, GPair(GListNat(del), GNat(pos)))
		if r < len(rc.Between) && rc.Between[r] > 0 {
			writeN(srv, tags, h.total, rc.Between[r])
			h.total += rc.Between[r]
			syncSrc(srv, src)
		}
	}
	it.Close()
	tr := make([]string, len(h.trace))
	for i, l := range h.trace {
		tr[i] = GPair(l.kind, GNat(int(l.cnt)))
	}
	// oracle: the reader delivered consecutive records from its start position and its position is the first
	// record it did not deliver (so that nothing readable is ever stepped over)
	var v *Violation
	for i, x := range all {
		if x != rc.P0+i {
			v = &Violation{Class: classDepReader, Detail: fmt.Sprintf("start %d: delivered %v: record %d was stepped over", rc.P0, all, rc.P0+i)}
			break
		}
	}
	last := rounds[len(rounds)-1]
	if v == nil && last.pos != rc.P0+len(all) {
		v = &Violation{Class: classDepReader, Detail: fmt.Sprintf("start %d, %d records delivered, but the reader's position is %d (of %d readable): records %d..%d will never be delivered and WaitForNewData(%d) blocks",
			rc.P0, len(all), last.pos, h.total, rc.P0+len(all), last.pos-1, last.pos)}
	}
	inRound := 0
	for _, in := range rc.Inj {
		if in.At < h.calls {
			inRound++
		}
	}
	return &Case{
		Coq:        GApp("KRead", GNat(rc.P0), GList(tr), GList(obs)),
		Replay:     map[string]interface{}{"kind": "read", "read": rc},
		NonTrivial: inRound > 0,
		Oracle:     v,
		Stream:     "read",
		Tags:       []string{fmt.Sprintf("read-injections-hit:%d", inRound), fmt.Sprintf("read-looks:%d", bucket(h.calls))},
	}, nil
}

func bucket(n int) int {
	switch {
	case n < 5:
		return 0
	case n < 20:
		return 5
	case n < 60:
		return 20
	}
	return 60
}

func genRead(r *Rng) ReadCase {
	rc := ReadCase{N0: r.PickInt(0, 1, 2, 3, 5, 8), Rounds: r.Range(1, 3)}
	rc.P0 = r.Intn(rc.N0 + 1)
	if r.Chance(1, 3) {
		rc.P0 = rc.N0
	}
	for i := 0; i < rc.Rounds-1; i++ {
		rc.Between = append(rc.Between, r.PickInt(0, 1, 2, 3))
	}
	// looks per round: about 3 per record + 3; injections at random looks
	est := (rc.N0-rc.P0)*3 + 4
	for i := 0; i < r.PickInt(0, 1, 1, 2, 3); i++ {
		rc.Inj = append(rc.Inj, Inject{At: r.Intn(est*rc.Rounds + 3), K: r.Range(1, 3)})
	}
	return rc
}

// ---------------------------------------------------------------- range: /repo's own journal iterator

// The end-of-data re-read has two sites. The journal iterator of the dependency github.com/logrange/range (stream
// `read`) is outside /repo: its class is a recorded finding. /repo's own iterator for RANGE queries (stream `range`:
// pkg/partition/jiterator.go + cselector.go getPosForward) was repaired: its class is not recorded, a skip there is
// a regression.
const classDepReader = "reader-eof-count-reread-skips-records:dependency-jiterator"
const classPartReader = "reader-eof-count-reread-skips-records:partition-jiterator"

type RangeCase struct {
	N0 int `json:"n0"`
	P0 int `json:"p0"`
	K  int `json:"k"`
	At int `json:"at"` // the look (0-based, counted over the case) before which K records are appended and flushed
}

const rangeRounds = 3

// readRange reads the partition to its end three times with partition.NewJIterator (the iterator of RANGE queries);
// injectAt < 0: only count the looks of the first two rounds. An injection before any look of the first two rounds
// is readable at the latest in the third one.
func readRange(srv *Server, rc RangeCase, injectAt int) (looks int, delivered []int, posEnd int, err error) {
	tags := "rg=" + nextId("g")
	if err = writeN(srv, tags, 0, rc.N0); err != nil {
		return
	}
	src, err := srcId(srv, tags)
	if err != nil {
		return
	}
	syncSrc(srv, src)
	j, err := jrnl(srv, src)
	if err != nil {
		return
	}
	cks, err := j.Chunks().Chunks(context.Background())
	if err != nil || len(cks) != 1 {
		err = fmt.Errorf("range case: expected one chunk")
		return
	}
	h := &interposer{srv: srv, tags: tags, src: src, total: rc.N0, inj: map[int]int{}}
	if injectAt >= 0 {
		h.inj[injectAt] = rc.K
	}
	it := partition.NewJIterator(model.TimeRange{MinTs: math.MinInt64, MaxTs: math.MaxInt64}, &wJournal{j, h}, srv.TsIndexer, srv.Partitions.GetTmIndexRebuilder())
	it.SetPos(journal.Pos{CId: cks[0].Id(), Idx: uint32(rc.P0)})
	ctx := context.Background()
	for r := 0; r < rangeRounds; r++ {
		for guard := 0; guard < 100000; guard++ {
			rec, e := it.Get(ctx)
			if e == io.EOF {
				break
			}
			if e != nil {
				err = e
				return
			}
			var le model.LogEvent
			if _, e := le.Unmarshal(rec, true); e != nil {
				err = e
				return
			}
			idx, _ := strconv.Atoi(string(le.Msg))
			delivered = append(delivered, idx)
			it.Next(ctx)
		}
		it.Release()
		if r == rangeRounds-2 {
			looks = h.calls
		}
	}
	posEnd = int(it.Pos().Idx)
	it.Close()
	return
}

// rangeLooks: the number of looks at the confirmed count in the first two read-to-end rounds without injection
func rangeLooks(srv *Server, rc RangeCase) (int, error) {
	looks, _, _, err := readRange(srv, rc, -1)
	if err != nil {
		return 0, err
	}
	if looks == 0 {
		return 0, fmt.Errorf("range case: the iterator never looked at the count")
	}
	return looks, nil
}

// runRange: K records are appended and flushed right before the look rc.At; everything readable must have been
// delivered, in order, after the third round, and the iterator must stand behind the last record
func runRange(srv *Server, rc RangeCase) (*Case, error) {
	_, del, posEnd, err := readRange(srv, rc, rc.At)
	if err != nil {
		return nil, err
	}
	skipped := len(del) != rc.N0-rc.P0+rc.K || posEnd != rc.N0+rc.K
	for i, x := range del {
		if x != rc.P0+i {
			skipped = true
		}
	}
	var v *Violation
	if skipped {
		v = &Violation{Class: classPartReader, Detail: fmt.Sprintf("partition.JIterator (RANGE queries): %d readable, reader at %d, %d records flushed right before look %d: three read-to-end rounds delivered %v, final position %d (of %d)", rc.N0, rc.P0, rc.K, rc.At, del, posEnd, rc.N0+rc.K)}
	}
	return &Case{Coq: GApp("KRange", GBool(skipped)), Replay: map[string]interface{}{"kind": "range", "range": rc}, NonTrivial: true, Oracle: v,
		Stream: "range", Key: fmt.Sprintf("range/%d/%d/%d/%d", rc.N0, rc.P0, rc.K, rc.At)}, nil
}

// ---------------------------------------------------------------- wait: schedule hook before WaitForNewData

type gate struct {
	hold    bool
	arrived chan struct{}
	release chan struct{}
}

var (
	gMu   sync.Mutex
	gates = map[string]*gate{}
	hits  = map[string]int{}
)

func waitHook(point, src string) {
	if point != "wait-new-data" {
		return
	}
	gMu.Lock()
	hits[src]++
	g := gates[src]
	gMu.Unlock()
	if g != nil {
		select {
		case g.arrived <- struct{}{}:
		default:
		}
		if g.hold {
			<-g.release
		}
	}
}

func hitCount(src string) int {
	gMu.Lock()
	defer gMu.Unlock()
	return hits[src]
}

type WaitCase struct {
	Parts  int    `json:"parts"`  // partitions under the reader
	Target int    `json:"target"` // the one written to
	N0     int    `json:"n0"`     // events per partition before
	Scen   string `json:"scen"`   // WsBefore | WsHeld | WsSleeping | WsLateFlush | WsNone
	Chain  int    `json:"chain"`  // further back-to-back waits (each woken by a write while asleep)
	Limit  int    `json:"limit"`  // page limit of the waiting request (0: 10); values above QueryMaxLimit are clamped by the server
	Rotate bool   `json:"rotate"` // the back-to-back waits write to the next partition in turn (every partition of the reader is written to when Chain >= Parts-1)
	// Filter: the reader's query has a filter: "where" (WHERE msg CONTAINS "m"; the stored events do not match), "where-stored"
	// (they do), "range-ahead" (RANGE ["1000000":]: the window lies ahead of everything stored when the wait starts: the chunk
	// selector's cached status of the last chunk is "out"), "range-tail" (RANGE ["1":]: covers the stored tail), "where+range"
	Filter string `json:"filter,omitempty"`
	// Decoy: 1 / 2 = the steps with an even / odd index first append an event the filter rejects (the reader is woken, must go
	// back to waiting, and must then return the matching event); 0 = no decoys
	Decoy int `json:"decoy,omitempty"`
	// DecoyOnly: a last wait (WaitTimeout 1 s) during which only a rejected event is appended: the answer must be empty
	DecoyOnly bool `json:"decoy_only,omitempty"`
	// Via: "" = backend.Querier, "rpc" = the rpc client (api/rpc ServerQuerier.query)
	Via string `json:"via,omitempty"`
}

const rangeT0 = 1000000

// writeEv appends one event with the timestamp and message given
func writeEv(srv *Server, tags string, ts int64, msg string) error {
	les := []model.LogEvent{{Timestamp: ts, Msg: []byte(msg)}}
	t, err := tag.Parse(tags)
	if err != nil {
		return err
	}
	it := (&model.LogEventIterator{}).Wrap(t.Line(), model.NewTestLogEventsWrapper(les))
	return srv.Partitions.Write(context.Background(), tags, it, false)
}

// queryVia: the request through the querier given, under a context that can be cancelled
func queryVia(in api.Querier, req *api.QueryRequest) (chan qres, context.CancelFunc) {
	ch := make(chan qres, 1)
	ctx, cancel := context.WithCancel(context.Background())
	rq := *req
	go func() {
		t0 := time.Now()
		res := &api.QueryResult{}
		err := in.Query(ctx, &rq, res)
		if err == nil && res.Err != nil {
			err = res.Err
		}
		ch <- qres{res, err, time.Since(t0)}
	}()
	return ch, cancel
}

// spins counts waiting queries that never returned (a reader that is woken but re-reads EOF spins between WaitNewData and
// Get; the query is then cancelled). After a few the wait stream stops starting new chains.
var spins int32

const waitTimeoutS = 5

type qres struct {
	res *api.QueryResult
	err error
	dur time.Duration
}

func query(srv *Server, req *api.QueryRequest) chan qres {
	ch, _ := queryC(srv, req)
	return ch
}

// queryC: the request runs under a context that can be cancelled (a waiting query that spins is ended by it)
func queryC(srv *Server, req *api.QueryRequest) (chan qres, context.CancelFunc) {
	ch := make(chan qres, 1)
	ctx, cancel := context.WithCancel(context.Background())
	go func() {
		t0 := time.Now()
		r, err := srv.Querier.Query(ctx, req)
		if err == io.EOF {
			err = nil
		}
		ch <- qres{r, err, time.Since(t0)}
	}()
	return ch, cancel
}

var latMu sync.Mutex
var latencies []float64

func runWait(srv *Server, wc WaitCase) ([]Case, error) {
	id := nextId("w")
	tagsOf := func(k int) string { return fmt.Sprintf("fan=%s,part=p%d", id, k) }
	srcs := make([]string, wc.Parts)
	where := wc.Filter == "where" || wc.Filter == "where-stored" || wc.Filter == "where+range"
	ahead := wc.Filter == "range-ahead" || wc.Filter == "where+range"
	clause := ""
	if ahead {
		clause += fmt.Sprintf(` RANGE ["%d":"4000000000000000000"]`, rangeT0)
	} else if wc.Filter == "range-tail" {
		clause += ` RANGE ["1":"4000000000000000000"]`
	}
	if where {
		clause += ` WHERE msg CONTAINS "m"`
	}
	storedMatch := wc.Filter == "" || wc.Filter == "where-stored" || wc.Filter == "range-tail"
	for k := 0; k < wc.Parts; k++ {
		for i := 0; i < wc.N0; i++ {
			msg := strconv.Itoa(i)
			if wc.Filter == "where-stored" {
				msg = "m" + msg
			}
			if err := writeEv(srv, tagsOf(k), int64(i+1), msg); err != nil {
				return nil, err
			}
		}
		if wc.N0 == 0 {
			if err := writeN(srv, tagsOf(k), 0, 0); err != nil {
				return nil, err
			}
		}
		s, err := srcId(srv, tagsOf(k))
		if err != nil {
			return nil, err
		}
		srcs[k] = s
		syncSrc(srv, s)
	}
	// position at the end of everything: read it all once
	req := &api.QueryRequest{Query: "SELECT FROM fan=" + id + clause, Limit: 1000}
	r0, err := srv.Querier.Query(context.Background(), req)
	if err != nil && err != io.EOF {
		return nil, err
	}
	wantStored := 0
	if storedMatch {
		wantStored = wc.Parts * wc.N0
	}
	if len(r0.Events) != wantStored {
		return nil, fmt.Errorf("wait case (%q): read %d events, %d stored ones match", clause, len(r0.Events), wantStored)
	}
	var in api.Querier = backendQ{srv}
	if wc.Via == "rpc" {
		cl, err := rpc.NewClient(transport.Config{ListenAddr: srv.Addr})
		if err != nil {
			return nil, err
		}
		defer func() { go cl.Close() }()
		in = cl
	}
	hot := make([]bool, wc.Parts) // the partition holds an event inside the RANGE
	decoys := 0
	stepNo := 0
	// what the matching event of this step looks like, and the decoy (an event the filter rejects), if this filter and
	// this partition allow one without making the partition's timestamps go back
	matchEv := func(n int) (int64, string) {
		ts, msg := int64(n+1), strconv.Itoa(n)
		if ahead {
			ts += rangeT0
		}
		if where {
			msg = "m" + msg
		}
		return ts, msg
	}
	canDecoy := func(t int) bool {
		return where || (wc.Filter == "range-ahead" && !hot[t])
	}
	decoyEv := func(n int) (int64, string) {
		decoys++
		ts, _ := matchEv(n)
		if wc.Filter == "range-ahead" {
			ts = int64(wc.N0 + decoys) // older than the range
		}
		msg := "x" + strconv.Itoa(decoys)
		if !where {
			msg = "d" + strconv.Itoa(decoys)
		}
		return ts, msg
	}
	next := r0.NextQueryRequest
	next.WaitTimeout = waitTimeoutS
	next.Limit = 10
	if wc.Limit > 0 {
		next.Limit = wc.Limit
	}
	var out []Case
	written := wc.N0
	target := wc.Target
	step := func(scen string, timeout int) error {
		if atomic.LoadInt32(&spins) >= 2 {
			return errStop
		}
		tsrc := srcs[target]
		dec := wc.Decoy != 0 && stepNo%2 == wc.Decoy-1 && canDecoy(target) && scen != "WsNone"
		if scen == "WsDecoy" {
			dec = true
		}
		stepNo++
		out0 := wc.Filter == "range-ahead" && !hot[target] && wc.N0 > 0 // the selector's status of the last chunk is "out"
		writeMatching := func() error {
			ts, msg := matchEv(written)
			if ahead {
				hot[target] = true
			}
			return writeEv(srv, tagsOf(target), ts, msg)
		}
		writeDecoy := func() error {
			ts, msg := decoyEv(written)
			return writeEv(srv, tagsOf(target), ts, msg)
		}
		var early *qres // the request came back after the rejected event alone
		nreq := next
		nreq.WaitTimeout = timeout
		gs := make([]*gate, wc.Parts)
		gMu.Lock()
		for k, s := range srcs {
			gs[k] = &gate{hold: (scen == "WsHeld" || scen == "WsLateFlush") && k == target, arrived: make(chan struct{}, 1), release: make(chan struct{})}
			gates[s] = gs[k]
		}
		gMu.Unlock()
		defer func() {
			gMu.Lock()
			for _, s := range srcs {
				delete(gates, s)
			}
			gMu.Unlock()
		}()
		if scen == "WsBefore" {
			if dec {
				if err := writeDecoy(); err != nil {
					return err
				}
			}
			if err := writeMatching(); err != nil {
				return err
			}
			syncSrc(srv, tsrc)
		}
		ch, cancel := queryVia(in, &nreq)
		defer cancel()
		var tWrite time.Time
		if scen != "WsBefore" {
			// every waiter goroutine reached the schedule point
			for k := range gs {
				select {
				case <-gs[k].arrived:
				case r := <-ch:
					// the query ended although no waiter goroutine was started for partition k: a verdict
					n := 0
					if r.res != nil {
						n = len(r.res.Events)
					}
					v := &Violation{Class: "reader-does-not-wait-on-every-partition", Detail: fmt.Sprintf("%s over %d partition(s): the query returned (%d events after %v, err %v) and never started a wait on partition %d", scen, wc.Parts, n, r.dur, r.err, k)}
					out = append(out, Case{Coq: GApp("KFan", GNat(wc.Parts), GNat(target), GNat(written), scen, "false", GNat(n)), Replay: map[string]interface{}{"kind": "wait", "wait": wc},
						Oracle: v, Stream: "wait", Key: fmt.Sprintf("%s/%d/%s/early", id, len(out), scen)})
					return errStop
				case <-time.After(deadline):
					return fmt.Errorf("wait case %s: the waiter of partition %d did not reach the schedule point", scen, k)
				}
			}
		}
		// rearrive: the reader, woken by the rejected event alone, is back in WaitNewData (its waiter goroutines reached the
		// schedule point again); false: the request came back instead
		rearrive := func() (bool, error) {
			select {
			case <-gs[target].arrived:
				return true, nil
			case r := <-ch:
				early = &r
				return false, nil
			case <-time.After(deadline):
				return false, fmt.Errorf("wait case %s: after the rejected event the reader neither went back to waiting nor returned", scen)
			}
		}
		switch scen {
		case "WsHeld":
			// readable between the position capture and the check-and-register
			if dec {
				writeDecoy()
			}
			writeMatching()
			syncSrc(srv, tsrc)
			tWrite = time.Now()
			close(gs[target].release)
		case "WsSleeping", "WsDecoy":
			// let the waiter register and block (no observable for it; if it has not yet, this is WsHeld)
			time.Sleep(20 * time.Millisecond)
			ok := true
			if dec {
				// the rejected event alone first: the reader is woken, finds nothing it may return, and must wait again
				writeDecoy()
				syncSrc(srv, tsrc)
				var err error
				if ok, err = rearrive(); err != nil {
					return err
				}
			}
			if ok && scen != "WsDecoy" {
				writeMatching()
				syncSrc(srv, tsrc)
				tWrite = time.Now()
			}
		case "WsLateFlush":
			if dec {
				writeDecoy()
			}
			writeMatching()
			close(gs[target].release)
			time.Sleep(20 * time.Millisecond)
			syncSrc(srv, tsrc)
			tWrite = time.Now()
		}
		var r qres
		var tmo <-chan time.Time = time.After(deadline + time.Duration(timeout)*time.Second)
		if early != nil {
			pre := make(chan qres, 1)
			pre <- *early
			ch = pre
		}
		select {
		case r = <-ch:
		case <-tmo:
			// the query neither returned the event nor timed out: a verdict (e.g. a reader that is woken but re-reads EOF
			// spins between WaitNewData and Get). It is cancelled; the cancelled request must then come back.
			atomic.AddInt32(&spins, 1)
			cancel()
			ended := "the cancelled request returned"
			select {
			case <-ch:
			case <-time.After(deadline):
				ended = "the request did not return after its context was cancelled either"
			}
			what := "nothing was written"
			if scen != "WsNone" {
				what = fmt.Sprintf("the event written to partition %d was never returned", target)
			}
			v := &Violation{Class: "reader-not-woken", Detail: fmt.Sprintf("%s over %d partition(s): %s and the query with WaitTimeout %d s did not return within %v (%s)", scen, wc.Parts, what, timeout, deadline+time.Duration(timeout)*time.Second, ended)}
			var coq string
			if wc.Parts == 1 {
				coq = GApp("KWait", GNat(written), scen, "false", GNat(0))
			} else {
				coq = GApp("KFan", GNat(wc.Parts), GNat(target), GNat(written), scen, "false", GNat(0))
			}
			out = append(out, Case{Coq: coq, Replay: map[string]interface{}{"kind": "wait", "wait": wc}, NonTrivial: true,
				Oracle: v, Stream: "wait", Key: fmt.Sprintf("%s/%d/%s/noreturn", id, len(out), scen), Tags: []string{"wait:" + scen, fmt.Sprintf("wait-parts:%d", wc.Parts)}})
			return errStop
		}
		if r.err != nil {
			return fmt.Errorf("wait case %s: query error %v", scen, r.err)
		}
		nev := len(r.res.Events)
		woken := nev > 0
		var v *Violation
		if scen == "WsDecoy" {
			if woken {
				v = &Violation{Class: "reader-returned-rejected-event", Detail: fmt.Sprintf("%s (%s) over %d partition(s): only an event the filter rejects was written, the waiting query returned %d events (first %q)", scen, wc.Filter, wc.Parts, nev, r.res.Events[0].Message)}
			}
		} else if early != nil {
			v = &Violation{Class: "reader-woken-by-rejected-event-returns", Detail: fmt.Sprintf("%s (%s) over %d partition(s): an event the filter rejects was appended to partition %d during the wait: the query returned %d events after %v instead of waiting on", scen, wc.Filter, wc.Parts, target, nev, r.dur)}
		} else if scen == "WsNone" {
			if woken {
				v = &Violation{Class: "reader-returned-unwritten", Detail: fmt.Sprintf("nothing was written, the waiting query returned %d events", nev)}
			} else if r.dur < time.Duration(timeout)*time.Second-50*time.Millisecond {
				v = &Violation{Class: "reader-empty-before-timeout", Detail: fmt.Sprintf("empty result after %v with WaitTimeout %ds", r.dur, timeout)}
			}
		} else {
			_, want := matchEv(written)
			switch {
			case !woken:
				v = &Violation{Class: "reader-not-woken", Detail: fmt.Sprintf("%s over %d partition(s): the event written to partition %d was not returned within the %d s time-out (query took %v)", scen, wc.Parts, target, timeout, r.dur)}
			case nev != 1 || r.res.Events[0].Message != want:
				v = &Violation{Class: "reader-wrong-event", Detail: fmt.Sprintf("%s: expected event %q, got %d events (first %q)", scen, want, nev, r.res.Events[0].Message)}
			}
			if woken && !tWrite.IsZero() {
				latMu.Lock()
				latencies = append(latencies, time.Since(tWrite).Seconds()*1000)
				latMu.Unlock()
			}
			written++
		}
		var coq string
		if wc.Parts == 1 {
			coq = GApp("KWait", GNat(written), scen, GBool(woken), GNat(nev))
		} else {
			coq = GApp("KFan", GNat(wc.Parts), GNat(target), GNat(written), scen, GBool(woken), GNat(nev))
		}
		tg := []string{"wait:" + scen, fmt.Sprintf("wait-parts:%d", wc.Parts), "wait-filter:" + map[string]string{"": "none"}[wc.Filter] + wc.Filter, "wait-via:" + map[string]string{"": "backend", "rpc": "rpc"}[wc.Via]}
		if dec {
			tg = append(tg, "wait-decoy")
		}
		if scen != "WsDecoy" {
			out = append(out, Case{Coq: coq, Replay: map[string]interface{}{"kind": "wait", "wait": wc}, NonTrivial: scen != "WsBefore" && scen != "WsNone" || wc.Parts > 1,
				Oracle: v, Stream: "wait", Key: fmt.Sprintf("%s/%d/%s", id, len(out), scen), Tags: tg})
		}
		if wc.Filter != "" && scen != "WsNone" {
			// the filtered reader of the model on the records appended during this wait
			fl := make([]string, wc.Parts)
			for k := range fl {
				fl[k] = "[]"
				if k == target {
					switch {
					case scen == "WsDecoy":
						fl[k] = "[false]"
					case dec:
						fl[k] = "[false; true]"
					default:
						fl[k] = "[true]"
					}
				}
			}
			var fv *Violation
			if scen == "WsDecoy" {
				fv = v
			}
			out = append(out, Case{Coq: GApp("KFilt", GBool(out0), GList(fl), GBool(woken)), Replay: map[string]interface{}{"kind": "wait", "wait": wc}, NonTrivial: true,
				Oracle: fv, Stream: "wait-filter", Key: fmt.Sprintf("%s/%d/%s/filt", id, len(out), scen), Tags: tg})
		}
		if r.res != nil {
			next = r.res.NextQueryRequest
		}
		if v != nil {
			return errStop
		}
		return nil
	}
	to := waitTimeoutS
	if wc.Scen == "WsNone" {
		to = 1
	}
	if err := step(wc.Scen, to); err != nil {
		if err == errStop {
			return out, nil
		}
		return nil, err
	}
	for i := 0; i < wc.Chain; i++ {
		if wc.Rotate {
			target = (target + 1) % wc.Parts
		}
		if err := step([]string{"WsSleeping", "WsHeld", "WsLateFlush"}[i%3], waitTimeoutS); err != nil {
			if err == errStop {
				return out, nil
			}
			return nil, err
		}
	}
	if wc.DecoyOnly && wc.Scen != "WsNone" {
		if wc.Rotate {
			target = (target + 1) % wc.Parts
		}
		if canDecoy(target) {
			if err := step("WsDecoy", 1); err != nil && err != errStop {
				return nil, err
			}
		}
	}
	return out, nil
}

// errStop ends a chain of waits after a verdict
var errStop = fmt.Errorf("stop")

func genWait(r *Rng) WaitCase {
	wc := WaitCase{Parts: r.PickInt(1, 1, 2, 3, 4, 4, 5, 6), N0: r.PickInt(0, 1, 3)}
	wc.Target = r.Intn(wc.Parts)
	wc.Scen = r.PickStr("WsBefore", "WsHeld", "WsHeld", "WsSleeping", "WsSleeping", "WsLateFlush", "WsLateFlush", "WsNone")
	if wc.N0 == 0 && wc.Scen == "WsNone" {
		wc.N0 = 1
	}
	if wc.Scen != "WsNone" {
		wc.Chain = r.PickInt(0, 0, 1, 2, 3)
	}
	wc.Limit = r.PickInt(0, 0, 1, 10, 9999, 10000, 10001, 50000)
	if r.Chance(1, 2) {
		wc.Filter = r.PickStr("where", "where", "where-stored", "range-ahead", "range-ahead", "range-tail", "where+range")
		wc.Decoy = r.PickInt(0, 1, 2)
		wc.DecoyOnly = r.Chance(1, 4)
		if wc.Filter == "range-ahead" && r.Chance(2, 3) && wc.N0 == 0 {
			wc.N0 = 1 // a last chunk with events older than the range
		}
		if wc.Limit == 1 {
			wc.Limit = 0
		}
	}
	if r.Chance(1, 4) {
		wc.Via = "rpc"
	}
	if wc.Parts >= 3 && wc.Scen != "WsNone" && r.Chance(1, 2) {
		// every partition of the reader in turn (with >= 3 partitions the cursor has nested mixers)
		wc.Rotate = true
		wc.Chain = wc.Parts - 1 + r.Intn(2)
	}
	return wc
}

// ---------------------------------------------------------------- rearm (pipe worker)

type RearmCase struct {
	B1 int `json:"b1"`
	B2 int `json:"b2"`
}

func endPos(srv *Server, src string) string {
	j, err := jrnl(srv, src)
	if err != nil {
		return ""
	}
	cks, err := j.Chunks().Chunks(context.Background())
	if err != nil || len(cks) == 0 {
		return ""
	}
	last := cks[len(cks)-1]
	return journal.Pos{CId: last.Id(), Idx: last.Count()}.String()
}

func runRearm(srv *Server, rc RearmCase) (*Case, error) {
	id := nextId("q")
	tags := "rearm=" + id
	if _, err := srv.Exec("CREATE PIPE " + id + " FROM rearm=" + id); err != nil {
		return nil, err
	}
	src, err := srcId(srv, tags)
	if err != nil {
		return nil, err
	}
	var v *Violation
	h0 := hitCount(src)
	if err := writeN(srv, tags, 0, rc.B1); err != nil {
		return nil, err
	}
	if !WaitFor(deadline, func() bool { return hitCount(src) > h0 }) {
		v = &Violation{Class: "pipe-worker-not-started", Detail: "no worker reached its wait after the first write"}
	}
	syncSrc(srv, src)
	caught := func() bool {
		end := endPos(srv, src)
		return WaitFor(deadline, func() bool {
			pos, _, _, ok := srv.Pipes.VC10PipeState(id, src)
			return ok && pos == end
		})
	}
	if !caught() && v == nil {
		v = &Violation{Class: "pipe-not-caught-up", Detail: "first batch not copied"}
	}
	// the worker is back in its 10 s wait now
	WaitFor(deadline, func() bool { return hitCount(src) >= h0+2 })
	t0 := time.Now()
	target := t0.Add(10*time.Second - 60*time.Millisecond)
	for time.Now().Before(target) {
		time.Sleep(time.Until(target))
	}
	h1 := hitCount(src)
	if err := writeN(srv, tags, rc.B1, rc.B2); err != nil {
		return nil, err
	}
	// notification pending (data unreadable), the wait expires, workerDone must start the next worker, which parks
	if !WaitFor(deadline, func() bool { return hitCount(src) > h1 }) && v == nil {
		v = &Violation{Class: "pipe-not-rearmed", Detail: "the worker's wait expired with a notification pending and no new worker reached its wait: the written events stay uncopied until the next write"}
	}
	syncSrc(srv, src)
	if !caught() && v == nil {
		v = &Violation{Class: "pipe-not-rearmed", Detail: "events written while the worker was finishing were not copied"}
	}
	dsrc, err := srcId(srv, "logrange.pipe="+id)
	if err != nil {
		return nil, err
	}
	syncSrc(srv, dsrc)
	res, err := srv.Querier.Query(context.Background(), &api.QueryRequest{Query: "SELECT FROM logrange.pipe=" + id, Limit: 1000})
	if err != nil && err != io.EOF {
		return nil, err
	}
	copied := len(res.Events)
	if copied != rc.B1+rc.B2 && v == nil {
		v = &Violation{Class: "pipe-not-rearmed", Detail: fmt.Sprintf("%d of %d events copied", copied, rc.B1+rc.B2)}
	}
	srv.Exec("DELETE PIPE " + id)
	return &Case{Coq: GApp("KRearm", GNat(rc.B1), GNat(rc.B2), GNat(copied)), Replay: map[string]interface{}{"kind": "rearm", "rearm": rc},
		NonTrivial: true, Oracle: v, Stream: "rearm", Key: "rearm/" + id}, nil
}

// ---------------------------------------------------------------- main

const rule = "read: journal iterator read to its end in 1-3 rounds over 0-8 readable records from a random start position, with 0-3 append+flush injections placed before random looks at the confirmed count and 0-3 records appended between rounds (non-trivial iff an injection fell inside a round); wait: Query(WaitTimeout) at the end of 1-4 partitions with the write placed before the query / between position capture and check-and-register (schedule hook) / after the waiter is asleep / written while held and flushed after registration / never, followed by 0-3 back-to-back waits (non-trivial iff the write races the wait or several partitions are under the reader); half of the wait chains and select streams with a WHERE and/or RANGE filter (events the filter rejects appended before the matching one), a quarter through the rpc querier; rearm: pipe worker's 10 s wait expiring with a notification pending; select: api.Select in stream mode from tail through the rpc client, 2-4 rounds with records appended in the gap before a request / while it waits, up to two empty (timed-out) rounds (non-trivial iff an empty round is followed by appended records)"

type replayT struct {
	Kind  string     `json:"kind"`
	Read  *ReadCase  `json:"read"`
	Wait  *WaitCase  `json:"wait"`
	Rearm *RearmCase `json:"rearm"`
	Range *RangeCase `json:"range"`
	Select *SelectCase `json:"select"`
	Via    string      `json:"via"`
	Edge   *EdgeCase   `json:"edge"`
}

func main() {
	Main("C11", "C11K", func(c *Ctx) error {
		cursor.VC11SetHook(waitHook)
		srv, err := StartServer(ServerOpts{NoRPC: true, WriteFlushMs: longFlushMs})
		if err != nil {
			return err
		}
		defer srv.Stop()
		if c.Replay != nil {
			var rp replayT
			if err := FromJSON(c.Replay, &rp); err != nil {
				return err
			}
			switch rp.Kind {
			case "read":
				cs, err := runRead(srv, *rp.Read)
				if err != nil {
					return err
				}
				c.Add(*cs)
			case "wait":
				cs, err := runWait(srv, *rp.Wait)
				if err != nil {
					return err
				}
				for _, x := range cs {
					c.Add(x)
				}
			case "range":
				cs, err := runRange(srv, *rp.Range)
				if err != nil {
					return err
				}
				c.Add(*cs)
			case "select":
				cs, err := runSelect(srv, *rp.Select)
				if err != nil {
					return err
				}
				c.Add(*cs)
			case "edge":
				var cs []Case
				var err error
				if rp.Edge.What == "rollover" {
					cs, err = runRollover(*rp.Edge)
				} else {
					cs, err = runEdge(srv, *rp.Edge)
				}
				if err != nil {
					return err
				}
				for _, x := range cs {
					c.Add(x)
				}
			case "empty":
				cs, err := runEmpty(srv, rp.Via)
				if err != nil {
					return err
				}
				c.Add(*cs)
			case "rearm":
				cs, err := runRearm(srv, *rp.Rearm)
				if err != nil {
					return err
				}
				c.Add(*cs)
			}
			return c.Finish(rule)
		}
		// rearm cases run in the background for the whole length of the run
		nr := c.N(2)
		rearm := make([]*Case, nr)
		rerr := make([]error, nr)
		var wg sync.WaitGroup
		for i := 0; i < nr; i++ {
			rc := RearmCase{B1: c.Rng.Range(1, 3), B2: c.Rng.Range(1, 3)}
			wg.Add(1)
			go func(i int) {
				defer wg.Done()
				rearm[i], rerr[i] = runRearm(srv, rc)
			}(i)
		}
		// select cases run in the background too (an empty round costs the 1 s time-out of its wait); first the witness of
		// C11_select_resend_refuted: an empty wait, then a record appended in the gap before the next request
		ns := c.N(8)
		sels := make([]*Case, ns)
		serr := make([]error, ns)
		sjobs := make([]SelectCase, ns)
		for i := range sjobs {
			sjobs[i] = genSelect(c.Rng.Fork())
		}
		sjobs[0] = SelectCase{N0: 3, Rounds: [][2]int{{0, 0}, {1, 0}, {0, 0}}}
		if ns > 1 {
			sjobs[1] = SelectCase{N0: 1, Rounds: [][2]int{{0, 0}, {0, 1}, {2, 0}, {0, 0}}}
		}
		// readers over a source expression that matches no partition: the plain waiting request (both queriers), then
		// streams whose partition is created by the first record appended (after an empty wait / before the first request
		// is answered ...). The backend request comes first: if it never returns, the others are not made.
		sjobs = append(sjobs,
			SelectCase{N0: 2, Filter: "range-ahead", Decoy: true, Rounds: [][2]int{{0, 0}, {0, 1}, {1, 0}, {0, 1}}},
			SelectCase{N0: 1, Filter: "where", Decoy: true, Via: "backend", Rounds: [][2]int{{0, 1}, {0, 0}, {2, 0}}},
			SelectCase{NoPart: true, Via: "backend", Rounds: [][2]int{{0, 0}, {2, 0}, {0, 1}}},
			SelectCase{NoPart: true, Rounds: [][2]int{{0, 0}, {1, 0}, {0, 0}}},
			SelectCase{NoPart: true, Rounds: [][2]int{{0, 0}, {0, 0}, {1, 0}, {0, 1}, {1, 0}}},
			SelectCase{NoPart: true, Via: "backend", Rounds: [][2]int{{1, 0}, {0, 1}}},
		)
		sels = append(sels, make([]*Case, 6)...)
		serr = append(serr, make([]error, 6)...)
		// the edges of the wait mechanism, always: WaitTimeout 60 (served) / 61 / -1 (refused) through both queriers, a request
		// cancelled while it waits (1 and 3 partitions), three readers waiting on one partition, an event that opens a new chunk
		edgeJobs := []EdgeCase{
			{What: "timeout", Timeout: 0}, {What: "timeout", Timeout: 0, Via: "rpc"},
			{What: "timeout", Timeout: 60}, {What: "timeout", Timeout: 61}, {What: "timeout", Timeout: -1},
			{What: "timeout", Timeout: 60, Via: "rpc"}, {What: "timeout", Timeout: 61, Via: "rpc"}, {What: "timeout", Timeout: -1, Via: "rpc"},
			{What: "cancel", Parts: 1}, {What: "cancel", Parts: 3}, {What: "cancel", Parts: 2, Via: "rpc"},
			{What: "multi", Readers: 3}, {What: "multi", Readers: 2, Via: "rpc"},
			{What: "rollover"},
		}
		edges := make([][]Case, len(edgeJobs))
		gerr := make([]error, len(edgeJobs))
		wg.Add(1)
		go func() {
			defer wg.Done()
			Parallel(len(edgeJobs), 4, func(i int) {
				if edgeJobs[i].What == "rollover" {
					edges[i], gerr[i] = runRollover(edgeJobs[i])
				} else {
					edges[i], gerr[i] = runEdge(srv, edgeJobs[i])
				}
			})
		}()
		empties := make([]*Case, 2)
		eerr := make([]error, 2)
		wg.Add(1)
		go func() {
			defer wg.Done()
			empties[0], eerr[0] = runEmpty(srv, "backend")
			empties[1], eerr[1] = runEmpty(srv, "rpc")
			Parallel(len(sjobs), 4, func(i int) { sels[i], serr[i] = runSelect(srv, sjobs[i]) })
		}()
		// corpus: the witness of C11_no_skip_refuted on the implementation (3 readable, reader at 3, a flush of 2
		// between the end-of-data decision and the position it is left with)
		corpus := ReadCase{N0: 3, P0: 3, Rounds: 2, Inj: []Inject{{At: 2, K: 2}}}
		cs, err := runRead(srv, corpus)
		if err != nil {
			return err
		}
		cs.Stream = "corpus-read"
		c.Add(*cs)
		for i := 0; i < c.N(220); i++ {
			cs, err := runRead(srv, genRead(c.Rng.Fork()))
			if err != nil {
				return err
			}
			c.Add(*cs)
		}
		// range: the former witness first (3 readable, reader at 3, the flush right before the last look of the first
		// round), then every look of the first two rounds of random small partitions
		for i := 0; i < c.N(12)+1; i++ {
			n0 := c.Rng.PickInt(1, 2, 3, 5)
			rc := RangeCase{N0: n0, P0: c.Rng.PickInt(0, n0), K: c.Rng.Range(1, 3)}
			if i == 0 {
				rc = RangeCase{N0: 3, P0: 3, K: 2}
			}
			looks, err := rangeLooks(srv, rc)
			if err != nil {
				return err
			}
			for at := 0; at < looks; at++ {
				rc.At = at
				cs, err := runRange(srv, rc)
				if err != nil {
					return err
				}
				c.Add(*cs)
			}
		}
		nw := c.N(70)
		jobs := make([]WaitCase, nw)
		for i := range jobs {
			jobs[i] = genWait(c.Rng.Fork())
		}
		// always: a reader over 3 and over 4 partitions (nested mixers) at the end of all of them, every partition
		// written to in turn in a chain of back-to-back waits
		jobs = append([]WaitCase{
			{Parts: 3, Target: 0, N0: 1, Scen: "WsSleeping", Chain: 3, Rotate: true},
			{Parts: 4, Target: 1, N0: 0, Scen: "WsHeld", Chain: 4, Rotate: true},
			// filtered readers: RANGE ahead of a stored chunk (the selector's cached status of the chunk is "out" when the first
			// event inside the range arrives), WHERE over two partitions (a filter above a mixer) with rejected events first,
			// WHERE + RANGE over three partitions through the rpc querier
			{Parts: 1, Target: 0, N0: 2, Scen: "WsSleeping", Chain: 2, Filter: "range-ahead", Decoy: 2},
			{Parts: 2, Target: 0, N0: 1, Scen: "WsSleeping", Chain: 3, Rotate: true, Filter: "where", Decoy: 1, DecoyOnly: true},
			{Parts: 2, Target: 1, N0: 1, Scen: "WsHeld", Chain: 2, Rotate: true, Filter: "range-ahead"},
			{Parts: 3, Target: 0, N0: 1, Scen: "WsSleeping", Chain: 3, Rotate: true, Filter: "where+range", Decoy: 2, Via: "rpc"},
		}, jobs...)
		nw = len(jobs)
		res := make([][]Case, nw)
		errs := make([]error, nw)
		Parallel(nw, 8, func(i int) { res[i], errs[i] = runWait(srv, jobs[i]) })
		for i := range jobs {
			if errs[i] != nil {
				return errs[i]
			}
			for _, x := range res[i] {
				c.Add(x)
			}
		}
		wg.Wait()
		for i := range rearm {
			if rerr[i] != nil {
				return rerr[i]
			}
			c.Add(*rearm[i])
		}
		for i := range edges {
			if gerr[i] != nil {
				return gerr[i]
			}
			for _, x := range edges[i] {
				c.Add(x)
			}
		}
		for i := range empties {
			if eerr[i] != nil {
				return eerr[i]
			}
			if empties[i] != nil {
				c.Add(*empties[i])
			}
		}
		for i := range sels {
			if serr[i] != nil {
				return serr[i]
			}
			if sels[i] != nil {
				c.Add(*sels[i])
			}
		}
		latMu.Lock()
		if len(latencies) > 0 {
			sort.Float64s(latencies)
			c.Note("wake_latency_ms", map[string]float64{"median": latencies[len(latencies)/2], "p95": latencies[len(latencies)*95/100], "max": latencies[len(latencies)-1], "n": float64(len(latencies))})
		}
		latMu.Unlock()
		return c.Finish(rule)
	})
}
