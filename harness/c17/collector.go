// The collector stream of the C17 harness: the real client/collector.Run (scanner.NewScanner + Scanner.Run +
// the Write/Confirm loop) with a stand-in api.Client whose Write outcome the driver chooses call by call:
// stored / communication error (Write returns an error) / failed by the server (Write returns nil and sets
// WriteResult.Err). Everything the collector and its worker sleep on is gated as in the scanner stream, and a
// Write call blocks until the driver answers it, so every step is deterministic.
//
// Observable here: the Write calls (the first call for an event is its hand-over: OHand; every call: OWrite
// stored?), the worker's sleeps, and - after a stop - the saved state. Confirm() results, descriptor offsets and
// the offset a started worker begins at are inside Run and are not observed (KCaseC masks them in the model).
package main

import (
	"bytes"
	"context"
	"errors"
	"fmt"
	"io/ioutil"
	"os"
	"path/filepath"
	"sync/atomic"
	"time"

	"github.com/logrange/logrange/api"
	"github.com/logrange/logrange/client/collector"
	"github.com/logrange/logrange/pkg/scanner"
	"github.com/logrange/logrange/pkg/scanner/parser"
	"github.com/logrange/logrange/pkg/storage"
	. "verifharness/common"
)

type wcall struct {
	tags, fields string
	msgs         [][]byte
	reply        chan string // ok | comm | srv
}

type fakeClient struct {
	api.Client // nil: collector.Run uses Write only
	ctx        *sctx
	calls      chan *wcall
}

func (f *fakeClient) Write(ctx context.Context, tags, fields string, evs []*api.LogEvent, res *api.WriteResult) error {
	c := &wcall{tags: tags, fields: fields, reply: make(chan string, 1)}
	for _, e := range evs {
		c.msgs = append(c.msgs, []byte(e.Message))
	}
	select {
	case f.calls <- c:
	case <-f.ctx.cancelCh:
		return context.Canceled
	}
	select {
	case w := <-c.reply:
		// as api/rpc does: res.Err is what the server answered, the returned error is the transport's
		switch w {
		case "comm":
			res.Err = nil
			return errors.New("connection lost")
		case "srv":
			res.Err = errors.New("the server failed the write")
			return nil
		}
		res.Err = nil
		return nil
	case <-f.ctx.cancelCh:
		return context.Canceled
	}
}

type cdriver struct {
	rp      *Replay
	dir     string
	path    string
	content []byte
	ctx     *sctx
	st      *cstorage
	fc      *fakeClient
	done    chan error
	phase   string // down | sleep | write | retry
	held    *sleepReq
	call    *wcall
	last    [][]byte // the event of the last failed Write

	kevs []string
	obs  []string
	err  error
	tag  map[string]int
	// oracle
	viol     *Violation
	pos      int64 // where the next new event must begin
	infl     [2]int64
	conf     int64 // end of the last event stored (hence confirmed) since the last start
	stored   int64 // the server holds [0, stored)
	storedBs []byte
	pers     int64
	fails    int
	split, partial bool
}

func (d *cdriver) fail(class, detail string) {
	if d.viol == nil {
		d.viol = &Violation{Class: class, Detail: detail}
	}
}
func (d *cdriver) other(code int, class, detail string) {
	d.obs = append(d.obs, GApp("OOther", GNat(code)))
	d.fail(class, detail)
}

func (d *cdriver) cfg() *scanner.Config {
	return &scanner.Config{
		IncludePaths:           []string{filepath.Join(d.dir, "logs", "*.log")},
		SyncWorkersIntervalSec: 3600,
		StateStoreIntervalSec:  3600,
		RecordMaxSizeBytes:     d.rp.B,
		EventMaxRecords:        d.rp.Rpe,
		Schemas: []*scanner.SchemaConfig{{PathMatcher: "/*(?:.+/)*(?P<file>.+\\..+)", DataFormat: parser.DataFormat(d.rp.Format),
			Meta: scanner.Meta{Tags: map[string]string{"file": "{file}"}}}},
	}
}

func (d *cdriver) start() error {
	inner, err := storage.NewStorage(&storage.Config{Type: storage.TypeFile, Location: filepath.Join(d.dir, "state")})
	if err != nil {
		return err
	}
	d.ctx = newSctx()
	d.st = &cstorage{inner: inner}
	d.fc = &fakeClient{ctx: d.ctx, calls: make(chan *wcall)}
	d.done = make(chan error, 1)
	cfg := d.cfg()
	go func() { d.done <- collector.Run(d.ctx, cfg, d.fc, d.st) }()
	return nil
}

func (d *cdriver) stopProc(crash bool) {
	if d.ctx == nil {
		return
	}
	if crash {
		atomic.StoreInt32(&d.st.frozen, 1)
	}
	d.ctx.cancel()
	select {
	case <-d.done:
	case <-time.After(waitDeadline):
		d.err = fmt.Errorf("collector.Run did not return")
	}
	d.ctx, d.held, d.call = nil, nil, nil
}

func (d *cdriver) readPersisted() (*pdesc, error) {
	data, err := ioutil.ReadFile(filepath.Join(d.dir, "state", "scanner.json"))
	if err != nil {
		if os.IsNotExist(err) {
			return nil, nil
		}
		return nil, err
	}
	var l []pdesc
	if err := FromJSON(data, &l); err != nil {
		return nil, fmt.Errorf("scanner.json: %v (%q)", err, data)
	}
	if len(l) != 1 {
		return nil, fmt.Errorf("scanner.json: %d descriptors (%q)", len(l), data)
	}
	return &l[0], nil
}

// newEvent: the first Write call for an event is its hand-over
func (d *cdriver) newEvent(c *wcall) {
	d.call, d.phase = c, "write"
	d.obs = append(d.obs, GApp("OHand", gRecs(c.msgs)))
	start := d.pos
	for _, r := range c.msgs {
		end := d.pos + int64(len(r))
		if end > int64(len(d.content)) || !bytes.Equal(d.content[d.pos:end], r) {
			d.fail("payload-not-the-next-file-bytes", fmt.Sprintf("record %q written at offset %d; the file continues with %q", trunc(r), d.pos, trunc(d.content[minI(d.pos, int64(len(d.content))):minI(end, int64(len(d.content)))])))
			break
		}
		if len(r) == 0 || (r[len(r)-1] != '\n' && len(r) < d.rp.B) {
			d.fail("record-neither-line-nor-full-buffer", fmt.Sprintf("record %q at offset %d does not end a line and is shorter than the record limit %d", trunc(r), d.pos, d.rp.B))
		}
		if len(r) > 0 && r[len(r)-1] != '\n' {
			d.split = true
		}
		d.pos = end
	}
	d.infl = [2]int64{start, d.pos}
	if c.tags != "file=app.log" {
		d.fail("event-tags", c.tags)
	}
}

// settle: after the worker was released, an event was stored, or the collector started: the next thing is a
// Write call for a new event or the worker's sleep
func (d *cdriver) settle(where string) bool {
	select {
	case req := <-d.ctx.sleepCh:
		if req.coll {
			d.other(8, "collector-pauses-without-a-failed-write", where)
			return false
		}
		d.held, d.phase = req, "sleep"
		d.obs = append(d.obs, GApp("OSleep", GBool(req.partial)))
		if req.partial || (len(d.content) > 0 && d.content[len(d.content)-1] != '\n') {
			d.partial = true
		}
		// idle: every complete line is stored
		last := int64(bytes.LastIndexByte(d.content, '\n') + 1)
		if d.conf < last && !req.partial {
			d.fail("bytes-not-handed-over-at-idle-eof", fmt.Sprintf("the worker idles at EOF, stored and confirmed up to %d, complete lines up to %d", d.conf, last))
		}
		return true
	case c := <-d.fc.calls:
		d.newEvent(c)
		return true
	case <-time.After(waitDeadline):
		d.other(9, "worker-stuck", "neither a Write call nor a sleep within the deadline "+where)
		return false
	}
}

func sameMsgs(a, b [][]byte) bool {
	if len(a) != len(b) {
		return false
	}
	for i := range a {
		if !bytes.Equal(a[i], b[i]) {
			return false
		}
	}
	return true
}

func (d *cdriver) apply(op Op) bool {
	switch op.K {
	case "app":
		f, err := os.OpenFile(d.path, os.O_WRONLY|os.O_APPEND, 0644)
		if err == nil {
			_, err = f.Write(op.Data)
			f.Close()
		}
		if err != nil {
			d.err = err
			return false
		}
		d.content = append(d.content, op.Data...)
		d.kevs = append(d.kevs, GApp("KAppend", GBytes(op.Data)))
	case "run":
		d.kevs = append(d.kevs, "KRun")
		if d.phase != "sleep" {
			return true
		}
		req := d.held
		d.held = nil
		close(req.release)
		return d.settle("after a sleep")
	case "write":
		d.kevs = append(d.kevs, GApp("KCollect", map[string]string{"ok": "WOk", "comm": "WComm", "srv": "WSrv"}[op.Mode]))
		if d.phase == "retry" {
			// the pause ends; the collector must write the same event again
			req := d.held
			d.held = nil
			close(req.release)
			select {
			case c := <-d.fc.calls:
				if !sameMsgs(c.msgs, d.last) {
					d.fail("event-given-up-after-a-failed-write", fmt.Sprintf("after a failed Write the collector went on to another event (%d records, first %q) instead of writing the same one again", len(c.msgs), trunc(first(c.msgs))))
					d.newEvent(c) // what is observed is recorded
					return false
				}
				d.call, d.phase = c, "write"
			case req := <-d.ctx.sleepCh:
				// the worker went on: the event was confirmed although its write had failed
				d.fail("event-given-up-after-a-failed-write", "after a failed Write the collector confirmed the event: its worker went on and found nothing more to read")
				d.held, d.phase = req, "sleep"
				d.obs = append(d.obs, GApp("OSleep", GBool(req.partial)))
				return false
			case <-time.After(waitDeadline):
				d.other(9, "worker-stuck", "no Write call after the collector's pause")
				return false
			}
		}
		if d.phase != "write" {
			return true
		}
		c := d.call
		d.call = nil
		c.reply <- op.Mode
		d.obs = append(d.obs, GApp("OWrite", GBool(op.Mode == "ok")))
		if op.Mode == "ok" {
			d.conf = d.infl[1]
			if d.infl[0] <= d.stored && d.infl[1] > d.stored {
				var all []byte
				for _, m := range c.msgs {
					all = append(all, m...)
				}
				if int64(len(all)) >= d.stored-d.infl[0] {
					d.storedBs = append(d.storedBs, all[d.stored-d.infl[0]:]...)
				}
				d.stored = d.infl[1]
			} else if d.infl[0] > d.stored {
				d.fail("stored-stream-has-a-gap", fmt.Sprintf("the server holds bytes up to %d, the event stored now begins at %d", d.stored, d.infl[0]))
			}
			return d.settle("after a stored write")
		}
		d.fails++
		d.last = c.msgs
		select {
		case req := <-d.ctx.sleepCh:
			if !req.coll {
				d.fail("event-given-up-after-a-failed-write", "after a failed Write the worker went on (the event was confirmed)")
				d.held, d.phase = req, "sleep"
				d.obs = append(d.obs, GApp("OSleep", GBool(req.partial)))
				return false
			}
			d.held, d.phase = req, "retry"
		case c2 := <-d.fc.calls:
			d.fail("event-given-up-after-a-failed-write", "after a failed Write the collector wrote at once again, without its pause")
			d.newEvent(c2)
			return false
		case <-time.After(waitDeadline):
			d.other(9, "worker-stuck", "the collector neither paused nor wrote after a failed Write")
			return false
		}
	case "stop", "crash":
		crash := op.K == "crash"
		if crash {
			d.kevs = append(d.kevs, "KCrash")
		} else {
			d.kevs = append(d.kevs, "KStop")
		}
		if d.phase == "down" {
			return true
		}
		d.stopProc(crash)
		if d.err != nil {
			return false
		}
		d.obs = append(d.obs, "OExit")
		d.phase = "down"
		pd, err := d.readPersisted()
		if err != nil {
			d.err = err
			return false
		}
		if !crash {
			if pd == nil {
				d.err = fmt.Errorf("no saved state after the stop")
				return false
			}
			d.obs = append(d.obs, GApp("OPersisted", GNat(int(pd.Offset)), GNat(int(pd.LastSeenSize))))
		}
		if pd != nil {
			// what the next start resumes from
			if pd.Offset > d.stored {
				d.fail("saved-offset-beyond-what-the-server-stored", fmt.Sprintf("scanner.json holds offset %d, the server stored bytes up to %d only", pd.Offset, d.stored))
			} else if !crash && pd.Offset != d.conf {
				d.fail("graceful-restart-resends-confirmed-bytes", fmt.Sprintf("scanner.json holds offset %d after a graceful stop, the collector had confirmed up to %d", pd.Offset, d.conf))
			}
			d.pers = pd.Offset
		}
	case "start":
		d.kevs = append(d.kevs, "KStart")
		if d.phase != "down" {
			return true
		}
		if err := d.start(); err != nil {
			d.err = err
			return false
		}
		d.pos, d.conf = d.pers, d.pers
		return d.settle("after the start")
	default:
		d.err = fmt.Errorf("unknown op %q in the collector stream", op.K)
		return false
	}
	return true
}

func first(m [][]byte) []byte {
	if len(m) == 0 {
		return nil
	}
	return m[0]
}

func (d *cdriver) draw(r *Rng, gen *lineGen, pending *[][]byte, total *int) Op {
	nextPiece := func() (Op, bool) {
		if len(*pending) == 0 && *total < 380 {
			*pending = gen.pieces(r, d.rp.B, r.PickInt(20, 80, 150, 220))
		}
		if len(*pending) == 0 {
			return Op{}, false
		}
		p := (*pending)[0]
		*pending = (*pending)[1:]
		*total += len(p)
		return Op{K: "app", Data: p}, true
	}
	x := r.Intn(100)
	switch d.phase {
	case "sleep":
		switch {
		case x < 45:
			if op, ok := nextPiece(); ok {
				return op
			}
			return Op{K: "run"}
		case x < 84:
			return Op{K: "run"}
		case x < 91:
			return Op{K: "stop"}
		case x < 96:
			return Op{K: "crash"}
		default:
			return Op{K: "write", Mode: r.PickStr("ok", "srv")} // nothing to write
		}
	case "write", "retry":
		switch {
		case x < 48:
			return Op{K: "write", Mode: "ok"}
		case x < 62:
			return Op{K: "write", Mode: "srv"}
		case x < 72:
			return Op{K: "write", Mode: "comm"}
		case x < 84:
			if op, ok := nextPiece(); ok {
				return op
			}
			return Op{K: "write", Mode: "ok"}
		case x < 91:
			return Op{K: "stop"}
		case x < 96:
			return Op{K: "crash"}
		default:
			return Op{K: "run"} // not enabled
		}
	default:
		switch {
		case x < 72:
			return Op{K: "start"}
		case x < 94:
			if op, ok := nextPiece(); ok {
				return op
			}
			return Op{K: "start"}
		default:
			return Op{K: "write", Mode: "ok"} // no process
		}
	}
}

func runCollectorCase(rp *Replay, r *Rng) (*Case, error) {
	dir := TempDir("c17c")
	defer RemoveAll(dir)
	if err := os.MkdirAll(filepath.Join(dir, "logs"), 0755); err != nil {
		return nil, err
	}
	d := &cdriver{rp: rp, dir: dir, path: filepath.Join(dir, "logs", "app.log"), phase: "down", tag: map[string]int{}}
	if err := ioutil.WriteFile(d.path, rp.Init, 0644); err != nil {
		return nil, err
	}
	d.content = append([]byte{}, rp.Init...)
	if r == nil {
		for _, op := range rp.Ops {
			if !d.apply(op) {
				break
			}
		}
	} else {
		gen := &lineGen{format: rp.Format}
		var pending [][]byte
		total := len(rp.Init)
		for i := 0; i < rp.steps; i++ {
			op := Op{K: "start"}
			if i > 0 {
				op = d.draw(r, gen, &pending, &total)
			}
			rp.Ops = append(rp.Ops, op)
			if !d.apply(op) {
				break
			}
		}
	}
	d.stopProc(true)
	if d.err != nil {
		return nil, d.err
	}
	// the stored stream itself: every byte once, in order
	if !bytes.Equal(d.storedBs, d.content[:minI(d.stored, int64(len(d.content)))]) {
		d.fail("stored-stream-not-the-file", "the bytes the server stored, taken once each, are not the beginning of the file")
	}
	tags := []string{"fmt:" + rp.Format, fmt.Sprintf("B:%d", rp.B), fmt.Sprintf("rpe:%d", rp.Rpe)}
	if d.fails > 0 {
		tags = append(tags, "failed-writes")
	}
	if d.split {
		tags = append(tags, "buffer-full-split")
	}
	if d.partial {
		tags = append(tags, "eof-inside-line")
	}
	return &Case{
		Coq:        GApp("KCaseC", GNat(rp.B), GNat(rp.Rpe), GBytes(rp.Init), GList(d.kevs), GList(d.obs)),
		Replay:     rp,
		NonTrivial: d.fails > 0 || d.split || d.partial,
		Oracle:     d.viol,
		Stream:     "collector",
		Tags:       tags,
	}, nil
}
