// C17 harness: drives the real scanner (pkg/scanner Scanner, worker, parser.pureParser/lineParser,
// lineReader over bufio, desc/mergeDescs/persistState/loadState; through the hook VC17Start, which is
// Scanner.Run with the sync ticker replaced by explicit Sync() calls) on a file in a scratch
// directory that grows in generated pieces. The harness is the consumer of the scanner's channel.
//
// No real-time sleeps: every utils.Sleep(ctx, d) of a worker (1 s at EOF with nothing to send; a sleep inside
// readLine, which the reader had before its repair, is told apart and recorded as such) calls ctx.Done(); the harness' context recognises that caller and
// blocks the call until the driver releases it, then returns a closed channel. A worker is therefore
// always blocked in exactly one place the driver controls: a sleep, the channel send (the driver
// receives at once), or waitConfirm (the driver holds the event), and every step is deterministic.
package main

import (
	"bytes"
	"context"
	"encoding/json"
	"fmt"
	"io/ioutil"
	"os"
	"path/filepath"
	"runtime"
	"strconv"
	"strings"
	"sync"
	"sync/atomic"
	"time"

	"github.com/logrange/logrange/pkg/scanner"
	"github.com/logrange/logrange/pkg/scanner/model"
	"github.com/logrange/logrange/pkg/scanner/parser"
	"github.com/logrange/logrange/pkg/storage"
	"github.com/logrange/logrange/pkg/utils"
	. "verifharness/common"
)

const waitDeadline = 40 * time.Second

const (
	wCur  = 1
	wOld  = 2
	wDead = 3
)

// Op is one step of the schedule (the K-level events of kcheck/C17K.v)
type Op struct {
	K    string `json:"k"`              // app | run | confirm | persist | stop | crash | start | replace | sync | orun | oconfirm | write
	Data []byte `json:"data,omitempty"` // app, replace: bytes
	Mode string `json:"mode,omitempty"` // replace: rename | delete | truncate; write: ok | comm | srv
}

type Replay struct {
	B      int    `json:"recordMaxSize"`
	Rpe    int    `json:"eventMaxRecords"`
	Format string `json:"format"` // pure | text | k8json | logfmt
	Aux    bool   `json:"aux,omitempty"`    // the watched directory also holds aux.log, which no schema matches: a second descriptor (scanned, merged, saved, loaded) without a worker
	Base   int64  `json:"base,omitempty"`   // the file begins with a hole of this many bytes and scanner.json says they are shipped: every offset the scanner handles is beyond it (2^31, 2^32)
	Stream string `json:"stream,omitempty"` // "" = the scanner with the harness as its consumer; collector = client/collector.Run with a stand-in api.Client
	Init   []byte `json:"init"`   // content of the file when the scanner first starts
	Ops    []Op   `json:"ops"`
	steps  int
}

// ---------- the context ----------
type sleepReq struct {
	gid     int64
	partial bool // utils.Sleep called by lineReader.readLine
	coll    bool // utils.Sleep called by collector.Run (its 5 s pause before it writes an event again)
	release chan struct{}
}
type sctx struct {
	cancelCh chan struct{}
	once     sync.Once
	sleepCh  chan *sleepReq
}

var closedCh = func() chan struct{} { c := make(chan struct{}); close(c); return c }()

func newSctx() *sctx { return &sctx{cancelCh: make(chan struct{}), sleepCh: make(chan *sleepReq)} }
func (c *sctx) cancel() { c.once.Do(func() { close(c.cancelCh) }) }
func (c *sctx) Deadline() (time.Time, bool)       { return time.Time{}, false }
func (c *sctx) Value(key interface{}) interface{} { return nil }
func (c *sctx) Err() error {
	select {
	case <-c.cancelCh:
		return context.Canceled
	default:
		return nil
	}
}

// sleepCaller: 0 = Done() was not called by utils.Sleep; 1 = utils.Sleep called by lineReader.readLine;
// 3 = utils.Sleep called by collector.Run; 2 = utils.Sleep called from elsewhere (worker.sendOrSleep)
func sleepCaller() int {
	pcs := make([]uintptr, 16)
	n := runtime.Callers(3, pcs)
	fr := runtime.CallersFrames(pcs[:n])
	inSleep := false
	for {
		f, more := fr.Next()
		if inSleep {
			if strings.Contains(f.Function, "readLine") {
				return 1
			}
			if strings.Contains(f.Function, "collector.Run") {
				return 3
			}
			return 2
		}
		if strings.HasSuffix(f.Function, "pkg/utils.Sleep") {
			inSleep = true
		}
		if !more {
			break
		}
	}
	if inSleep {
		return 2
	}
	return 0
}

func curGid() int64 {
	var buf [64]byte
	n := runtime.Stack(buf[:], false)
	f := strings.Fields(string(buf[:n]))
	if len(f) < 2 {
		return -1
	}
	id, _ := strconv.ParseInt(f[1], 10, 64)
	return id
}

func (c *sctx) Done() <-chan struct{} {
	k := sleepCaller()
	if k == 0 {
		return c.cancelCh
	}
	req := &sleepReq{gid: curGid(), partial: k == 1, coll: k == 3, release: make(chan struct{})}
	select {
	case c.sleepCh <- req:
	case <-c.cancelCh:
		return c.cancelCh
	}
	select {
	case <-req.release:
	case <-c.cancelCh:
		return c.cancelCh
	}
	return closedCh
}

// ---------- storage wrapper: a crashed process' writes no longer reach the disk ----------
type cstorage struct {
	inner  storage.Storage
	frozen int32
}

func (s *cstorage) ReadData(key string) ([]byte, error) { return s.inner.ReadData(key) }
func (s *cstorage) WriteData(key string, val []byte) error {
	if atomic.LoadInt32(&s.frozen) != 0 {
		return fmt.Errorf("process is gone")
	}
	return s.inner.WriteData(key, val)
}

// ---------- driver ----------
type proc struct {
	h      *scanner.VC17Handle
	ctx    *sctx
	st     *cstorage
	events chan *model.Event
}

type driver struct {
	rp      *Replay
	dir     string // scratch dir: logs/ (watched), state/ (scanner.json)
	path    string
	content []byte // content of the file at the path
	p       *proc
	// where the current worker is blocked
	phase   string             // sleep | wait | down
	held    *sleepReq          // phase sleep
	hev     *model.Event       // an event received and not confirmed yet (may be stale after a stop)
	owner   map[int64]int      // goroutine id -> wCur | wOld | wDead (a worker is known by its goroutine once it has slept)
	parked  []*sleepReq        // sleeping abandoned workers (held until the end)
	graceful bool              // phase down: after a stop (true) or a crash (false)
	// the worker of the file that was rotated away (told to stop at EOF by the sync that noticed it)
	ophase string       // "" (none) | sleep | wait | done
	oheld  *sleepReq
	ohev   *model.Event
	oid    string       // its descriptor id
	oo     *oracle      // the property on its hand-over stream
	gen    *lineGen
	auxSeen int64 // size of aux.log at the last scan (start or sync)
	rotPending bool // the file at the path was replaced while the scanner runs and no sync has followed yet
	// the file at the path was rewritten in place (same identity, shorter) and a sync has noticed: the map holds a
	// new descriptor, the worker keeps its own, is told to stop at EOF and a later sync starts its successor
	detached  bool
	detSleeps int // sleeps it has begun since (one is in order: the request counts from the next read on)

	ids  []string // file identities seen, in order
	kevs []string
	obs  []string
	o    oracle
	tag  map[string]int
	err  error
}

func (d *driver) cfg() *scanner.Config {
	var dateFmts []string
	if d.rp.Format == "text" {
		dateFmts = []string{"DD/MMM/YYYY:HH:mm:ss ZZZZ"} // (a date format is an error for the other data formats)
	}
	var excl []string
	if d.rp.Aux {
		excl = []string{".*/aac\\.log$"}
	}
	return &scanner.Config{
		IncludePaths:           []string{filepath.Join(d.dir, "logs", "*.log")},
		ExcludeMatchers:        excl,
		SyncWorkersIntervalSec: 3600,
		StateStoreIntervalSec:  3600,
		RecordMaxSizeBytes:     d.rp.B,
		EventMaxRecords:        d.rp.Rpe,
		// (with aux.log in the directory the schema names app.log only: aux.log is scanned, has a descriptor, no worker)
		Schemas: []*scanner.SchemaConfig{{PathMatcher: map[bool]string{false: "/*(?:.+/)*(?P<file>.+\\..+)", true: "/*(?:.+/)*(?P<file>app\\..+)"}[d.rp.Aux], DataFormat: parser.DataFormat(d.rp.Format),
			DateFormats: dateFmts,
			Meta: scanner.Meta{Tags: map[string]string{"file": "{file}"}, Fields: map[string]string{"level": "lvl"}}}},
	}
}

func (d *driver) start() error {
	inner, err := storage.NewStorage(&storage.Config{Type: storage.TypeFile, Location: filepath.Join(d.dir, "state")})
	if err != nil {
		return err
	}
	p := &proc{ctx: newSctx(), st: &cstorage{inner: inner}, events: make(chan *model.Event)}
	h, err := scanner.VC17Start(p.ctx, d.cfg(), p.st, p.events)
	if err != nil {
		p.ctx.cancel()
		return err
	}
	p.h = h
	d.p = p
	d.owner, d.parked, d.held = map[int64]int{}, nil, nil
	d.detached, d.detSleeps = false, 0
	d.ophase, d.oheld, d.ohev, d.oo = "", nil, nil, nil
	return nil
}

func (d *driver) stopProc(crash bool) {
	p := d.p
	if p == nil {
		return
	}
	if crash {
		atomic.StoreInt32(&p.st.frozen, 1)
	}
	p.ctx.cancel()
	done := make(chan struct{})
	go func() { p.h.Wait(); close(done) }()
	select {
	case <-done:
	case <-time.After(waitDeadline):
		d.err = fmt.Errorf("scanner did not shut down")
	}
	d.held, d.parked = nil, nil
	d.ophase, d.oheld, d.ohev = "", nil, nil
	d.p = nil
}

func (d *driver) other(code int, class, detail string) {
	d.obs = append(d.obs, GApp("OOther", GNat(code)))
	d.o.fail(class, detail)
}

func gRecs(recs [][]byte) string {
	it := make([]string, len(recs))
	for i, r := range recs {
		it[i] = GBytes(r)
	}
	return GList(it)
}

// settle waits until the worker that was released (who: wCur, the worker of the file at the path; wOld, the
// worker of the file that was rotated away) blocks again: in a sleep (recorded as OSleep), offering an event
// (received at once, recorded as OHand), or - the old worker only - having returned (OExit).
// Every other worker is blocked at a point the driver controls. Returns false on a deviation.
func (d *driver) settle(who int, where string) bool {
	tick := time.NewTicker(2 * time.Millisecond)
	defer tick.Stop()
	deadline := time.After(waitDeadline)
	for {
		select {
		case req := <-d.p.ctx.sleepCh:
			ow, known := d.owner[req.gid]
			if !known {
				ow = who
				d.owner[req.gid] = who
			}
			if ow == wDead {
				d.parked = append(d.parked, req) // an abandoned worker stays asleep
				continue
			}
			if ow != who {
				d.other(8, "sleep-of-a-blocked-worker", "a worker that was not released went to sleep "+where)
				return false
			}
			d.obs = append(d.obs, GApp("OSleep", GBool(req.partial)))
			if who == wCur {
				d.held, d.phase = req, "sleep"
				d.o.sleep(req.partial, d)
				if d.detached {
					if d.detSleeps++; d.detSleeps > 1 {
						d.o.fail("worker-of-a-rewritten-file-does-not-return", fmt.Sprintf("the file at the path was rewritten in place with shorter content (%d bytes) and a sync has noticed; its worker found EOF again and sleeps instead of returning, so no worker will read the new content", len(d.content)))
					}
				}
			} else {
				d.oheld, d.ophase = req, "sleep"
				d.oo.sleep(req.partial, d)
			}
			return true
		case ev := <-d.p.events:
			var recs [][]byte
			for _, r := range ev.Records {
				if r == nil {
					d.other(5, "event-with-a-missing-record", fmt.Sprintf("an event of %d records holds a nil record", len(ev.Records)))
					return false
				}
				recs = append(recs, append([]byte{}, r.Data...))
			}
			var ext [][]byte
			if who == wCur {
				d.hev, d.phase = ev, "wait"
				ext = d.o.hand(recs, ev.File, d)
			} else {
				d.ohev, d.ophase = ev, "wait"
				ext = d.oo.hand(recs, ev.File, d)
			}
			d.obs = append(d.obs, GApp("OHand", gRecs(ext)))
			return true
		case <-tick.C:
			if who == wCur && d.detached && d.curStopped() {
				// told to stop at EOF, it has drained what it had and returned; the next sync starts its successor
				d.phase = "done"
				d.tag["rewritten-file-worker-returned"]++
				d.obs = append(d.obs, "OExit")
				return true
			}
			if who == wCur && d.curStopped() {
				d.other(7, "worker-returned-on-its-own", "the worker of the file at the path returned (not stopped, not told to stop at EOF) "+where)
				return false
			}
			if who == wOld && d.oldStopped() {
				d.ophase = "done"
				d.tag["rotated-worker-returned"]++
				d.obs = append(d.obs, "OExit")
				d.oo.drained(d)
				return true
			}
		case <-deadline:
			d.other(9, "worker-stuck", "the worker neither slept nor offered an event within the deadline "+where)
			return false
		}
	}
}

// the worker of the rotated-away file, as the scanner sees it
func (d *driver) oldWorker() *scanner.VC17Worker {
	for _, w := range d.p.h.Workers() {
		if w.Id == d.oid && !w.Current {
			w := w
			return &w
		}
	}
	return nil
}
// curWorker: the worker the driver calls current: the one of the path's descriptor, or - after a rewrite in place
// that a sync has noticed - the one that still reads with the descriptor it was started with
func (d *driver) curWorker() *scanner.VC17Worker {
	var det *scanner.VC17Worker
	for _, w := range d.p.h.Workers() {
		w := w
		if w.File != d.path {
			continue
		}
		if w.Current {
			return &w
		}
		if d.ophase == "" || d.ophase == "done" || w.Id != d.oid {
			det = &w
		}
	}
	return det
}
func (d *driver) curStopped() bool {
	w := d.curWorker()
	return w != nil && w.Stopped
}
func (d *driver) oldStopped() bool {
	w := d.oldWorker()
	return w != nil && w.Stopped
}

type pdesc struct {
	Id           string
	File         string
	Offset       int64
	LastSeenSize int64
}

func (d *driver) readPersisted() (*pdesc, error) {
	data, err := ioutil.ReadFile(filepath.Join(d.dir, "state", "scanner.json"))
	if err != nil {
		if os.IsNotExist(err) {
			return nil, nil
		}
		return nil, err
	}
	var l []pdesc
	if err := json.Unmarshal(data, &l); err != nil {
		return nil, fmt.Errorf("scanner.json: %v (%q)", err, data)
	}
	var main *pdesc
	aux := 0
	for i := range l {
		switch l[i].File {
		case d.path:
			if main != nil {
				d.o.fail("two-descriptors-of-one-path-in-the-saved-state", fmt.Sprintf("%q", data))
				return nil, nil
			}
			main = &l[i]
		case d.auxPath():
			aux++
			if l[i].Offset != 0 || l[i].LastSeenSize != d.auxSeen {
				d.o.fail("other-descriptor-lost-or-changed", fmt.Sprintf("scanner.json holds Offset %d, LastSeenSize %d for aux.log; nothing of it was shipped and its size at the last scan was %d", l[i].Offset, l[i].LastSeenSize, d.auxSeen))
			}
		default:
			return nil, fmt.Errorf("scanner.json: a descriptor of %q (%q)", l[i].File, data)
		}
	}
	if d.rp.Aux && aux != 1 {
		d.o.fail("other-descriptor-lost-or-changed", fmt.Sprintf("scanner.json holds %d descriptors of aux.log", aux))
	}
	if main == nil {
		d.o.fail("path-descriptor-missing-in-the-saved-state", fmt.Sprintf("scanner.json holds no descriptor of the watched path: %q", data))
		return nil, nil
	}
	main.Offset -= d.rp.Base
	main.LastSeenSize -= d.rp.Base
	if main.Offset < 0 || main.LastSeenSize < 0 {
		d.o.fail("saved-offset-before-the-start-offset", fmt.Sprintf("scanner.json holds Offset %d, LastSeenSize %d for a file whose first %d bytes the state it started from says are shipped", main.Offset+d.rp.Base, main.LastSeenSize+d.rp.Base, d.rp.Base))
		return nil, nil
	}
	return main, nil
}

func (d *driver) scannedAux() {
	if fi, err := os.Stat(d.auxPath()); err == nil {
		d.auxSeen = fi.Size()
	}
}
func (d *driver) auxPath() string { return filepath.Join(d.dir, "logs", "aux.log") }

// descOffset: the offset of the path's descriptor in the scanner's map (less the hole the file begins with)
func (d *driver) descOffset() (int64, bool) {
	var off int64
	n := 0
	for _, x := range d.p.h.Descs() {
		if x[1].(string) == d.path {
			off = x[2].(int64)
			n++
		}
	}
	if n != 1 {
		return 0, false
	}
	return off - d.rp.Base, true
}

// idOf numbers the file identities in the order they are first seen (the first file is 0)
func (d *driver) idOf(real string) int {
	for i, x := range d.ids {
		if x == real {
			return i
		}
	}
	d.ids = append(d.ids, real)
	return len(d.ids) - 1
}

func (d *driver) fileId() string {
	info, err := os.Stat(d.path)
	if err != nil {
		return ""
	}
	return utils.GetFileId(d.path, info)
}

func (d *driver) writeFile(data []byte, appendTo bool) error {
	fl := os.O_WRONLY | os.O_CREATE
	if appendTo {
		fl |= os.O_APPEND
	} else {
		fl |= os.O_EXCL
	}
	f, err := os.OpenFile(d.path, fl, 0644)
	if err != nil {
		return err
	}
	if _, err := f.Write(data); err != nil {
		f.Close()
		return err
	}
	return f.Close()
}

// apply executes one op; false ends the case
func (d *driver) apply(op Op) bool {
	switch op.K {
	case "app":
		if err := d.writeFile(op.Data, true); err != nil {
			d.err = err
			return false
		}
		d.content = append(d.content, op.Data...)
		d.kevs = append(d.kevs, GApp("KAppend", GBytes(op.Data)))
	case "aux": // aux.log grows (or is cut back to nothing: Mode truncate); no event of the model
		if !d.rp.Aux {
			return true
		}
		fl := os.O_WRONLY | os.O_APPEND
		if op.Mode == "truncate" {
			fl = os.O_WRONLY | os.O_TRUNC
		}
		f, err := os.OpenFile(d.auxPath(), fl, 0644)
		if err == nil {
			_, err = f.Write(op.Data)
			f.Close()
		}
		if err != nil {
			d.err = err
			return false
		}
	case "run":
		d.kevs = append(d.kevs, "KRun")
		if d.phase != "sleep" {
			return true
		}
		req := d.held
		d.held = nil
		close(req.release)
		return d.settle(wCur, "after a sleep")
	case "confirm":
		d.kevs = append(d.kevs, "KConfirm")
		if d.hev == nil {
			d.obs = append(d.obs, GApp("OConf", GBool(false)))
			return true
		}
		ev := d.hev
		d.hev = nil
		ok := ev.Confirm()
		d.obs = append(d.obs, GApp("OConf", GBool(ok)))
		d.o.confirm(ok)
		if !ok {
			return true
		}
		if d.phase != "wait" {
			d.other(3, "confirm-accepted-by-nobody", "Confirm() returned true although no worker was waiting")
			return false
		}
		// the worker sets the offset and reads on; when it blocks again the offset is set
		n0 := len(d.obs)
		if !d.settle(wCur, "after a confirmation") {
			return false
		}
		off, okd := d.descOffset()
		if d.detached {
			// the worker's own descriptor, no longer the one in the scanner's map
			if w := d.curWorker(); w != nil && !w.Current {
				off, okd = w.Offset-d.rp.Base, true
			}
		}
		if !okd {
			d.other(4, "descriptor-missing", "no single descriptor after a confirmation")
			return false
		}
		rest := append([]string{}, d.obs[n0:]...)
		d.obs = append(append(d.obs[:n0], GApp("OOffset", GNat(int(off)))), rest...)
		d.o.offset(off)
	case "persist":
		d.kevs = append(d.kevs, "KPersist")
		if d.phase == "down" {
			return true
		}
		if err := d.p.h.Persist(); err != nil {
			d.err = err
			return false
		}
		pd, err := d.readPersisted()
		if err == nil && pd == nil && d.o.viol != nil {
			d.obs = append(d.obs, GApp("OOther", GNat(6))) // the saved state is not what a scanner of one path writes: reported by the oracle
			return false
		}
		if err != nil || pd == nil {
			d.err = fmt.Errorf("persisted state unreadable: %v", err)
			return false
		}
		d.obs = append(d.obs, GApp("OPersisted", GNat(int(pd.Offset)), GNat(int(pd.LastSeenSize))))
		d.o.persisted(pd.Offset, pd.LastSeenSize)
	case "stop":
		d.kevs = append(d.kevs, "KStop")
		if d.phase == "down" {
			return true
		}
		d.stopProc(false)
		if d.err != nil {
			return false
		}
		if d.phase != "done" {
			d.obs = append(d.obs, "OExit")
		}
		pd, err := d.readPersisted()
		if err == nil && pd == nil && d.o.viol != nil {
			d.obs = append(d.obs, GApp("OOther", GNat(6)))
			d.phase, d.graceful = "down", true
			return false
		}
		if err != nil || pd == nil {
			d.err = fmt.Errorf("persisted state unreadable after the stop: %v", err)
			return false
		}
		d.obs = append(d.obs, GApp("OPersisted", GNat(int(pd.Offset)), GNat(int(pd.LastSeenSize))))
		d.o.persisted(pd.Offset, pd.LastSeenSize)
		d.phase, d.graceful = "down", true
	case "crash":
		d.kevs = append(d.kevs, "KCrash")
		if d.phase == "down" {
			return true
		}
		d.stopProc(true)
		if d.err != nil {
			return false
		}
		if d.phase != "done" {
			d.obs = append(d.obs, "OExit")
		}
		d.phase, d.graceful = "down", false
	case "start":
		d.kevs = append(d.kevs, "KStart")
		if d.phase != "down" {
			return true
		}
		if err := d.start(); err != nil {
			d.err = err
			return false
		}
		d.scannedAux()
		off, ok := d.descOffset()
		if !ok {
			d.other(4, "descriptor-missing", "no single descriptor after the start")
			return false
		}
		if off < 0 {
			d.other(6, "restart-before-the-saved-offset", fmt.Sprintf("the saved state says %d bytes are shipped (the hole the file begins with); the worker starts at %d", d.rp.Base, off+d.rp.Base))
			return false
		}
		d.obs = append(d.obs, GApp("ORestart", GNat(int(off))))
		d.o.restart(off, d)
		return d.settle(wCur, "after the start")
	case "replace":
		old := d.fileId()
		if op.Mode == "rename" {
			if err := os.Rename(d.path, d.path+".1"); err != nil {
				d.err = err
				return false
			}
		} else if op.Mode == "truncate" { // the same file rewritten (copytruncate): the identity stays
			if err := os.Truncate(d.path, 0); err != nil {
				d.err = err
				return false
			}
		} else if err := os.Remove(d.path); err != nil {
			d.err = err
			return false
		}
		if err := d.writeFile(op.Data, op.Mode == "truncate"); err != nil {
			d.err = err
			return false
		}
		id := d.idOf(d.fileId())
		d.o.replaced(id, d)
		d.content = append([]byte{}, op.Data...)
		d.rotPending = d.phase != "down"
		d.kevs = append(d.kevs, GApp("KReplace", GNat(id), GBytes(op.Data)))
		switch {
		case id == d.idOf(old):
			d.tag["replace-same-id"]++
		case id < len(d.ids)-1:
			d.tag["replace-earlier-id"]++
		default:
			d.tag["replace-new-id"]++
		}
	case "sync":
		d.kevs = append(d.kevs, "KSync")
		if d.phase == "down" {
			return true
		}
		before := map[string]bool{}
		oldId := ""
		for _, w := range d.p.h.Workers() {
			if w.Current { // (a worker that is not: one that drains, or has drained, a rotated-away file)
				before[w.Id] = true
				oldId = w.Id
			}
		}
		d.p.h.Sync()
		d.scannedAux()
		d.rotPending = false
		fresh := false
		for _, w := range d.p.h.Workers() {
			if !before[w.Id] && w.Current {
				fresh = true
			}
		}
		if fresh {
			// the worker of the file that was at the path goes on with the file it has open, told to stop at
			// EOF; a worker that was draining already is abandoned (it stays blocked where it is)
			if d.phase == "done" {
				// the successor of a worker that has returned (rewrite in place): nobody goes on with an old file
				for g, ow := range d.owner {
					if ow == wCur {
						d.owner[g] = wDead
					}
				}
				d.detached = false
			} else {
				if d.oheld != nil {
					d.parked = append(d.parked, d.oheld)
				}
				for g, ow := range d.owner {
					if ow == wOld {
						d.owner[g] = wDead
					} else if ow == wCur {
						d.owner[g] = wOld
					}
				}
				d.ophase, d.oheld, d.ohev, d.oid = d.phase, d.held, d.hev, oldId
				d.held, d.hev = nil, nil
				d.oo = d.o.forOld(d)
				d.detached = false
				d.tag["rotated-worker-"+d.ophase]++
			}
			off, _ := d.descOffset()
			d.obs = append(d.obs, GApp("OFresh", GNat(int(off))))
			d.o.fresh(d)
			return d.settle(wCur, "after a sync that started a worker")
		}
		if w := d.curWorker(); w != nil && !w.Current && !w.Stopped && !d.detached && d.phase != "done" {
			d.detached, d.detSleeps = true, 0
			d.tag["rewritten-in-place-noticed"]++
		}
	case "orun":
		d.kevs = append(d.kevs, "KOldRun")
		if d.phase == "down" || d.ophase != "sleep" {
			return true
		}
		req := d.oheld
		d.oheld = nil
		close(req.release)
		return d.settle(wOld, "after a sleep of the rotated file's worker")
	case "oconfirm":
		d.kevs = append(d.kevs, "KOldConfirm")
		if d.phase == "down" {
			return true
		}
		if d.ohev == nil {
			d.obs = append(d.obs, GApp("OConf", GBool(false)))
			return true
		}
		ev := d.ohev
		d.ohev = nil
		ok := ev.Confirm()
		d.obs = append(d.obs, GApp("OConf", GBool(ok)))
		d.oo.confirm(ok)
		if !ok {
			return true
		}
		if d.ophase != "wait" {
			d.other(3, "confirm-accepted-by-nobody", "Confirm() returned true although the rotated file's worker was not waiting")
			return false
		}
		n0 := len(d.obs)
		if !d.settle(wOld, "after a confirmation to the rotated file's worker") {
			return false
		}
		w := d.oldWorker()
		if w == nil {
			d.other(4, "descriptor-missing", "the rotated file's worker is unknown to the scanner after a confirmation")
			return false
		}
		rest := append([]string{}, d.obs[n0:]...)
		d.obs = append(append(d.obs[:n0], GApp("OOffset", GNat(int(w.Offset-d.rp.Base)))), rest...)
		d.oo.offset(w.Offset - d.rp.Base)
	default:
		d.err = fmt.Errorf("unknown op %q", op.K)
		return false
	}
	return true
}

// ---------- the oracle: the property on the observations (independent of the Coq model) ----------
type oracle struct {
	viol *Violation
	root *oracle // the old worker's stream reports into the case's oracle
	// the file the current worker reads and where the hand-over stream stands in it
	wfile    []byte // nil: the worker reads the file at the path (d.content)
	pos      int64  // end of the last handed-over record
	conf     int64  // end of the last confirmed event
	ends     map[int64]bool
	pers     int64 // last persisted offset
	persLss  int64 // ... and LastSeenSize
	persConf int64 // conf when it was written
	havePers bool
	awaiting bool // an event is handed over and not confirmed
	diskStale bool // the file at the path was replaced after the last save
	curId     int  // identity of the file at the path
	savedId   int  // identity of the file the last save described
	workerId  int  // identity of the file the current worker has open
	split, partial, resend bool
	proj, raw             bool // k8json/logfmt: a record that is the log member of its line / a record shipped as it stands
}

// classes of recorded findings: they must not hide another violation of the same case
// (complete-lines-withheld-behind-partial-line was one until readLine was repaired; it is a violation now)
var recorded = map[string]bool{"replaced-file-same-inode-not-shorter-not-read-from-start": true}

func (o *oracle) fail(class, detail string) {
	if o.root != nil {
		o.root.fail(class, "[worker of the rotated-away file] "+detail)
		return
	}
	if o.viol == nil || (recorded[o.viol.Class] && !recorded[class]) {
		o.viol = &Violation{Class: class, Detail: detail}
	}
}

// forOld: the hand-over stream of the worker that goes on with the file it has open after a rotation
func (o *oracle) forOld(d *driver) *oracle {
	oo := &oracle{root: o, pos: o.pos, conf: o.conf, awaiting: o.awaiting, ends: map[int64]bool{}}
	for k := range o.ends {
		oo.ends[k] = true
	}
	oo.wfile = append([]byte{}, o.file(d)...)
	if o.wfile == nil {
		// not replaced at all (cannot happen: a fresh worker needs a new identity)
		oo.wfile = append([]byte{}, d.content...)
	}
	return oo
}

// drained: the worker of the rotated-away file has returned on its own; every complete line of that file
// (the harness does not write to it after the rotation) must have been handed over and confirmed
func (o *oracle) drained(d *driver) {
	f := o.file(d)
	last := int64(bytes.LastIndexByte(f, '\n') + 1)
	if o.conf < last {
		o.fail("rotated-file-not-drained", fmt.Sprintf("the worker returned with bytes up to %d confirmed (handed over up to %d); the file it had open holds complete lines up to %d", o.conf, o.pos, last))
	}
}
func (o *oracle) top() *oracle {
	if o.root != nil {
		return o.root
	}
	return o
}
func (o *oracle) file(d *driver) []byte {
	if o.wfile != nil {
		return o.wfile
	}
	return d.content
}
// hand: an event reached the consumer. Returns, per record, the bytes of the file it stands for: the payload
// itself for pure and text; for k8json and logfmt the line whose independent reading gives the payload
// (the payload itself if there is no such line - the oracle has failed then).
func (o *oracle) hand(recs [][]byte, file string, d *driver) [][]byte {
	f := o.file(d)
	B := d.rp.B
	ext := make([][]byte, 0, len(recs))
	jsonFmt := d.rp.Format == "k8json" || d.rp.Format == "logfmt"
	bad := false
	for _, r := range recs {
		if bad {
			ext = append(ext, r)
			continue
		}
		x := r
		if jsonFmt {
			// the record stands for the whole next line if that line is a json log line (then its payload is the
			// log member), else for itself: a line that does not parse, or a piece of a line longer than the
			// record limit, is shipped as it stands
			if n := bytes.IndexByte(f[minI(o.pos, int64(len(f))):], '\n'); n >= 0 {
				line := f[o.pos : o.pos+int64(n)+1]
				if want, ok := refLog(line); ok {
					if bytes.Equal(want, r) {
						x = line
						o.top().proj = true
					} else if bytes.Equal(line, r) || len(line) <= B {
						o.fail("payload-not-the-projection-of-the-next-line", fmt.Sprintf("record %q handed over at offset %d; the next line is %q, whose log field reads %q", trunc(r), o.pos, trunc(line), trunc(want)))
						bad = true
						ext = append(ext, r)
						continue
					}
				}
			}
			if len(x) == len(r) {
				o.top().raw = true
			}
		}
		end := o.pos + int64(len(x))
		if end > int64(len(f)) || !bytes.Equal(f[o.pos:end], x) {
			o.fail("payload-not-the-next-file-bytes", fmt.Sprintf("record %q handed over at offset %d; the file continues with %q", trunc(r), o.pos, trunc(f[minI(o.pos, int64(len(f))):minI(end, int64(len(f)))])))
			bad = true
			ext = append(ext, r)
			continue
		}
		if len(x) == 0 || (x[len(x)-1] != '\n' && len(x) < B) {
			o.fail("record-neither-line-nor-full-buffer", fmt.Sprintf("record %q at offset %d does not end a line and is shorter than the record limit %d", trunc(r), o.pos, B))
		}
		if len(x) > 0 && x[len(x)-1] != '\n' {
			o.top().split = true
		}
		ext = append(ext, append([]byte{}, x...))
		o.pos = end
	}
	if file != d.path {
		o.fail("event-file-name", file)
	}
	o.awaiting = true
	return ext
}
func (o *oracle) confirm(ok bool) {
	if ok {
		o.conf = o.pos
		o.ends[o.conf] = true
		o.awaiting = false
	}
}
func (o *oracle) offset(off int64) {
	if off != o.conf {
		o.fail("offset-not-end-of-confirmed-event", fmt.Sprintf("descriptor offset %d after a confirmation, the confirmed event ended at %d", off, o.conf))
	}
}
func (o *oracle) persisted(off, lss int64) {
	o.persLss = lss
	if off > o.conf {
		o.fail("persisted-offset-beyond-confirmed", fmt.Sprintf("scanner.json holds offset %d, confirmed up to %d", off, o.conf))
	} else if !o.ends[off] {
		o.fail("persisted-offset-not-a-confirmed-record-end", fmt.Sprintf("scanner.json holds offset %d which is neither the start offset nor the end of a confirmed event", off))
	}
	o.pers, o.persConf, o.havePers = off, o.conf, true
	// the saved descriptor describes the file the current worker has open
	o.savedId, o.diskStale = o.workerId, o.wfile != nil
}
func (o *oracle) replaced(id int, d *driver) {
	if d.phase != "down" && o.wfile == nil {
		o.wfile = append([]byte{}, d.content...) // the running worker keeps the old file open
	}
	o.diskStale, o.curId = true, id
}

// restartAt: a worker starts reading the file at the path from off
func (o *oracle) restartAt(off int64) {
	o.wfile = nil
	o.workerId = o.curId
	o.pos, o.conf = off, off
	o.ends = map[int64]bool{off: true}
	o.awaiting = false
	if !o.diskStale {
		o.persConf = off
	}
}
func (o *oracle) restart(off int64, d *driver) {
	switch {
	case !o.havePers:
		if off != 0 {
			o.fail("restart-offset-without-saved-state", fmt.Sprintf("no state was ever saved, restart at %d", off))
		}
	case o.diskStale: // the saved state describes a file that has been replaced since
		if off != 0 {
			cls := "replaced-file-not-read-from-start"
			if o.curId == o.savedId && int64(len(d.content)) >= o.pers && int64(len(d.content)) >= o.persLss {
				// the one case the scanner cannot tell from growth: same inode, not shorter than what it had seen
				cls = "replaced-file-same-inode-not-shorter-not-read-from-start"
			}
			o.fail(cls, fmt.Sprintf("the file was replaced after the last save; the new file is read from offset %d", off))
		}
	case d.graceful:
		if off < o.conf {
			o.fail("graceful-restart-resends-confirmed-bytes", fmt.Sprintf("restart at %d, bytes up to %d were confirmed before the stop", off, o.conf))
		} else if off > o.conf {
			o.fail("restart-skips-bytes", fmt.Sprintf("restart at %d, only bytes up to %d were confirmed", off, o.conf))
		}
	default:
		if off > o.conf {
			o.fail("restart-skips-bytes", fmt.Sprintf("restart at %d, only bytes up to %d were confirmed", off, o.conf))
		} else if off < o.persConf {
			o.fail("crash-restart-resends-more-than-since-last-save", fmt.Sprintf("restart at %d, %d was confirmed at the last save", off, o.persConf))
		}
		if off < o.conf {
			o.resend = true
		}
	}
	o.restartAt(off)
}
func (o *oracle) fresh(d *driver) {
	// sync started a worker for a new file identity: it must read the new file from its beginning
	off, _ := d.descOffset()
	if off != 0 {
		o.fail("replaced-file-not-read-from-start", fmt.Sprintf("the worker for the new file starts at offset %d", off))
	}
	o.restartAt(off)
}
func (o *oracle) sleep(partial bool, d *driver) {
	f := o.file(d)
	if partial || (len(f) > 0 && f[len(f)-1] != '\n') {
		// the end of the file fell inside a line (partial: the sleep was the one inside readLine, which the
		// repaired reader no longer has)
		o.top().partial = true
	}
	if o.awaiting || o.wfile != nil {
		return
	}
	// the worker is idle and has seen the whole file: everything up to the last complete line must have
	// been handed over; what may remain is an unterminated last line
	last := int64(bytes.LastIndexByte(f, '\n') + 1)
	switch {
	case o.pos < last:
		n := bytes.Count(f[o.pos:last], []byte{'\n'})
		switch {
		case n >= d.rp.Rpe: // a full batch must have been handed over whatever follows it
			o.fail("full-batch-not-handed-over", fmt.Sprintf("%d complete lines in bytes %d..%d are read but not handed over, EventMaxRecords=%d", n, o.pos, last, d.rp.Rpe))
		case partial:
			o.fail("complete-lines-withheld-behind-partial-line", fmt.Sprintf("the worker waits for the rest of a partial line; complete lines in bytes %d..%d are read but not handed over", o.pos, last))
		default:
			o.fail("bytes-not-handed-over-at-idle-eof", fmt.Sprintf("the worker idles at EOF, handed over up to %d, complete lines up to %d", o.pos, last))
		}
	}
	// (an unterminated tail may grow beyond the record limit when it arrives in pieces shorter than the
	// buffer: the reader only splits when one ReadSlice fills the buffer; the property does not bound it)
}

func minI(a, b int64) int64 {
	if a < b {
		return a
	}
	return b
}
func trunc(b []byte) []byte {
	if len(b) > 40 {
		return append(append([]byte{}, b[:37]...), '.', '.', '.')
	}
	return b
}

// ---------- generation ----------
var alphabet = []byte("abcdefghijklmnopqrstuvwxyz0123456789 \t\r=\"{}\x00\x01\x7f\x80\xfe\xff")

// lineGen makes the lines of one case
type lineGen struct {
	format string
	n      int
	last   []byte
}

// refLog is the harness' own reading of a k8json/logfmt line: if the line is exactly
//   {"log":<string>,"stream":"<letters>","time":"<date>"}\n
// it returns the value of the log member (escapes \" \\ \/ \b \f \n \r \t \u00XX; anything else as it stands),
// else false: such a line (or piece of a line) is shipped as it stands. It shares no code with encoding/json;
// the generator makes only lines of this shape and lines that are no JSON at all.
func refLog(line []byte) ([]byte, bool) {
	const pre = `{"log":"`
	if !bytes.HasPrefix(line, []byte(pre)) {
		return nil, false
	}
	var out []byte
	i := len(pre)
	closed := false
	for ; i < len(line) && !closed; i++ {
		c := line[i]
		switch {
		case c == '"':
			closed = true
		case c == '\\':
			i++
			if i >= len(line) {
				return nil, false
			}
			switch line[i] {
			case '"', '\\', '/':
				out = append(out, line[i])
			case 'b':
				out = append(out, 8)
			case 'f':
				out = append(out, 12)
			case 'n':
				out = append(out, '\n')
			case 'r':
				out = append(out, '\r')
			case 't':
				out = append(out, '\t')
			case 'u':
				if i+4 >= len(line) {
					return nil, false
				}
				v, err := strconv.ParseUint(string(line[i+1:i+5]), 16, 16)
				if err != nil || v > 0x7f {
					return nil, false
				}
				out = append(out, byte(v))
				i += 4
			default:
				return nil, false
			}
		case c < 0x20:
			return nil, false
		default:
			out = append(out, c)
		}
	}
	if !closed {
		return nil, false
	}
	rest := line[i:]
	const mid = `,"stream":"`
	if !bytes.HasPrefix(rest, []byte(mid)) {
		return nil, false
	}
	rest = rest[len(mid):]
	k := 0
	for k < len(rest) && rest[k] >= 'a' && rest[k] <= 'z' {
		k++
	}
	const tm = `","time":"`
	if !bytes.HasPrefix(rest[k:], []byte(tm)) {
		return nil, false
	}
	rest = rest[k+len(tm):]
	k = 0
	for k < len(rest) && (rest[k] >= '0' && rest[k] <= '9' || rest[k] == '-' || rest[k] == ':' || rest[k] == '.' || rest[k] == 'T' || rest[k] == 'Z') {
		k++
	}
	if k < 20 || string(rest[k:]) != "\"}\n" {
		return nil, false
	}
	return out, true
}

var msgAlphabet = []byte("abcdefghijklmnopqrstuvwxyz0123456789 =\"\\/{}:,\t")

// jsonString encodes a message the way a container runtime would: quotes, backslashes and control bytes
// escaped, everything else (valid UTF-8) as it is
func jsonString(msg []byte) []byte {
	out := []byte{'"'}
	for _, c := range msg {
		switch {
		case c == '"':
			out = append(out, '\\', '"')
		case c == '\\':
			out = append(out, '\\', '\\')
		case c == '\n':
			out = append(out, '\\', 'n')
		case c == '\t':
			out = append(out, '\\', 't')
		case c < 0x20:
			out = append(out, []byte(fmt.Sprintf("\\u%04x", c))...)
		default:
			out = append(out, c)
		}
	}
	return append(out, '"')
}

func (g *lineGen) line(r *Rng, B int) []byte {
	if g.format != "k8json" && g.format != "logfmt" {
		if g.last != nil && r.Chance(1, 10) {
			// equal neighbours: the line before once more, or a prefix of it as a line of its own
			l := g.last
			if r.Chance(1, 2) && len(l) > 2 {
				l = append(append([]byte{}, l[:r.Range(1, len(l)-1)]...), '\n')
			}
			return l
		}
		l := genLine(r, B)
		if r.Chance(1, 16) {
			l = genLongLine(r, B)
		}
		g.last = l
		if g.format == "text" && r.Chance(1, 4) && len(l)+27 < B {
			// a line that begins with a date in the configured format (the record's time is not part of C17)
			l = append([]byte(fmt.Sprintf("%02d/Mar/2019:10:%02d:%02d +0000 ", 1+r.Intn(28), r.Intn(60), r.Intn(60))), l...)
		}
		return l
	}
	g.n++
	if r.Chance(1, 12) {
		// a line that is no JSON at all (a panic message, a tool that writes plain text into the container log)
		return append(append([]byte("# "), r.Bytes(r.Range(0, 30), []byte("abcdefghij klmnop{}\":,"))...), '\n')
	}
	var msg []byte
	switch x := r.Intn(12); {
	case x < 1:
	case x >= 10: // a line longer than the record limit (docker cuts messages at 16 KiB, the envelope comes on top)
		msg = r.Bytes(r.PickInt(B-60, B-1, B, B+1, 2*B), []byte("abcdefghijklmnopqrstuvwxyz \"\\"))
	case x < 3 && g.format == "logfmt":
		msg = []byte(fmt.Sprintf("level=%s msg=\"%s\" n=%d", r.PickStr("info", "warn", "error"), r.Bytes(r.Range(0, 12), []byte("abc xyz")), g.n))
	case x < 5:
		msg = append(r.Bytes(r.Range(1, 30), msgAlphabet), '\n') // the usual shape: the log line with its newline
	case x < 6:
		msg = []byte("h\xc3\xa9llo w\xc3\xb6rld \xe2\x82\xac \x01\x02")
	default:
		msg = r.Bytes(r.Range(1, 40), msgAlphabet)
	}
	l := append([]byte(`{"log":`), jsonString(msg)...)
	l = append(l, []byte(fmt.Sprintf(`,"stream":"%s","time":"2019-03-%02dT10:%02d:%02d.%09dZ"}`, r.PickStr("stdout", "stderr"), 1+r.Intn(28), r.Intn(60), r.Intn(60), g.n))...)
	l = append(l, '\n')
	if got, ok := refLog(l); !ok || !bytes.Equal(got, msg) {
		panic(fmt.Sprintf("generator and reference reading disagree on %q", l))
	}
	return l
}

func genLine(r *Rng, B int) []byte {
	var n int
	switch x := r.Intn(100); {
	case x < 12:
		n = 0
	case x < 40:
		n = r.Range(1, 12)
	case x < 50:
		n = B - 2 // B-1 with the newline
	case x < 62:
		n = B - 1 // exactly B with the newline
	case x < 74:
		n = B // B+1 with the newline: split
	case x < 84:
		n = B + 1
	case x < 92:
		n = 2*B + 2 // 2B+3 with the newline
	default:
		n = r.Range(13, B-3)
	}
	l := r.Bytes(n, alphabet)
	return append(l, '\n')
}

// lengths (with the newline) at multiples of the buffer
func genLongLine(r *Rng, B int) []byte {
	n := r.PickInt(2*B-1, 2*B, 2*B+1, 3*B, 3*B+1)
	return append(r.Bytes(n-1, alphabet), '\n')
}

// genText: lines; cut into pieces anywhere; maybe no final newline
func (g *lineGen) pieces(r *Rng, B, budget int) [][]byte {
	var text []byte
	for len(text) < budget {
		l := g.line(r, B)
		if len(text)+len(l) > budget+B {
			break
		}
		text = append(text, l...)
		if r.Chance(1, 6) {
			break
		}
	}
	if len(text) > 0 && r.Chance(1, 4) {
		// (for k8json/logfmt the line then joins the next one: not a json log line, shipped as it stands)
		text = text[:len(text)-1-r.Intn(minInt(len(text), 3))]
	}
	var pieces [][]byte
	for len(text) > 0 {
		n := len(text)
		switch x := r.Intn(10); {
		case x < 3:
			n = r.Range(1, minInt(len(text), 5))
		case x < 7:
			n = r.Range(1, len(text))
		}
		pieces = append(pieces, text[:n])
		text = text[n:]
	}
	return pieces
}

func minInt(a, b int) int {
	if a < b {
		return a
	}
	return b
}

func (d *driver) draw(r *Rng, pending *[][]byte, total *int) Op {
	op := d.draw1(r, pending, total)
	if op.K == "replace" && d.rp.Base > 0 {
		return Op{K: "sync"} // (a new file would not begin with the hole)
	}
	return op
}

func (d *driver) draw1(r *Rng, pending *[][]byte, total *int) Op {
	nextPiece := func() (Op, bool) {
		if len(*pending) == 0 && *total < 420 {
			*pending = d.gen.pieces(r, d.rp.B, r.PickInt(20, 80, 150, 260))
		}
		if len(*pending) == 0 {
			return Op{}, false
		}
		p := (*pending)[0]
		*pending = (*pending)[1:]
		*total += len(p)
		return Op{K: "app", Data: p}, true
	}
	x := r.Intn(100)
	if d.rp.Aux && r.Chance(1, 12) {
		if r.Chance(1, 5) {
			return Op{K: "aux", Mode: "truncate", Data: r.Bytes(r.Range(0, 5), alphabet)}
		}
		return Op{K: "aux", Data: r.Bytes(r.Range(1, 30), alphabet)}
	}
	if d.phase != "down" {
		// a rotation that has not been noticed yet: the sync is likely to come next
		if d.rotPending && r.Chance(3, 5) {
			return Op{K: "sync"}
		}
		// the worker of the rotated-away file, while there is one
		if (d.ophase == "sleep" || d.ophase == "wait") && r.Chance(2, 5) {
			switch {
			case r.Chance(1, 12):
				return Op{K: r.PickStr("orun", "oconfirm")} // possibly not enabled
			case d.ophase == "sleep":
				return Op{K: "orun"}
			default:
				return Op{K: "oconfirm"}
			}
		}
	}
	switch d.phase {
	case "sleep":
		switch {
		case x < 40:
			if op, ok := nextPiece(); ok {
				return op
			}
			return Op{K: "run"}
		case x < 78:
			return Op{K: "run"}
		case x < 84:
			return Op{K: "persist"}
		case x < 89:
			return Op{K: "stop"}
		case x < 93:
			return Op{K: "crash"}
		case x < 95:
			return Op{K: "confirm"} // nothing to confirm, or a stale event
		case x < 97:
			return Op{K: "sync"}
		default: // while the scanner runs only rename+create (always a new identity)
			*pending = nil // what was still to be appended belonged to the old file
			return Op{K: "replace", Mode: "rename", Data: flat(d.gen.pieces(r, d.rp.B, r.PickInt(10, 60, 200)))}
		}
	case "wait":
		switch {
		case x < 55:
			return Op{K: "confirm"}
		case x < 75:
			if op, ok := nextPiece(); ok {
				return op
			}
			return Op{K: "confirm"}
		case x < 83:
			return Op{K: "persist"}
		case x < 88:
			return Op{K: "stop"}
		case x < 93:
			return Op{K: "crash"}
		case x < 94:
			return Op{K: "sync"}
		case x < 98: // rotated while a confirmation is pending
			*pending = nil // what was still to be appended belonged to the old file
			return Op{K: "replace", Mode: "rename", Data: flat(d.gen.pieces(r, d.rp.B, r.PickInt(10, 60, 200)))}
		default:
			return Op{K: r.PickStr("run", "orun", "oconfirm")} // not enabled
		}
	default: // down
		switch {
		case x < 65:
			return Op{K: "start"}
		case x < 85:
			if op, ok := nextPiece(); ok {
				return op
			}
			return Op{K: "start"}
		case x < 90:
			return Op{K: "confirm"} // stale event, if any
		case x < 93:
			return Op{K: "persist"} // no process: nothing happens
		default:
			*pending = nil
			return Op{K: "replace", Mode: r.PickStr("rename", "delete", "truncate"), Data: flat(d.gen.pieces(r, d.rp.B, r.PickInt(10, 60, 200, 300)))}
		}
	}
}

func flat(p [][]byte) []byte {
	var b []byte
	for _, x := range p {
		b = append(b, x...)
	}
	return b
}

func runCase(rp *Replay, r *Rng) (*Case, error) {
	if rp.Stream == "collector" {
		return runCollectorCase(rp, r)
	}
	dir := TempDir("c17")
	defer RemoveAll(dir)
	if err := os.MkdirAll(filepath.Join(dir, "logs"), 0755); err != nil {
		return nil, err
	}
	d := &driver{rp: rp, dir: dir, path: filepath.Join(dir, "logs", "app.log"), tag: map[string]int{}, phase: "down", gen: &lineGen{format: rp.Format}}
	d.o.ends = map[int64]bool{0: true}
	if rp.Base > 0 {
		// a hole of Base bytes, then the content; the saved state says the hole is shipped
		f, err := os.OpenFile(d.path, os.O_WRONLY|os.O_CREATE|os.O_EXCL, 0644)
		if err == nil {
			err = f.Truncate(rp.Base)
			f.Close()
		}
		if err == nil {
			err = d.writeFile(rp.Init, true)
		}
		if err == nil {
			err = os.MkdirAll(filepath.Join(dir, "state"), 0755)
		}
		if err != nil {
			return nil, err
		}
		st, _ := json.Marshal([]pdesc{{Id: d.fileId(), File: d.path, Offset: rp.Base, LastSeenSize: rp.Base + int64(len(rp.Init))}})
		if err := ioutil.WriteFile(filepath.Join(dir, "state", "scanner.json"), st, 0644); err != nil {
			return nil, err
		}
	} else if err := d.writeFile(rp.Init, false); err != nil {
		return nil, err
	}
	if rp.Aux {
		if err := ioutil.WriteFile(d.auxPath(), []byte("a line of another file\n"), 0644); err != nil {
			return nil, err
		}
		// two more matches of the include pattern that the scan has to step over, sorted before the path: a
		// directory and a link to nothing
		if err := os.Mkdir(filepath.Join(dir, "logs", "aaa.log"), 0755); err != nil {
			return nil, err
		}
		if err := os.Symlink(filepath.Join(dir, "logs", "nowhere"), filepath.Join(dir, "logs", "aab.log")); err != nil {
			return nil, err
		}
		// ... and a file the configuration excludes
		if err := ioutil.WriteFile(filepath.Join(dir, "logs", "aac.log"), []byte("excluded\n"), 0644); err != nil {
			return nil, err
		}
	}
	d.content = append([]byte{}, rp.Init...)
	d.idOf(d.fileId())
	if r == nil {
		for _, op := range rp.Ops {
			if !d.apply(op) {
				break
			}
		}
	} else {
		var pending [][]byte
		total := len(rp.Init)
		ops := []Op{{K: "start"}}
		for i := 0; i < rp.steps; i++ {
			var op Op
			if i < len(ops) {
				op = ops[i]
			} else {
				op = d.draw(r, &pending, &total)
			}
			rp.Ops = append(rp.Ops, op)
			if !d.apply(op) {
				break
			}
		}
	}
	d.stopProc(true)
	if d.err != nil {
		return nil, d.err
	}
	tags := []string{"fmt:" + rp.Format, fmt.Sprintf("B:%d", rp.B), fmt.Sprintf("rpe:%d", rp.Rpe)}
	for k := range d.tag {
		tags = append(tags, k)
	}
	if d.o.split {
		tags = append(tags, "buffer-full-split")
	}
	if d.o.partial {
		tags = append(tags, "eof-inside-line")
	}
	if d.o.resend {
		tags = append(tags, "resend-after-crash")
	}
	if d.o.proj {
		tags = append(tags, "json-line-projected")
	}
	if d.o.raw && (rp.Format == "k8json" || rp.Format == "logfmt") {
		tags = append(tags, "json-line-shipped-raw")
	}
	if rp.Aux {
		tags = append(tags, "second-descriptor")
	}
	if rp.Base > 0 {
		tags = append(tags, fmt.Sprintf("base:2^%d", map[bool]int{true: 31, false: 32}[rp.Base < 1<<32-1]))
	}
	return &Case{
		Coq:        GApp("KCase", GNat(rp.B), GNat(rp.Rpe), GBytes(rp.Init), GList(d.kevs), GList(d.obs)),
		Replay:     rp,
		NonTrivial: d.o.split || d.o.partial || d.tag["rotated-worker-returned"] > 0,
		Oracle:     d.o.viol,
		Stream:     "scanner",
		Tags:       tags,
	}, nil
}

// corpus: deterministic cases that always run first (the witnesses of the refuted statements of props/C17.v
// that can be scheduled from outside, and the worked example)
func corpus() []*Replay {
	bs := func(s string) []byte { return []byte(s) }
	b16 := strings.Repeat("b", 64)
	return []*Replay{
		// witness of C17_up_to_last_line_looping_reader_refuted: with the reader the code had, "aaa\n" was read but
		// withheld while "bb" was not terminated; the code hands "aaa\n" over and then sleeps on "bb" alone
		{B: 64, Rpe: 2, Format: "pure", Init: bs("aaa\nbb"), Ops: []Op{{K: "start"}, {K: "run"}, {K: "app", Data: bs("\n")}, {K: "run"}, {K: "confirm"}}},
		// C17_rotate_same_inode_refuted: same inode, new content at least as long as the saved offset
		{B: 64, Rpe: 1, Format: "pure", Init: bs("ab\n"), Ops: []Op{{K: "start"}, {K: "confirm"}, {K: "persist"}, {K: "stop"},
			{K: "replace", Mode: "truncate", Data: bs("xyz\nq\n")}, {K: "start"}, {K: "confirm"}}},
		// same inode but shorter than the saved offset: read from 0
		{B: 64, Rpe: 1, Format: "text", Init: bs("abcdef\n"), Ops: []Op{{K: "start"}, {K: "confirm"}, {K: "stop"},
			{K: "replace", Mode: "truncate", Data: bs("x\n")}, {K: "start"}, {K: "confirm"}}},
		// same inode, longer than the saved Offset but shorter than the saved LastSeenSize (the collector lagged behind
		// when the file was truncated and rewritten): read from 0
		{B: 64, Rpe: 1, Format: "pure", Init: bs("aaaa\nbbbb\n"), Ops: []Op{{K: "start"}, {K: "confirm"}, {K: "stop"},
			{K: "replace", Mode: "truncate", Data: bs("xxxxxx\n")}, {K: "start"}, {K: "confirm"}}},
		// same inode, not shorter than the saved LastSeenSize (stale: the growth was shipped between two scans) but
		// shorter than the saved Offset: read from 0
		{B: 64, Rpe: 1, Format: "pure", Init: bs("aa\n"), Ops: []Op{{K: "start"}, {K: "confirm"}, {K: "app", Data: bs("bbbb\n")}, {K: "run"}, {K: "confirm"}, {K: "stop"},
			{K: "replace", Mode: "truncate", Data: bs("cccc\n")}, {K: "start"}, {K: "confirm"}}},
		// split line, EOF inside a line, stalled consumer, persist, crash, re-send after the restart
		{B: 64, Rpe: 2, Format: "pure", Init: bs("a\n" + b16 + "b"), Ops: []Op{{K: "start"}, {K: "app", Data: bs("c\nd")}, {K: "confirm"}, {K: "persist"},
			{K: "run"}, {K: "app", Data: bs("\n")}, {K: "run"}, {K: "crash"}, {K: "start"}, {K: "confirm"}, {K: "stop"}, {K: "start"}}},
		// rotation by rename+create while running and while down
		{B: 64, Rpe: 3, Format: "pure", Init: bs("one\ntwo\n"), Ops: []Op{{K: "start"}, {K: "confirm"}, {K: "persist"}, {K: "replace", Mode: "rename", Data: bs("new1\nnew2\n")},
			{K: "sync"}, {K: "confirm"}, {K: "persist"}, {K: "stop"}, {K: "replace", Mode: "rename", Data: bs("third\n")}, {K: "start"}, {K: "confirm"}}},
		// rotated away while the worker is behind (a confirmation pending) and the lines left are not a multiple of
		// EventMaxRecords: the old file is drained, its last partial batch included, then its worker returns
		{B: 64, Rpe: 2, Format: "pure", Init: bs("l1\nl2\nl3\nl4\nl5\n"), Ops: []Op{{K: "start"}, {K: "replace", Mode: "rename", Data: bs("new\n")}, {K: "sync"},
			{K: "oconfirm"}, {K: "oconfirm"}, {K: "oconfirm"}, {K: "confirm"}, {K: "orun"}, {K: "oconfirm"}, {K: "persist"}}},
		// witness of C17_drain_stale_check_refuted: "b\n" appended and the file rotated away while the worker sleeps at
		// EOF; the worker reads once more before it returns
		{B: 64, Rpe: 2, Format: "pure", Init: bs("a\n"), Ops: []Op{{K: "start"}, {K: "confirm"}, {K: "app", Data: bs("b\n")}, {K: "replace", Mode: "rename", Data: bs("n\n")},
			{K: "sync"}, {K: "orun"}, {K: "oconfirm"}, {K: "confirm"}}},
		// the same while the worker waits for the confirmation of its EOF flush
		{B: 64, Rpe: 3, Format: "text", Init: bs("a\n"), Ops: []Op{{K: "start"}, {K: "app", Data: bs("b\nc")}, {K: "replace", Mode: "rename", Data: bs("n\n")},
			{K: "sync"}, {K: "oconfirm"}, {K: "oconfirm"}, {K: "orun"}, {K: "confirm"}, {K: "run"}}},
		// k8json and logfmt: the payload is the log member of the line
		{B: 256, Rpe: 2, Format: "k8json", Init: bs(`{"log":"one\n","stream":"stdout","time":"2019-03-01T10:00:00.000000001Z"}` + "\n" + `{"log":"tw\"o\\","stream":"stderr","time":"2019-03-01T10:00:01Z"}` + "\n" + `{"log":"thr`),
			Ops: []Op{{K: "start"}, {K: "confirm"}, {K: "app", Data: bs(`ee","stream":"stdout","time":"2019-03-01T10:00:02Z"}` + "\n")}, {K: "run"}, {K: "confirm"}, {K: "persist"}, {K: "stop"}, {K: "start"}}},
		{B: 256, Rpe: 1, Format: "logfmt", Init: bs(`{"log":"level=info msg=\"hi\" n=1","stream":"stdout","time":"2019-03-01T10:00:00Z"}` + "\n"),
			Ops: []Op{{K: "start"}, {K: "confirm"}, {K: "crash"}, {K: "start"}, {K: "confirm"}}},
		// a k8s json log line longer than the record limit (the reader splits it, no piece is JSON) and a line that is no
		// JSON at all: shipped as they stand, the lines around them as their log members
		{B: 64, Rpe: 10, Format: "k8json", Init: bs(`{"log":"before\n","stream":"o","time":"2019-03-01T10:00:00Z"}` + "\n" + `{"log":"` + strings.Repeat("x", 60) + `\n","stream":"stdout","time":"2019-03-01T10:00:00Z"}` + "\n" + `{"log":"after\n","stream":"o","time":"2019-03-01T10:00:01Z"}` + "\n"),
			Ops: []Op{{K: "start"}, {K: "confirm"}, {K: "persist"}, {K: "stop"}, {K: "start"}}},
		{B: 256, Rpe: 2, Format: "logfmt", Init: bs(`{"log":"level=info n=1","stream":"stdout","time":"2019-03-01T10:00:00Z"}` + "\n" + "panic: not json at all\n" + `{"log":"level=warn n=2","stream":"stderr","time":"2019-03-01T10:00:01Z"}` + "\n"),
			Ops: []Op{{K: "start"}, {K: "confirm"}, {K: "confirm"}, {K: "sync"}, {K: "persist"}}},
		// the batch size at the number of lines: exactly EventMaxRecords lines, one more, and 1001 lines with 1000 per event
		{B: 64, Rpe: 3, Format: "pure", Init: bs("a\nb\nc\n"), Ops: []Op{{K: "start"}, {K: "confirm"}, {K: "run"}, {K: "stop"}, {K: "start"}}},
		{B: 64, Rpe: 3, Format: "text", Init: bs("a\nb\nc\nd\n"), Ops: []Op{{K: "start"}, {K: "confirm"}, {K: "confirm"}, {K: "run"}, {K: "persist"}}},
		{B: 64, Rpe: 1000, Format: "pure", Init: bs(strings.Repeat("\n", 1001)), Ops: []Op{{K: "start"}, {K: "confirm"}, {K: "confirm"}, {K: "persist"}}},
		// lines at multiples of the buffer: 2B-1, 2B, 2B+1, 3B bytes with the newline; equal neighbours, a prefix of the
		// neighbour as a line, CR LF
		{B: 64, Rpe: 2, Format: "pure", Init: bs(strings.Repeat("p", 126) + "\n" + strings.Repeat("q", 127) + "\n" + strings.Repeat("r", 128) + "\n" + strings.Repeat("s", 191) + "\n"),
			Ops: []Op{{K: "start"}, {K: "confirm"}, {K: "confirm"}, {K: "confirm"}, {K: "confirm"}, {K: "confirm"}, {K: "confirm"}, {K: "persist"}}},
		{B: 64, Rpe: 3, Format: "text", Init: bs("same\nsame\nsam\nsame\r\n\r\nsame\n"), Ops: []Op{{K: "start"}, {K: "confirm"}, {K: "crash"}, {K: "start"}, {K: "confirm"}, {K: "confirm"}}},
		// same inode, new content exactly as long as the saved Offset and LastSeenSize (the boundary of both size tests)
		{B: 64, Rpe: 1, Format: "pure", Init: bs("ab\n"), Ops: []Op{{K: "start"}, {K: "confirm"}, {K: "stop"},
			{K: "replace", Mode: "truncate", Data: bs("xy\n")}, {K: "start"}, {K: "app", Data: bs("z\n")}, {K: "run"}, {K: "confirm"}}},
		// a second descriptor: aux.log is scanned, merged (grows, is cut back), saved and loaded beside the path's
		{B: 64, Rpe: 2, Format: "pure", Aux: true, Init: bs("one\ntwo\nthree\n"), Ops: []Op{{K: "start"}, {K: "aux", Data: bs("more\n")}, {K: "persist"}, {K: "sync"}, {K: "persist"},
			{K: "confirm"}, {K: "aux", Mode: "truncate"}, {K: "stop"}, {K: "start"}, {K: "confirm"}, {K: "persist"}, {K: "sync"}, {K: "persist"}, {K: "crash"}, {K: "start"}}},
		// offsets beyond 2^31 and 2^32: the file begins with a hole that the saved state says is shipped
		{B: 64, Rpe: 1, Format: "pure", Base: 1<<31 - 2, Init: bs("abc\ndef\n"), Ops: []Op{{K: "start"}, {K: "confirm"}, {K: "persist"}, {K: "confirm"}, {K: "stop"}, {K: "app", Data: bs("g\n")}, {K: "start"}, {K: "confirm"}}},
		{B: 64, Rpe: 2, Format: "text", Base: 1<<32 - 3, Init: bs("abc\ndef\nghi"), Ops: []Op{{K: "start"}, {K: "confirm"}, {K: "crash"}, {K: "start"}, {K: "confirm"}, {K: "sync"}, {K: "persist"}}},
		// rewritten in place with SHORTER content while the worker runs (copytruncate; the identity stays): the sync
		// replaces the descriptor and tells the worker to stop at EOF, the worker returns, the next sync starts its
		// successor at 0: the new content is shipped from its beginning, once. Worker at EOF (asleep) ...
		{B: 64, Rpe: 2, Format: "pure", Init: bs("aaaa\nbbbb\n"), Ops: []Op{{K: "start"}, {K: "confirm"}, {K: "replace", Mode: "truncate", Data: bs("x\n")}, {K: "sync"},
			{K: "run"}, {K: "run"}, {K: "sync"}, {K: "confirm"}, {K: "persist"}, {K: "app", Data: bs("y\n")}, {K: "run"}, {K: "confirm"}}},
		// ... and behind (a confirmation pending; what it had read into its buffer is still shipped)
		{B: 64, Rpe: 1, Format: "text", Init: bs("l1\nl2\nl3\n"), Ops: []Op{{K: "start"}, {K: "replace", Mode: "truncate", Data: bs("x\n")}, {K: "sync"}, {K: "confirm"}, {K: "confirm"},
			{K: "confirm"}, {K: "run"}, {K: "sync"}, {K: "confirm"}, {K: "stop"}, {K: "start"}}},
		// collector.Run as the consumer: a write the server fails is written again (witness of
		// C17_stored_confirm_on_server_error_refuted), a communication error too; stop, append, start
		{Stream: "collector", B: 64, Rpe: 2, Format: "pure", Init: bs("1\n2\n3\n4\n"), Ops: []Op{{K: "start"}, {K: "write", Mode: "ok"}, {K: "write", Mode: "srv"},
			{K: "write", Mode: "comm"}, {K: "write", Mode: "ok"}, {K: "stop"}, {K: "app", Data: bs("5\n6\n")}, {K: "start"}, {K: "write", Mode: "ok"}, {K: "run"}}},
		// stopped during the pause after a failed write: the event is sent again by the next process
		{Stream: "collector", B: 64, Rpe: 1000, Format: "text", Init: bs("x\ny\n"), Ops: []Op{{K: "start"}, {K: "write", Mode: "srv"}, {K: "stop"}, {K: "start"}, {K: "write", Mode: "ok"}, {K: "crash"}, {K: "start"}, {K: "write", Mode: "ok"}}},
	}
}

const rule = "stream scanner: a file of lines (lengths 0, 1-12, B-1, B, B+1, B+2, 2B+3 incl. newline; bytes incl. NUL, 0x80-0xff, CR, quotes; final newline missing in 1/4; k8json/logfmt: JSON log lines, 1/6 of them longer than B, 1/12 lines that are no JSON) appended in 1-20 pieces cut anywhere, scheduled online against the real scanner: append / release the sleeping worker / confirm or hold the event / persist / graceful stop / crash / start / replace the file (rename+create live - also while a confirmation is pending -, or delete+create / truncate while down) / sync / release or confirm the worker of the rotated-away file; B in {64,65,100,128} (256, 128 for k8json, logfmt), EventMaxRecords in {1,2,3,1000}, formats pure, text, k8json, logfmt. stream collector: the real collector.Run with a stand-in api.Client: append / release the worker / answer the pending Write call (stored, communication error, failed by the server) / graceful stop / crash / start. Also: equal and prefix neighbours, lines of 2B-1..3B+1 bytes, EventMaxRecords at the number of lines (-1, 0, +1), k8json/logfmt lines longer than B and lines that are no JSON, a second descriptor without a worker (aux.log) in 1/4, a hole of 2^31-2 / 2^32-3 / 2^32+1 bytes before the content in 1/10. A case is non-trivial iff a record was split by the full buffer, an EOF fell inside a line, a worker drained a rotated-away file, or a Write failed; distinct by the Coq case term"

func main() {
	Main("C17", "C17K", func(c *Ctx) error {
		if c.Replay != nil {
			var rp Replay
			if err := FromJSON(c.Replay, &rp); err != nil {
				return err
			}
			cs, err := runCase(&rp, nil)
			if err != nil {
				return err
			}
			c.Add(*cs)
			return c.Finish(rule)
		}
		n := c.N(380)
		nc := c.N(90)
		type job struct {
			rp *Replay
			r  *Rng
		}
		var jobs []job
		for _, rp := range corpus() {
			jobs = append(jobs, job{rp, nil})
		}
		for i := 0; i < n; i++ {
			r := c.Rng.Fork()
			rp := &Replay{B: r.PickInt(64, 64, 64, 65, 100, 128), Rpe: r.PickInt(1, 2, 3, 3, 1000), Format: r.PickStr("pure", "pure", "pure", "text", "text", "k8json", "logfmt"), steps: r.PickInt(12, 25, 40, 60)}
			if rp.Format == "k8json" || rp.Format == "logfmt" {
				rp.B = r.PickInt(256, 256, 128)
			}
			if r.Chance(1, 2) {
				rp.Init = flat((&lineGen{format: rp.Format}).pieces(r, rp.B, r.PickInt(10, 100, 200)))
			}
			if nl := bytes.Count(rp.Init, []byte{'\n'}); nl > 0 && r.Chance(1, 5) {
				rp.Rpe = nl + r.PickInt(-1, 0, 0, 1) // the batch size at the number of lines there are: one less, exactly, one more
				if rp.Rpe < 1 {
					rp.Rpe = 1
				}
			}
			rp.Aux = r.Chance(1, 4)
			if r.Chance(1, 10) {
				rp.Base = int64(r.PickInt(1<<31-2, 1<<32-3, 1<<32+1))
			}
			jobs = append(jobs, job{rp, r})
		}
		for i := 0; i < nc; i++ {
			r := c.Rng.Fork()
			rp := &Replay{Stream: "collector", B: r.PickInt(64, 64, 65), Rpe: r.PickInt(1, 2, 3, 1000), Format: r.PickStr("pure", "text"), steps: r.PickInt(12, 25, 40)}
			if r.Chance(2, 3) {
				rp.Init = flat((&lineGen{format: rp.Format}).pieces(r, rp.B, r.PickInt(10, 100, 200)))
			}
			jobs = append(jobs, job{rp, r})
		}
		res := make([]*Case, len(jobs))
		errs := make([]error, len(jobs))
		Parallel(len(jobs), 12, func(i int) { res[i], errs[i] = runCase(jobs[i].rp, jobs[i].r) })
		for i := range jobs {
			if errs[i] != nil {
				return errs[i]
			}
			if jobs[i].r == nil {
				res[i].Stream = "corpus"
			}
			c.Add(*res[i])
		}
		return c.Finish(rule)
	})
}
