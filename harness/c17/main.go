// C17 harness: drives the real scanner (pkg/scanner Scanner, worker, parser.pureParser/lineParser,
// lineReader over bufio, desc/mergeDescs/persistState/loadState; through the hook VC17Start, which is
// Scanner.Run with the sync ticker replaced by explicit Sync() calls) on a file in a scratch
// directory that grows in generated pieces. The harness is the consumer of the scanner's channel.
//
// No real-time sleeps: every utils.Sleep(ctx, d) of a worker (1 s at EOF with nothing to send; a sleep inside
// readLine, which the reader had before its repair, is told apart and recorded as such) calls ctx.Done(); the harness' context recognises that caller and
// blocks the call until the driver releases it, then returns a closed channel. A worker is therefore
// always blocked in exactly one place the driver controls: a sleep, the channel send (the driver
// receives at once), or waitConfirm (the driver holds the event), and every step is deterministic.
package main

import (
	"bytes"
	"context"
	"encoding/json"
	"fmt"
	"io/ioutil"
	"os"
	"path/filepath"
	"runtime"
	"strconv"
	"strings"
	"sync"
	"sync/atomic"
	"time"

	"github.com/logrange/logrange/pkg/scanner"
	"github.com/logrange/logrange/pkg/scanner/model"
	"github.com/logrange/logrange/pkg/scanner/parser"
	"github.com/logrange/logrange/pkg/storage"
	"github.com/logrange/logrange/pkg/utils"
	. "verifharness/common"
)

const waitDeadline = 40 * time.Second

// Op is one step of the schedule (the K-level events of kcheck/C17K.v)
type Op struct {
	K    string `json:"k"`              // app | run | confirm | persist | stop | crash | start | replace | sync
	Data []byte `json:"data,omitempty"` // app, replace: bytes
	Mode string `json:"mode,omitempty"` // replace: rename | delete
}

type Replay struct {
	B      int    `json:"recordMaxSize"`
	Rpe    int    `json:"eventMaxRecords"`
	Format string `json:"format"` // pure | text
	Init   []byte `json:"init"`   // content of the file when the scanner first starts
	Ops    []Op   `json:"ops"`
	steps  int
}

// ---------- the context ----------
type sleepReq struct {
	gid     int64
	partial bool
	release chan struct{}
}
type sctx struct {
	cancelCh chan struct{}
	once     sync.Once
	sleepCh  chan *sleepReq
}

var closedCh = func() chan struct{} { c := make(chan struct{}); close(c); return c }()

func newSctx() *sctx { return &sctx{cancelCh: make(chan struct{}), sleepCh: make(chan *sleepReq)} }
func (c *sctx) cancel() { c.once.Do(func() { close(c.cancelCh) }) }
func (c *sctx) Deadline() (time.Time, bool)       { return time.Time{}, false }
func (c *sctx) Value(key interface{}) interface{} { return nil }
func (c *sctx) Err() error {
	select {
	case <-c.cancelCh:
		return context.Canceled
	default:
		return nil
	}
}

// sleepCaller: 0 = Done() was not called by utils.Sleep; 1 = utils.Sleep called by lineReader.readLine;
// 2 = utils.Sleep called from elsewhere (worker.sendOrSleep)
func sleepCaller() int {
	pcs := make([]uintptr, 16)
	n := runtime.Callers(3, pcs)
	fr := runtime.CallersFrames(pcs[:n])
	inSleep := false
	for {
		f, more := fr.Next()
		if inSleep {
			if strings.Contains(f.Function, "readLine") {
				return 1
			}
			return 2
		}
		if strings.HasSuffix(f.Function, "pkg/utils.Sleep") {
			inSleep = true
		}
		if !more {
			break
		}
	}
	if inSleep {
		return 2
	}
	return 0
}

func curGid() int64 {
	var buf [64]byte
	n := runtime.Stack(buf[:], false)
	f := strings.Fields(string(buf[:n]))
	if len(f) < 2 {
		return -1
	}
	id, _ := strconv.ParseInt(f[1], 10, 64)
	return id
}

func (c *sctx) Done() <-chan struct{} {
	k := sleepCaller()
	if k == 0 {
		return c.cancelCh
	}
	req := &sleepReq{gid: curGid(), partial: k == 1, release: make(chan struct{})}
	select {
	case c.sleepCh <- req:
	case <-c.cancelCh:
		return c.cancelCh
	}
	select {
	case <-req.release:
	case <-c.cancelCh:
		return c.cancelCh
	}
	return closedCh
}

// ---------- storage wrapper: a crashed process' writes no longer reach the disk ----------
type cstorage struct {
	inner  storage.Storage
	frozen int32
}

func (s *cstorage) ReadData(key string) ([]byte, error) { return s.inner.ReadData(key) }
func (s *cstorage) WriteData(key string, val []byte) error {
	if atomic.LoadInt32(&s.frozen) != 0 {
		return fmt.Errorf("process is gone")
	}
	return s.inner.WriteData(key, val)
}

// ---------- driver ----------
type proc struct {
	h      *scanner.VC17Handle
	ctx    *sctx
	st     *cstorage
	events chan *model.Event
}

type driver struct {
	rp      *Replay
	dir     string // scratch dir: logs/ (watched), state/ (scanner.json)
	path    string
	content []byte // content of the file at the path
	p       *proc
	// where the current worker is blocked
	phase   string             // sleep | wait | down
	held    *sleepReq          // phase sleep
	hev     *model.Event       // an event received and not confirmed yet (may be stale after a stop)
	orphans map[int64]bool     // goroutine ids of workers the scanner has replaced
	parked  []*sleepReq        // sleeping orphans (held until the end)
	seen    map[int64]bool
	graceful bool              // phase down: after a stop (true) or a crash (false)

	ids  []string // file identities seen, in order
	kevs []string
	obs  []string
	o    oracle
	tag  map[string]int
	err  error
}

func (d *driver) cfg() *scanner.Config {
	return &scanner.Config{
		IncludePaths:           []string{filepath.Join(d.dir, "logs", "*.log")},
		SyncWorkersIntervalSec: 3600,
		StateStoreIntervalSec:  3600,
		RecordMaxSizeBytes:     d.rp.B,
		EventMaxRecords:        d.rp.Rpe,
		Schemas: []*scanner.SchemaConfig{{PathMatcher: "/*(?:.+/)*(?P<file>.+\\..+)", DataFormat: parser.DataFormat(d.rp.Format),
			Meta: scanner.Meta{Tags: map[string]string{"file": "{file}"}}}},
	}
}

func (d *driver) start() error {
	inner, err := storage.NewStorage(&storage.Config{Type: storage.TypeFile, Location: filepath.Join(d.dir, "state")})
	if err != nil {
		return err
	}
	p := &proc{ctx: newSctx(), st: &cstorage{inner: inner}, events: make(chan *model.Event)}
	h, err := scanner.VC17Start(p.ctx, d.cfg(), p.st, p.events)
	if err != nil {
		p.ctx.cancel()
		return err
	}
	p.h = h
	d.p = p
	d.orphans, d.seen, d.parked, d.held = map[int64]bool{}, map[int64]bool{}, nil, nil
	return nil
}

func (d *driver) stopProc(crash bool) {
	p := d.p
	if p == nil {
		return
	}
	if crash {
		atomic.StoreInt32(&p.st.frozen, 1)
	}
	p.ctx.cancel()
	done := make(chan struct{})
	go func() { p.h.Wait(); close(done) }()
	select {
	case <-done:
	case <-time.After(waitDeadline):
		d.err = fmt.Errorf("scanner did not shut down")
	}
	d.held, d.parked = nil, nil
	d.p = nil
}

func (d *driver) other(code int, class, detail string) {
	d.obs = append(d.obs, GApp("OOther", GNat(code)))
	d.o.fail(class, detail)
}

func gRecs(recs [][]byte) string {
	it := make([]string, len(recs))
	for i, r := range recs {
		it[i] = GBytes(r)
	}
	return GList(it)
}

// settle waits until the current worker blocks again: in a sleep (recorded as OSleep) or offering an
// event (received at once, recorded as OHand). Returns false on a deviation.
func (d *driver) settle(where string) bool {
	for {
		select {
		case req := <-d.p.ctx.sleepCh:
			if d.orphans[req.gid] {
				d.parked = append(d.parked, req) // a replaced worker stays asleep
				continue
			}
			d.seen[req.gid] = true
			d.held = req
			d.phase = "sleep"
			d.obs = append(d.obs, GApp("OSleep", GBool(req.partial)))
			d.o.sleep(req.partial, d)
			return true
		case ev := <-d.p.events:
			var recs [][]byte
			for _, r := range ev.Records {
				recs = append(recs, append([]byte{}, r.Data...))
			}
			d.hev = ev
			d.phase = "wait"
			d.obs = append(d.obs, GApp("OHand", gRecs(recs)))
			d.o.hand(recs, ev.File, d)
			return true
		case <-time.After(waitDeadline):
			d.other(9, "worker-stuck", "the worker neither slept nor offered an event within the deadline "+where)
			return false
		}
	}
}

type pdesc struct {
	Id           string
	File         string
	Offset       int64
	LastSeenSize int64
}

func (d *driver) readPersisted() (*pdesc, error) {
	data, err := ioutil.ReadFile(filepath.Join(d.dir, "state", "scanner.json"))
	if err != nil {
		if os.IsNotExist(err) {
			return nil, nil
		}
		return nil, err
	}
	var l []pdesc
	if err := json.Unmarshal(data, &l); err != nil {
		return nil, fmt.Errorf("scanner.json: %v (%q)", err, data)
	}
	if len(l) != 1 {
		return nil, fmt.Errorf("scanner.json: %d descriptors (%q)", len(l), data)
	}
	return &l[0], nil
}

func (d *driver) descOffset() (int64, bool) {
	ds := d.p.h.Descs()
	if len(ds) != 1 {
		return 0, false
	}
	return ds[0][2].(int64), true
}

// idOf numbers the file identities in the order they are first seen (the first file is 0)
func (d *driver) idOf(real string) int {
	for i, x := range d.ids {
		if x == real {
			return i
		}
	}
	d.ids = append(d.ids, real)
	return len(d.ids) - 1
}

func (d *driver) fileId() string {
	info, err := os.Stat(d.path)
	if err != nil {
		return ""
	}
	return utils.GetFileId(d.path, info)
}

func (d *driver) writeFile(data []byte, appendTo bool) error {
	fl := os.O_WRONLY | os.O_CREATE
	if appendTo {
		fl |= os.O_APPEND
	} else {
		fl |= os.O_EXCL
	}
	f, err := os.OpenFile(d.path, fl, 0644)
	if err != nil {
		return err
	}
	if _, err := f.Write(data); err != nil {
		f.Close()
		return err
	}
	return f.Close()
}

// apply executes one op; false ends the case
func (d *driver) apply(op Op) bool {
	switch op.K {
	case "app":
		if err := d.writeFile(op.Data, true); err != nil {
			d.err = err
			return false
		}
		d.content = append(d.content, op.Data...)
		d.kevs = append(d.kevs, GApp("KAppend", GBytes(op.Data)))
	case "run":
		d.kevs = append(d.kevs, "KRun")
		if d.phase != "sleep" {
			return true
		}
		req := d.held
		d.held = nil
		close(req.release)
		return d.settle("after a sleep")
	case "confirm":
		d.kevs = append(d.kevs, "KConfirm")
		if d.hev == nil {
			d.obs = append(d.obs, GApp("OConf", GBool(false)))
			return true
		}
		ev := d.hev
		d.hev = nil
		ok := ev.Confirm()
		d.obs = append(d.obs, GApp("OConf", GBool(ok)))
		d.o.confirm(ok)
		if !ok {
			return true
		}
		if d.phase != "wait" {
			d.other(3, "confirm-accepted-by-nobody", "Confirm() returned true although no worker was waiting")
			return false
		}
		// the worker sets the offset and reads on; when it blocks again the offset is set
		n0 := len(d.obs)
		if !d.settle("after a confirmation") {
			return false
		}
		off, okd := d.descOffset()
		if !okd {
			d.other(4, "descriptor-missing", "no single descriptor after a confirmation")
			return false
		}
		rest := append([]string{}, d.obs[n0:]...)
		d.obs = append(append(d.obs[:n0], GApp("OOffset", GNat(int(off)))), rest...)
		d.o.offset(off)
	case "persist":
		d.kevs = append(d.kevs, "KPersist")
		if d.phase == "down" {
			return true
		}
		if err := d.p.h.Persist(); err != nil {
			d.err = err
			return false
		}
		pd, err := d.readPersisted()
		if err != nil || pd == nil {
			d.err = fmt.Errorf("persisted state unreadable: %v", err)
			return false
		}
		d.obs = append(d.obs, GApp("OPersisted", GNat(int(pd.Offset)), GNat(int(pd.LastSeenSize))))
		d.o.persisted(pd.Offset, pd.LastSeenSize)
	case "stop":
		d.kevs = append(d.kevs, "KStop")
		if d.phase == "down" {
			return true
		}
		d.stopProc(false)
		if d.err != nil {
			return false
		}
		d.obs = append(d.obs, "OExit")
		pd, err := d.readPersisted()
		if err != nil || pd == nil {
			d.err = fmt.Errorf("persisted state unreadable after the stop: %v", err)
			return false
		}
		d.obs = append(d.obs, GApp("OPersisted", GNat(int(pd.Offset)), GNat(int(pd.LastSeenSize))))
		d.o.persisted(pd.Offset, pd.LastSeenSize)
		d.phase, d.graceful = "down", true
	case "crash":
		d.kevs = append(d.kevs, "KCrash")
		if d.phase == "down" {
			return true
		}
		d.stopProc(true)
		if d.err != nil {
			return false
		}
		d.obs = append(d.obs, "OExit")
		d.phase, d.graceful = "down", false
	case "start":
		d.kevs = append(d.kevs, "KStart")
		if d.phase != "down" {
			return true
		}
		if err := d.start(); err != nil {
			d.err = err
			return false
		}
		off, ok := d.descOffset()
		if !ok {
			d.other(4, "descriptor-missing", "no single descriptor after the start")
			return false
		}
		d.obs = append(d.obs, GApp("ORestart", GNat(int(off))))
		d.o.restart(off, d)
		return d.settle("after the start")
	case "replace":
		old := d.fileId()
		if op.Mode == "rename" {
			if err := os.Rename(d.path, d.path+".1"); err != nil {
				d.err = err
				return false
			}
		} else if op.Mode == "truncate" { // the same file rewritten (copytruncate): the identity stays
			if err := os.Truncate(d.path, 0); err != nil {
				d.err = err
				return false
			}
		} else if err := os.Remove(d.path); err != nil {
			d.err = err
			return false
		}
		if err := d.writeFile(op.Data, op.Mode == "truncate"); err != nil {
			d.err = err
			return false
		}
		id := d.idOf(d.fileId())
		d.o.replaced(id, d)
		d.content = append([]byte{}, op.Data...)
		d.kevs = append(d.kevs, GApp("KReplace", GNat(id), GBytes(op.Data)))
		switch {
		case id == d.idOf(old):
			d.tag["replace-same-id"]++
		case id < len(d.ids)-1:
			d.tag["replace-earlier-id"]++
		default:
			d.tag["replace-new-id"]++
		}
	case "sync":
		d.kevs = append(d.kevs, "KSync")
		if d.phase == "down" {
			return true
		}
		before := map[string]bool{}
		for _, w := range d.p.h.Workers() {
			before[w.Id] = true
		}
		d.p.h.Sync()
		fresh := false
		for _, w := range d.p.h.Workers() {
			if !before[w.Id] && w.Current {
				fresh = true
			}
		}
		if fresh {
			for g := range d.seen {
				d.orphans[g] = true
			}
			d.seen = map[int64]bool{}
			d.hev = nil // an event of the replaced worker can no longer be confirmed to the current one
			if d.held != nil {
				d.parked = append(d.parked, d.held)
				d.held = nil
			}
			off, _ := d.descOffset()
			d.obs = append(d.obs, GApp("OFresh", GNat(int(off))))
			d.o.fresh(d)
			return d.settle("after a sync that started a worker")
		}
	default:
		d.err = fmt.Errorf("unknown op %q", op.K)
		return false
	}
	return true
}

// ---------- the oracle: the property on the observations (independent of the Coq model) ----------
type oracle struct {
	viol *Violation
	// the file the current worker reads and where the hand-over stream stands in it
	wfile    []byte // nil: the worker reads the file at the path (d.content)
	pos      int64  // end of the last handed-over record
	conf     int64  // end of the last confirmed event
	ends     map[int64]bool
	pers     int64 // last persisted offset
	persLss  int64 // ... and LastSeenSize
	persConf int64 // conf when it was written
	havePers bool
	awaiting bool // an event is handed over and not confirmed
	diskStale bool // the file at the path was replaced after the last save
	curId     int  // identity of the file at the path
	savedId   int  // identity of the file the last save described
	workerId  int  // identity of the file the current worker has open
	split, partial, resend bool
}

// classes of recorded findings: they must not hide another violation of the same case
// (complete-lines-withheld-behind-partial-line was one until readLine was repaired; it is a violation now)
var recorded = map[string]bool{"replaced-file-same-inode-not-shorter-not-read-from-start": true}

func (o *oracle) fail(class, detail string) {
	if o.viol == nil || (recorded[o.viol.Class] && !recorded[class]) {
		o.viol = &Violation{Class: class, Detail: detail}
	}
}
func (o *oracle) file(d *driver) []byte {
	if o.wfile != nil {
		return o.wfile
	}
	return d.content
}
func (o *oracle) hand(recs [][]byte, file string, d *driver) {
	f := o.file(d)
	B := d.rp.B
	for _, r := range recs {
		end := o.pos + int64(len(r))
		if end > int64(len(f)) || !bytes.Equal(f[o.pos:end], r) {
			o.fail("payload-not-the-next-file-bytes", fmt.Sprintf("record %q handed over at offset %d; the file continues with %q", trunc(r), o.pos, trunc(f[minI(o.pos, int64(len(f))):minI(end, int64(len(f)))])))
			return
		}
		if len(r) == 0 || (r[len(r)-1] != '\n' && len(r) < B) {
			o.fail("record-neither-line-nor-full-buffer", fmt.Sprintf("record %q at offset %d does not end a line and is shorter than the record limit %d", trunc(r), o.pos, B))
		}
		if r[len(r)-1] != '\n' {
			o.split = true
		}
		o.pos = end
	}
	if file != d.path {
		o.fail("event-file-name", file)
	}
	o.awaiting = true
}
func (o *oracle) confirm(ok bool) {
	if ok {
		o.conf = o.pos
		o.ends[o.conf] = true
		o.awaiting = false
	}
}
func (o *oracle) offset(off int64) {
	if off != o.conf {
		o.fail("offset-not-end-of-confirmed-event", fmt.Sprintf("descriptor offset %d after a confirmation, the confirmed event ended at %d", off, o.conf))
	}
}
func (o *oracle) persisted(off, lss int64) {
	o.persLss = lss
	if off > o.conf {
		o.fail("persisted-offset-beyond-confirmed", fmt.Sprintf("scanner.json holds offset %d, confirmed up to %d", off, o.conf))
	} else if !o.ends[off] {
		o.fail("persisted-offset-not-a-confirmed-record-end", fmt.Sprintf("scanner.json holds offset %d which is neither the start offset nor the end of a confirmed event", off))
	}
	o.pers, o.persConf, o.havePers = off, o.conf, true
	// the saved descriptor describes the file the current worker has open
	o.savedId, o.diskStale = o.workerId, o.wfile != nil
}
func (o *oracle) replaced(id int, d *driver) {
	if d.phase != "down" && o.wfile == nil {
		o.wfile = append([]byte{}, d.content...) // the running worker keeps the old file open
	}
	o.diskStale, o.curId = true, id
}

// restartAt: a worker starts reading the file at the path from off
func (o *oracle) restartAt(off int64) {
	o.wfile = nil
	o.workerId = o.curId
	o.pos, o.conf = off, off
	o.ends = map[int64]bool{off: true}
	o.awaiting = false
	if !o.diskStale {
		o.persConf = off
	}
}
func (o *oracle) restart(off int64, d *driver) {
	switch {
	case !o.havePers:
		if off != 0 {
			o.fail("restart-offset-without-saved-state", fmt.Sprintf("no state was ever saved, restart at %d", off))
		}
	case o.diskStale: // the saved state describes a file that has been replaced since
		if off != 0 {
			cls := "replaced-file-not-read-from-start"
			if o.curId == o.savedId && int64(len(d.content)) >= o.pers && int64(len(d.content)) >= o.persLss {
				// the one case the scanner cannot tell from growth: same inode, not shorter than what it had seen
				cls = "replaced-file-same-inode-not-shorter-not-read-from-start"
			}
			o.fail(cls, fmt.Sprintf("the file was replaced after the last save; the new file is read from offset %d", off))
		}
	case d.graceful:
		if off < o.conf {
			o.fail("graceful-restart-resends-confirmed-bytes", fmt.Sprintf("restart at %d, bytes up to %d were confirmed before the stop", off, o.conf))
		} else if off > o.conf {
			o.fail("restart-skips-bytes", fmt.Sprintf("restart at %d, only bytes up to %d were confirmed", off, o.conf))
		}
	default:
		if off > o.conf {
			o.fail("restart-skips-bytes", fmt.Sprintf("restart at %d, only bytes up to %d were confirmed", off, o.conf))
		} else if off < o.persConf {
			o.fail("crash-restart-resends-more-than-since-last-save", fmt.Sprintf("restart at %d, %d was confirmed at the last save", off, o.persConf))
		}
		if off < o.conf {
			o.resend = true
		}
	}
	o.restartAt(off)
}
func (o *oracle) fresh(d *driver) {
	// sync started a worker for a new file identity: it must read the new file from its beginning
	off, _ := d.descOffset()
	if off != 0 {
		o.fail("replaced-file-not-read-from-start", fmt.Sprintf("the worker for the new file starts at offset %d", off))
	}
	o.restartAt(off)
}
func (o *oracle) sleep(partial bool, d *driver) {
	f := o.file(d)
	if partial || (len(f) > 0 && f[len(f)-1] != '\n') {
		// the end of the file fell inside a line (partial: the sleep was the one inside readLine, which the
		// repaired reader no longer has)
		o.partial = true
	}
	if o.awaiting || o.wfile != nil {
		return
	}
	// the worker is idle and has seen the whole file: everything up to the last complete line must have
	// been handed over; what may remain is an unterminated last line
	last := int64(bytes.LastIndexByte(f, '\n') + 1)
	switch {
	case o.pos < last:
		n := bytes.Count(f[o.pos:last], []byte{'\n'})
		switch {
		case n >= d.rp.Rpe: // a full batch must have been handed over whatever follows it
			o.fail("full-batch-not-handed-over", fmt.Sprintf("%d complete lines in bytes %d..%d are read but not handed over, EventMaxRecords=%d", n, o.pos, last, d.rp.Rpe))
		case partial:
			o.fail("complete-lines-withheld-behind-partial-line", fmt.Sprintf("the worker waits for the rest of a partial line; complete lines in bytes %d..%d are read but not handed over", o.pos, last))
		default:
			o.fail("bytes-not-handed-over-at-idle-eof", fmt.Sprintf("the worker idles at EOF, handed over up to %d, complete lines up to %d", o.pos, last))
		}
	}
	// (an unterminated tail may grow beyond the record limit when it arrives in pieces shorter than the
	// buffer: the reader only splits when one ReadSlice fills the buffer; the property does not bound it)
}

func minI(a, b int64) int64 {
	if a < b {
		return a
	}
	return b
}
func trunc(b []byte) []byte {
	if len(b) > 40 {
		return append(append([]byte{}, b[:37]...), '.', '.', '.')
	}
	return b
}

// ---------- generation ----------
var alphabet = []byte("abcdefghijklmnopqrstuvwxyz0123456789 \t\r=\"{}\x00\x01\x7f\x80\xfe\xff")

func genLine(r *Rng, B int) []byte {
	var n int
	switch x := r.Intn(100); {
	case x < 12:
		n = 0
	case x < 40:
		n = r.Range(1, 12)
	case x < 50:
		n = B - 2 // B-1 with the newline
	case x < 62:
		n = B - 1 // exactly B with the newline
	case x < 74:
		n = B // B+1 with the newline: split
	case x < 84:
		n = B + 1
	case x < 92:
		n = 2*B + 2 // 2B+3 with the newline
	default:
		n = r.Range(13, B-3)
	}
	l := r.Bytes(n, alphabet)
	return append(l, '\n')
}

// genText: lines; cut into pieces anywhere; maybe no final newline
func genPieces(r *Rng, B, budget int) [][]byte {
	var text []byte
	for len(text) < budget {
		l := genLine(r, B)
		if len(text)+len(l) > budget+B {
			break
		}
		text = append(text, l...)
		if r.Chance(1, 6) {
			break
		}
	}
	if len(text) > 0 && r.Chance(1, 4) {
		text = text[:len(text)-1-r.Intn(minInt(len(text), 3))]
	}
	var pieces [][]byte
	for len(text) > 0 {
		n := len(text)
		switch x := r.Intn(10); {
		case x < 3:
			n = r.Range(1, minInt(len(text), 5))
		case x < 7:
			n = r.Range(1, len(text))
		}
		pieces = append(pieces, text[:n])
		text = text[n:]
	}
	return pieces
}

func minInt(a, b int) int {
	if a < b {
		return a
	}
	return b
}

func (d *driver) draw(r *Rng, pending *[][]byte, total *int) Op {
	nextPiece := func() (Op, bool) {
		if len(*pending) == 0 && *total < 420 {
			*pending = genPieces(r, d.rp.B, r.PickInt(20, 80, 150, 260))
		}
		if len(*pending) == 0 {
			return Op{}, false
		}
		p := (*pending)[0]
		*pending = (*pending)[1:]
		*total += len(p)
		return Op{K: "app", Data: p}, true
	}
	x := r.Intn(100)
	switch d.phase {
	case "sleep":
		switch {
		case x < 40:
			if op, ok := nextPiece(); ok {
				return op
			}
			return Op{K: "run"}
		case x < 78:
			return Op{K: "run"}
		case x < 84:
			return Op{K: "persist"}
		case x < 89:
			return Op{K: "stop"}
		case x < 93:
			return Op{K: "crash"}
		case x < 95:
			return Op{K: "confirm"} // nothing to confirm, or a stale event
		case x < 97:
			return Op{K: "sync"}
		default: // while the scanner runs only rename+create (always a new identity)
			return Op{K: "replace", Mode: "rename", Data: flat(genPieces(r, d.rp.B, r.PickInt(10, 60, 200)))}
		}
	case "wait":
		switch {
		case x < 55:
			return Op{K: "confirm"}
		case x < 75:
			if op, ok := nextPiece(); ok {
				return op
			}
			return Op{K: "confirm"}
		case x < 83:
			return Op{K: "persist"}
		case x < 88:
			return Op{K: "stop"}
		case x < 93:
			return Op{K: "crash"}
		case x < 96:
			return Op{K: "sync"}
		default:
			return Op{K: "run"} // not enabled
		}
	default: // down
		switch {
		case x < 65:
			return Op{K: "start"}
		case x < 85:
			if op, ok := nextPiece(); ok {
				return op
			}
			return Op{K: "start"}
		case x < 90:
			return Op{K: "confirm"} // stale event, if any
		case x < 93:
			return Op{K: "persist"} // no process: nothing happens
		default:
			return Op{K: "replace", Mode: r.PickStr("rename", "delete", "truncate"), Data: flat(genPieces(r, d.rp.B, r.PickInt(10, 60, 200, 300)))}
		}
	}
}

func flat(p [][]byte) []byte {
	var b []byte
	for _, x := range p {
		b = append(b, x...)
	}
	return b
}

func runCase(rp *Replay, r *Rng) (*Case, error) {
	dir := TempDir("c17")
	defer RemoveAll(dir)
	if err := os.MkdirAll(filepath.Join(dir, "logs"), 0755); err != nil {
		return nil, err
	}
	d := &driver{rp: rp, dir: dir, path: filepath.Join(dir, "logs", "app.log"), tag: map[string]int{}, phase: "down"}
	d.o.ends = map[int64]bool{0: true}
	if err := d.writeFile(rp.Init, false); err != nil {
		return nil, err
	}
	d.content = append([]byte{}, rp.Init...)
	d.idOf(d.fileId())
	if r == nil {
		for _, op := range rp.Ops {
			if !d.apply(op) {
				break
			}
		}
	} else {
		var pending [][]byte
		total := len(rp.Init)
		ops := []Op{{K: "start"}}
		for i := 0; i < rp.steps; i++ {
			var op Op
			if i < len(ops) {
				op = ops[i]
			} else {
				op = d.draw(r, &pending, &total)
			}
			rp.Ops = append(rp.Ops, op)
			if !d.apply(op) {
				break
			}
		}
	}
	d.stopProc(true)
	if d.err != nil {
		return nil, d.err
	}
	tags := []string{"fmt:" + rp.Format, fmt.Sprintf("B:%d", rp.B), fmt.Sprintf("rpe:%d", rp.Rpe)}
	for k := range d.tag {
		tags = append(tags, k)
	}
	if d.o.split {
		tags = append(tags, "buffer-full-split")
	}
	if d.o.partial {
		tags = append(tags, "eof-inside-line")
	}
	if d.o.resend {
		tags = append(tags, "resend-after-crash")
	}
	return &Case{
		Coq:        GApp("KCase", GNat(rp.B), GNat(rp.Rpe), GBytes(rp.Init), GList(d.kevs), GList(d.obs)),
		Replay:     rp,
		NonTrivial: d.o.split || d.o.partial,
		Oracle:     d.o.viol,
		Stream:     "scanner",
		Tags:       tags,
	}, nil
}

// corpus: deterministic cases that always run first (the witnesses of the refuted statements of props/C17.v
// that can be scheduled from outside, and the worked example)
func corpus() []*Replay {
	bs := func(s string) []byte { return []byte(s) }
	b16 := strings.Repeat("b", 64)
	return []*Replay{
		// witness of C17_up_to_last_line_looping_reader_refuted: with the reader the code had, "aaa\n" was read but
		// withheld while "bb" was not terminated; the code hands "aaa\n" over and then sleeps on "bb" alone
		{B: 64, Rpe: 2, Format: "pure", Init: bs("aaa\nbb"), Ops: []Op{{K: "start"}, {K: "run"}, {K: "app", Data: bs("\n")}, {K: "run"}, {K: "confirm"}}},
		// C17_rotate_same_inode_refuted: same inode, new content at least as long as the saved offset
		{B: 64, Rpe: 1, Format: "pure", Init: bs("ab\n"), Ops: []Op{{K: "start"}, {K: "confirm"}, {K: "persist"}, {K: "stop"},
			{K: "replace", Mode: "truncate", Data: bs("xyz\nq\n")}, {K: "start"}, {K: "confirm"}}},
		// same inode but shorter than the saved offset: read from 0
		{B: 64, Rpe: 1, Format: "text", Init: bs("abcdef\n"), Ops: []Op{{K: "start"}, {K: "confirm"}, {K: "stop"},
			{K: "replace", Mode: "truncate", Data: bs("x\n")}, {K: "start"}, {K: "confirm"}}},
		// split line, EOF inside a line, stalled consumer, persist, crash, re-send after the restart
		{B: 64, Rpe: 2, Format: "pure", Init: bs("a\n" + b16 + "b"), Ops: []Op{{K: "start"}, {K: "app", Data: bs("c\nd")}, {K: "confirm"}, {K: "persist"},
			{K: "run"}, {K: "app", Data: bs("\n")}, {K: "run"}, {K: "crash"}, {K: "start"}, {K: "confirm"}, {K: "stop"}, {K: "start"}}},
		// rotation by rename+create while running and while down
		{B: 64, Rpe: 3, Format: "pure", Init: bs("one\ntwo\n"), Ops: []Op{{K: "start"}, {K: "confirm"}, {K: "persist"}, {K: "replace", Mode: "rename", Data: bs("new1\nnew2\n")},
			{K: "sync"}, {K: "confirm"}, {K: "persist"}, {K: "stop"}, {K: "replace", Mode: "rename", Data: bs("third\n")}, {K: "start"}, {K: "confirm"}}},
	}
}

const rule = "a file of lines (lengths 0, 1-12, B-1, B, B+1, B+2, 2B+3 incl. newline; bytes incl. NUL, 0x80-0xff, CR, quotes; final newline missing in 1/4) appended in 1-20 pieces cut anywhere, scheduled online against the real scanner: append / release the sleeping worker / confirm or hold the event / persist / graceful stop / crash / start / replace the file (rename+create or delete+create, live or while down) / sync; B in {64,65,100}, EventMaxRecords in {1,2,3,1000}, formats pure and text; a case is non-trivial iff a record was split by the full buffer or an EOF fell inside a line; distinct by the Coq case term"

func main() {
	Main("C17", "C17K", func(c *Ctx) error {
		if c.Replay != nil {
			var rp Replay
			if err := FromJSON(c.Replay, &rp); err != nil {
				return err
			}
			cs, err := runCase(&rp, nil)
			if err != nil {
				return err
			}
			c.Add(*cs)
			return c.Finish(rule)
		}
		n := c.N(450)
		type job struct {
			rp *Replay
			r  *Rng
		}
		var jobs []job
		for _, rp := range corpus() {
			jobs = append(jobs, job{rp, nil})
		}
		for i := 0; i < n; i++ {
			r := c.Rng.Fork()
			rp := &Replay{B: r.PickInt(64, 64, 64, 65, 100), Rpe: r.PickInt(1, 2, 3, 3, 1000), Format: r.PickStr("pure", "pure", "text"), steps: r.PickInt(12, 25, 40, 60)}
			if r.Chance(1, 2) {
				rp.Init = flat(genPieces(r, rp.B, r.PickInt(10, 100, 200)))
			}
			jobs = append(jobs, job{rp, r})
		}
		res := make([]*Case, len(jobs))
		errs := make([]error, len(jobs))
		Parallel(len(jobs), 12, func(i int) { res[i], errs[i] = runCase(jobs[i].rp, jobs[i].r) })
		for i := range jobs {
			if errs[i] != nil {
				return errs[i]
			}
			if jobs[i].r == nil {
				res[i].Stream = "corpus"
			}
			c.Add(*res[i])
		}
		return c.Finish(rule)
	})
}
