package main

import (
	"fmt"
	"strings"

	. "verifharness/common"
)

// ---------------------------------------------------------------- events

// Ev is a log event as the property sees it: fields are (name, value) pairs in order, names may repeat.
type Ev struct {
	Ts     int64       `json:"ts"`
	Msg    string      `json:"msg"`
	Fields [][2]string `json:"f,omitempty"`
}

var fieldNames = []string{"a", "b", "name", "Name", "x.y", "k-1", "lvl", "n_2"}
var words = []string{"error", "Error", "ERR", "warn", "db", "timeout", "user=7", "abc", "a/b", "x*y", "[q]", "", "z", "Zeta", "日本", "a b", "10", "9", "-5"}

func genWord(r *Rng) string { return words[r.Intn(len(words))] }

func genMsg(r *Rng) string {
	n := r.PickInt(0, 1, 1, 2, 3, 4)
	ws := make([]string, n)
	for i := range ws {
		ws[i] = genWord(r)
	}
	return strings.Join(ws, r.PickStr(" ", " ", "", "-", "/"))
}

func genEvent(r *Rng, tsPool []int64) Ev {
	e := Ev{Ts: tsPool[r.Intn(len(tsPool))] + int64(r.PickInt(-1, 0, 0, 1)), Msg: genMsg(r)}
	nf := r.PickInt(0, 1, 2, 2, 3, 4)
	for i := 0; i < nf; i++ {
		name := fieldNames[r.Intn(len(fieldNames))]
		if i > 0 && r.Chance(1, 5) {
			name = e.Fields[r.Intn(i)][0] // duplicate field name
		}
		e.Fields = append(e.Fields, [2]string{name, r.PickStr(genWord(r), genMsg(r), "")})
	}
	return e
}

func (e Ev) slice() []string {
	var s []string
	for _, kv := range e.Fields {
		s = append(s, kv[0], kv[1])
	}
	return s
}

// ---------------------------------------------------------------- expressions

type gen struct {
	r       *Rng
	tsPool  []int64
	kinds   map[string]bool // connective kinds used: "and","or","not","paren","func"
	edge    bool            // allow constructs that are expected to be rejected
	nolike  bool
	maxNest int
	evs     []Ev // the events the expression will be applied to: values are drawn from them
}

// a (name, value) pair that occurs in one of the events
func (g *gen) someField() (string, string, bool) {
	if len(g.evs) == 0 {
		return "", "", false
	}
	e := g.evs[g.r.Intn(len(g.evs))]
	if len(e.Fields) == 0 {
		return "", "", false
	}
	kv := e.Fields[g.r.Intn(len(e.Fields))]
	return kv[0], kv[1], true
}

func (g *gen) kw(s string) string {
	switch g.r.Intn(6) {
	case 0:
		return strings.ToLower(s)
	case 1:
		return strings.Title(strings.ToLower(s))
	case 2:
		// random per-letter case
		b := []byte(s)
		for i := range b {
			if g.r.Chance(1, 2) {
				b[i] = strings.ToLower(string(b[i]))[0]
			}
		}
		return string(b)
	}
	return s
}

func (g *gen) sp() string {
	return g.r.PickStr(" ", " ", " ", "  ", "\t", "\n", " \n ")
}

// optional blank (where the lexer does not need one)
func (g *gen) osp() string {
	return g.r.PickStr("", "", " ", " ", "  ")
}

func (g *gen) quote(v string) string {
	switch g.r.Intn(8) {
	case 0:
		if !strings.ContainsAny(v, "'\\\n") {
			return "'" + v + "'"
		}
	case 1:
		// escape-heavy double quoted form
		var sb strings.Builder
		sb.WriteByte('"')
		for _, c := range []byte(v) {
			switch {
			case c == '"' || c == '\\':
				sb.WriteByte('\\')
				sb.WriteByte(c)
			case c < 0x80 && g.r.Chance(1, 3):
				fmt.Fprintf(&sb, "\\x%02x", c)
			case c < 0x80 && g.r.Chance(1, 4):
				fmt.Fprintf(&sb, "\\%03o", c)
			case c < 0x80 && g.r.Chance(1, 4):
				fmt.Fprintf(&sb, "\\u%04x", c)
			default:
				sb.WriteByte(c)
			}
		}
		sb.WriteByte('"')
		return sb.String()
	}
	var sb strings.Builder
	sb.WriteByte('"')
	for _, c := range []byte(v) {
		switch c {
		case '"', '\\':
			sb.WriteByte('\\')
			sb.WriteByte(c)
		case '\n':
			sb.WriteString("\\n")
		case '\t':
			sb.WriteString("\\t")
		default:
			sb.WriteByte(c)
		}
	}
	sb.WriteByte('"')
	return sb.String()
}

func bareOK(v string) bool {
	if v == "" {
		return false
	}
	for i, c := range []byte(v) {
		al := c >= 'a' && c <= 'z' || c >= 'A' && c <= 'Z' || c == '_'
		if i == 0 && !al {
			return false
		}
		if !(al || c >= '0' && c <= '9' || c == '.' || c == '/' || c == '-' || c == ':') {
			return false
		}
	}
	switch strings.ToUpper(v) {
	case "SELECT", "DESCRIBE", "TRUNCATE", "DELETE", "DRYRUN", "BEFORE", "MAXSIZE", "MINSIZE", "MAXDBSIZE", "FROM", "RANGE", "WHERE", "PARTITIONS", "PARTITION", "PIPES", "SHOW", "CREATE", "PIPE", "POSITION", "LIMIT", "OFFSET", "AND", "OR", "LIKE", "CONTAINS", "PREFIX", "SUFFIX", "NOT":
		return false
	}
	return true
}

func isNum(v string) bool {
	if v == "" {
		return false
	}
	for i, c := range []byte(v) {
		if c == '-' && i == 0 && len(v) > 1 {
			continue
		}
		if c < '0' || c > '9' {
			return false
		}
	}
	return true
}

func (g *gen) value(v string) string {
	if (bareOK(v) || isNum(v)) && g.r.Chance(1, 3) {
		return v
	}
	return g.quote(v)
}

var likePats = []string{"*", "err*", "*r", "?rror", "[a-z]*", "[^a]*", "*b*", "a?b", "*/*", "\\*", "x\\*y", "[E-e]rr*", "*[0-9]", "abc", ""}
var badPats = []string{"[a", "a[", "[", "[]", "a\\", "[a-]", "[-a]", "*[", "[^", "[a-z"}

func (g *gen) strValue(op string) string {
	if strings.ToUpper(op) == "LIKE" {
		if g.edge && g.r.Chance(1, 6) {
			return g.r.PickStr(badPats...)
		}
		if g.r.Chance(1, 4) {
			return genWord(g.r) + "*"
		}
		return g.r.PickStr(likePats...)
	}
	w := genWord(g.r)
	switch g.r.Intn(5) {
	case 0:
		if len(w) > 1 {
			return w[:1+g.r.Intn(len(w)-1)]
		}
	case 1:
		return strings.ToUpper(w)
	case 2:
		return strings.ToLower(w)
	}
	return w
}

var strOps = []string{"CONTAINS", "PREFIX", "SUFFIX", "LIKE"}
var symOps = []string{"=", "!=", "<", "<=", ">", ">="}

func (g *gen) wrapFuncs(operand string) string {
	n := 0
	if g.r.Chance(1, 3) {
		n = g.r.PickInt(1, 1, 2, 3)
		if n > g.maxNest {
			n = g.maxNest
		}
	}
	s := operand
	for i := 0; i < n; i++ {
		fn := g.r.PickStr("UPPER", "LOWER", "upper", "lower", "Upper", "LoWeR")
		if g.edge && g.r.Chance(1, 12) {
			fn = g.r.PickStr("TRIM", "len", "from")
		}
		g.kinds["func"] = true
		if g.edge && g.r.Chance(1, 15) {
			s = fn + g.osp() + "(" + g.osp() + s + g.osp() + "," + g.osp() + "msg" + g.osp() + ")"
		} else {
			s = fn + g.osp() + "(" + g.osp() + s + g.osp() + ")"
		}
	}
	return s
}

func (g *gen) cond() string {
	r := g.r
	k := r.Intn(100)
	switch {
	case k < 18: // ts
		operand := r.PickStr("ts", "ts", "TS", "Ts")
		if g.edge && r.Chance(1, 10) {
			operand = g.wrapFuncs(operand)
		}
		op := r.PickStr("<", ">", "<=", ">=")
		if g.edge && r.Chance(1, 10) {
			op = r.PickStr("=", "!=", g.kw("CONTAINS"))
		}
		t := g.tsPool[r.Intn(len(g.tsPool))] + int64(r.PickInt(-1, 0, 0, 1))
		v := fmt.Sprintf("%d", t)
		if r.Chance(1, 3) {
			v = g.quote(v)
		} else if r.Chance(1, 5) {
			v = g.quote(r.PickStr("2019-03-11 12:34:55", "2019-03-11", "11/03/2019 12:34:55", "2019/03/11 12:34", " 1552307695000000000 ", "yesterday", "", "2019-03-11T12:34:55Z",
				"2019-03-11 12:34:44.500 +0000 UTC", "2019-03-11 12:34:44.5 +0000 UTC", "2019-03-11 12:34:44.050 +0000 UTC", "2019-03-11 12:34:44.000000001 +0000 UTC"))
		}
		return operand + g.osp() + op + g.osp() + v
	case k < 45: // msg
		operand := g.wrapFuncs(r.PickStr("msg", "msg", "MSG", "Msg"))
		op := r.PickStr(strOps...)
		if g.nolike && op == "LIKE" {
			op = "CONTAINS"
		}
		if g.edge && r.Chance(1, 10) {
			op = r.PickStr(symOps...)
		}
		v := g.strValue(op)
		if op == "=" || len(op) <= 2 {
			return operand + g.osp() + op + g.osp() + g.value(v)
		}
		return operand + g.sp() + g.kw(op) + g.sp() + g.value(v)
	case k < 92: // fields
		name := fieldNames[r.Intn(len(fieldNames))]
		if r.Chance(1, 10) {
			name = "nosuch"
		}
		exact, haveExact := "", false
		if n, v, ok := g.someField(); ok && r.Chance(2, 3) {
			name, exact, haveExact = n, v, r.Chance(2, 3)
		}
		pre := r.PickStr("fields:", "fields:", "Fields:", "FIELDS:")
		operand := g.wrapFuncs(pre + name)
		if haveExact {
			// compare with a value that really occurs (boundary of <, <=, >, >=, =, !=)
			v := exact
			if strings.Contains(operand, "(") {
				v = r.PickStr(strings.ToUpper(v), strings.ToLower(v), v)
			}
			op := r.PickStr(symOps...)
			return operand + g.osp() + op + g.osp() + g.value(v)
		}
		if r.Chance(1, 2) {
			op := r.PickStr(strOps...)
			if g.nolike && op == "LIKE" {
				op = "PREFIX"
			}
			return operand + g.sp() + g.kw(op) + g.sp() + g.value(g.strValue(op))
		}
		op := r.PickStr(symOps...)
		return operand + g.osp() + op + g.osp() + g.value(g.strValue(op))
	default: // operands the builder does not know (keywords are accepted by the parser as operands)
		if !g.edge {
			return "msg" + g.sp() + g.kw("CONTAINS") + g.sp() + g.value(genWord(r))
		}
		operand := r.PickStr("limit", "from", "foo", "fields:", "field:a", "select", "a", "message", "offset", "or1")
		return operand + g.osp() + r.PickStr("=", "<", ">=") + g.osp() + g.value(genWord(r))
	}
}

func (g *gen) xc(depth int) string {
	s := ""
	if g.r.Chance(1, 4) {
		s = g.kw("NOT") + g.sp()
		g.kinds["not"] = true
	}
	if depth > 0 && g.r.Chance(2, 5) {
		g.kinds["paren"] = true
		return s + "(" + g.osp() + g.expr(depth-1) + g.osp() + ")"
	}
	return s + g.cond()
}

func (g *gen) orc(depth int) string {
	n := g.r.PickInt(1, 1, 1, 2, 2, 3)
	parts := make([]string, n)
	for i := range parts {
		parts[i] = g.xc(depth)
	}
	if n > 1 {
		g.kinds["and"] = true
	}
	s := parts[0]
	for _, p := range parts[1:] {
		s += g.sp() + g.kw("AND") + g.sp() + p
	}
	return s
}

func (g *gen) expr(depth int) string {
	n := g.r.PickInt(1, 1, 1, 2, 2, 3)
	parts := make([]string, n)
	for i := range parts {
		parts[i] = g.orc(depth)
	}
	if n > 1 {
		g.kinds["or"] = true
	}
	s := parts[0]
	for _, p := range parts[1:] {
		s += g.sp() + g.kw("OR") + g.sp() + p
	}
	return s
}

// mutate damages a text: token-level edits and raw bytes (the malformed stream)
func mutate(r *Rng, s string) string {
	n := r.PickInt(1, 1, 2, 3)
	b := []byte(s)
	junk := []string{"(", ")", "\"", "'", " NOT ", " AND ", " OR ", "<>", "!", "#", "{", "}", "{a=b}", ",", "\\", "\x00", "\xff", "\xe2\x84\xaa", "\xc5\xbf", " limit ", "=", "5", " 5kb ", "-", ".", "[", "]", ":", "\n"}
	for i := 0; i < n; i++ {
		switch r.Intn(4) {
		case 0: // delete a span
			if len(b) > 0 {
				p := r.Intn(len(b))
				q := p + r.PickInt(1, 1, 2, 5)
				if q > len(b) {
					q = len(b)
				}
				b = append(b[:p:p], b[q:]...)
			}
		case 1: // insert junk
			p := r.Intn(len(b) + 1)
			j := junk[r.Intn(len(junk))]
			b = append(b[:p:p], append([]byte(j), b[p:]...)...)
		case 2: // replace a byte
			if len(b) > 0 {
				b[r.Intn(len(b))] = r.PickStr(junk...)[0]
			}
		case 3: // truncate
			if len(b) > 0 {
				b = b[:r.Intn(len(b))]
			}
		}
	}
	return string(b)
}
