// C12 harness: LQL statements keep their meaning through print and re-parse.
//
// Streams:
//
//	stmt    grammar-generated statements (SELECT, SHOW, DESCRIBE, TRUNCATE, CREATE/DELETE PIPE) with
//	        hostile strings, identifiers and numbers through the real ParseLql -> String() -> ParseLql
//	expr / source   the same for ParseExpr / ParseSource
//	edge    mutated and malformed texts
//	quote   strconv.Quote samples (the hypothesis of the round-trip theorems about quoting)
//	pipe    CREATE PIPE p FROM S WHERE F: stored conditions and the pipe's two functions on samples,
//	        some of them through Admin.Execute on an in-process server
//
// Recorded for the model: the AST (as a Gallina term), the printed text, the re-parsed AST.
// Oracle O: parse, print, re-parse on the real code; both ASTs are compared by meaning with an
// evaluator that is independent of whereeval.go/tagseval.go and of the Coq model.
package main

import (
	"fmt"
	humanize "github.com/dustin/go-humanize"
	"math"
	"path"
	"sort"
	"strconv"
	"strings"
	"time"
	"unicode/utf8"

	"github.com/logrange/logrange/pkg/lql"
	"github.com/logrange/logrange/pkg/model"
	"github.com/logrange/logrange/pkg/model/field"
	"github.com/logrange/logrange/pkg/model/tag"
	"github.com/logrange/logrange/pkg/pipe"
	. "verifharness/common"
)

type Replay struct {
	Kind   string `json:"kind"` // stmt | expr | source | quote | pipe | pipee2e
	Text   string `json:"text"`
	Stream string `json:"stream,omitempty"`
}

const rule = "a case is non-trivial iff the text parses and contains at least two connectives of different kinds, a function nesting, a {tags} source, or at least three optional clauses of its statement; quote cases iff the string needs an escape; distinct by the hash of the text"

func guarded(f func()) (panicked bool) {
	defer func() {
		if r := recover(); r != nil {
			panicked = true
		}
	}()
	f()
	return false
}

// ---------------------------------------------------------------- environment tables

type envT struct {
	times  map[string]string
	sizes  map[string]string
	tags   map[string]string
	lines  map[string]string // key: gallina of the tagset
	quotes map[string]string
	fmts   map[int64]string
	stable bool
}

func newEnv() *envT {
	return &envT{times: map[string]string{}, sizes: map[string]string{}, tags: map[string]string{}, lines: map[string]string{},
		quotes: map[string]string{}, fmts: map[int64]string{}, stable: true}
}

func gTagset(s tag.Set) string {
	ps := tag.VC12TagPairs(s)
	it := make([]string, len(ps))
	for i, p := range ps {
		it[i] = GPair(GStr(p[0]), GStr(p[1]))
	}
	return GList(it)
}

func parseTime(s string) (int64, bool) {
	t, err := lql.VC05ParseLqlDateTime(s)
	if err != nil {
		return 0, false
	}
	return t.UnixNano(), true
}

// every token of the text that a Capture method may see
func (e *envT) addTokens(text string) {
	toks, err := lql.VC05LexMapped(text)
	if err != nil {
		return
	}
	for _, t := range toks {
		switch t.Type {
		case "String":
			t1, ok1 := parseTime(t.Value)
			t2, ok2 := parseTime(t.Value)
			if ok1 != ok2 || t1 != t2 {
				e.stable = false
			}
			if ok1 {
				e.times[t.Value] = GSome(GZ(t1))
			} else {
				e.times[t.Value] = GNone
			}
		case "Number":
			// the library function itself (Size.Capture is code under test: the table must not go through it)
			if v, err := humanize.ParseBytes(t.Value); err == nil {
				e.sizes[t.Value] = GSome(GN(v))
			} else {
				e.sizes[t.Value] = GNone
			}
		case "Tags":
			if s, err := tag.Parse(t.Value); err == nil {
				e.tags[t.Value] = GSome(gTagset(s))
			} else {
				e.tags[t.Value] = GNone
			}
		}
	}
}

func (e *envT) addQuote(s string) { e.quotes[s] = strconv.Quote(s) }
func (e *envT) addTagset(s tag.Set) {
	e.lines[gTagset(s)] = s.Line().String()
}
func (e *envT) addTime(dt *lql.DateTime, twice bool) {
	if dt == nil {
		return
	}
	z := int64(*dt)
	// the text the code prints for the time point: DateTime.String() without its quotes
	f, err := strconv.Unquote(dt.String())
	if err != nil {
		f = dt.String()
	}
	e.fmts[z] = f
	e.addQuote(f)
	if twice {
		e.addQuote(strconv.Quote(f))
	}
}

func sortedKeys(m map[string]string) []string {
	ks := make([]string, 0, len(m))
	for k := range m {
		ks = append(ks, k)
	}
	sort.Strings(ks)
	return ks
}

func (e *envT) gallina() string {
	tab := func(m map[string]string, key func(string) string) string {
		var it []string
		for _, k := range sortedKeys(m) {
			it = append(it, GPair(key(k), m[k]))
		}
		return GList(it)
	}
	ident := func(s string) string { return s }
	var fm []string
	var zs []int64
	for z := range e.fmts {
		zs = append(zs, z)
	}
	sort.Slice(zs, func(i, j int) bool { return zs[i] < zs[j] })
	for _, z := range zs {
		fm = append(fm, GPair(GZ(z), GStr(e.fmts[z])))
	}
	lines := map[string]string{}
	for k, v := range e.lines {
		lines[k] = GStr(v)
	}
	quotes := map[string]string{}
	for k, v := range e.quotes {
		quotes[k] = GStr(v)
	}
	return fmt.Sprintf("(Env %s %s %s %s %s %s)", tab(e.times, GStr), tab(e.sizes, GStr), tab(e.tags, GStr),
		tab(lines, ident), tab(quotes, GStr), GList(fm))
}

// ---------------------------------------------------------------- AST -> Gallina

func gOpt(present bool, v string) string {
	if !present {
		return GNone
	}
	return GSome(v)
}

func gIdent(id *lql.Identifier) string {
	ps := "INil"
	for i := len(id.Params) - 1; i >= 0; i-- {
		ps = GApp("ICons", gIdent(id.Params[i]), ps)
	}
	return GApp("Ident", GStr(id.Operand), ps)
}

func gCond(c *lql.Condition) string {
	return GApp("Cond", gIdent(c.Ident), GStr(c.Op), GStr(c.Value))
}

func gXc(x *lql.XCondition) string {
	b := ""
	if x.Expr != nil {
		b = GApp("BP", gExpr(x.Expr))
	} else {
		b = GApp("BC", gCond(x.Cond))
	}
	return GApp("X", GBool(x.Not), b)
}

func gOrc(o *lql.OrCondition) string {
	n := len(o.And)
	s := GApp("And1", gXc(o.And[n-1]))
	for i := n - 2; i >= 0; i-- {
		s = GApp("AndS", gXc(o.And[i]), s)
	}
	return s
}

func gExpr(e *lql.Expression) string {
	n := len(e.Or)
	s := GApp("Or1", gOrc(e.Or[n-1]))
	for i := n - 2; i >= 0; i-- {
		s = GApp("OrS", gOrc(e.Or[i]), s)
	}
	return s
}

func gSource(s *lql.Source) string {
	if s.Tags != nil {
		return GApp("SrcTags", gTagset(s.Tags.Tags))
	}
	return GApp("SrcExpr", gExpr(s.Expr))
}

func gOSource(s *lql.Source) string {
	if s == nil {
		return GNone
	}
	return GSome(gSource(s))
}
func gOExpr(e *lql.Expression) string {
	if e == nil {
		return GNone
	}
	return GSome(gExpr(e))
}
func gODt(d *lql.DateTime) string {
	if d == nil {
		return GNone
	}
	return GSome(GZ(int64(*d)))
}
func gOI64(d *int64) string {
	if d == nil {
		return GNone
	}
	return GSome(GZ(*d))
}
func gOInt(d *int) string {
	if d == nil {
		return GNone
	}
	return GSome(GZ(int64(*d)))
}
func gOSize(d *lql.Size) string {
	if d == nil {
		return GNone
	}
	return GSome(GN(uint64(*d)))
}
func gOStr(d *string) string {
	if d == nil {
		return GNone
	}
	return GSome(GStr(*d))
}

func gLql(l *lql.Lql) string {
	switch {
	case l.Select != nil:
		s := l.Select
		rng := GNone
		if s.Range != nil {
			rng = GSome(GApp("Range", gODt(s.Range.TmPoint1), gODt(s.Range.TmPoint2)))
		}
		pos := GNone
		if s.Position != nil {
			pos = GSome(GStr(s.Position.PosId))
		}
		return GApp("LSelect", GApp("Select", gOStr(s.Format), gOSource(s.Source), rng, gOExpr(s.Where), pos, gOI64(s.Offset), gOI64(s.Limit)))
	case l.Describe != nil:
		if l.Describe.Partition != nil {
			return GApp("LDescribe", GApp("DPartition", gTagset(l.Describe.Partition.Tags)))
		}
		if l.Describe.Pipe != nil {
			return GApp("LDescribe", GApp("DPipe", GStr(*l.Describe.Pipe)))
		}
		return "LNone" // cannot happen: the grammar requires one of the two
	case l.Truncate != nil:
		t := l.Truncate
		return GApp("LTruncate", GApp("Truncate", GBool(t.DryRun), gOSource(t.Source), gOSize(t.MinSize), gOSize(t.MaxSize), gODt(t.Before), gOSize(t.MaxDbSize)))
	case l.Show != nil:
		parts, pipes := GNone, GNone
		if p := l.Show.Partitions; p != nil {
			parts = GSome(GApp("Partitions", gOSource(p.Source), gOInt(p.Offset), gOInt(p.Limit)))
		}
		if p := l.Show.Pipes; p != nil {
			pipes = GSome(GApp("Pipes", gOSource(p.Void), gOI64(p.Offset), gOI64(p.Limit)))
		}
		return GApp("LShow", GApp("Show", parts, pipes))
	case l.Create != nil:
		if p := l.Create.Pipe; p != nil {
			return GApp("LCreate", GSome(GApp("Pipe", GStr(p.Name), gOSource(p.From), gOExpr(p.Where))))
		}
		return GApp("LCreate", GNone)
	case l.Delete != nil:
		return GApp("LDelete", gOStr(l.Delete.PipeName))
	}
	return "LNone"
}

// strings of the AST that the printers quote, tag sets they print, times they format
func (e *envT) addExpr(x *lql.Expression) {
	if x == nil {
		return
	}
	for _, oc := range x.Or {
		for _, xc := range oc.And {
			if xc.Expr != nil {
				e.addExpr(xc.Expr)
			} else {
				e.addQuote(xc.Cond.Value)
			}
		}
	}
}
func (e *envT) addSource(s *lql.Source) {
	if s == nil {
		return
	}
	if s.Tags != nil {
		e.addTagset(s.Tags.Tags)
	} else {
		e.addExpr(s.Expr)
	}
}
func (e *envT) addLql(l *lql.Lql) {
	if s := l.Select; s != nil {
		if s.Format != nil {
			e.addQuote(*s.Format)
		}
		e.addSource(s.Source)
		if s.Range != nil {
			e.addTime(s.Range.TmPoint1, false)
			e.addTime(s.Range.TmPoint2, false)
		}
		e.addExpr(s.Where)
		if s.Position != nil {
			e.addQuote(s.Position.PosId)
		}
	}
	if d := l.Describe; d != nil && d.Partition != nil {
		e.addTagset(d.Partition.Tags)
	}
	if t := l.Truncate; t != nil {
		e.addSource(t.Source)
		e.addTime(t.Before, true)
	}
	if s := l.Show; s != nil {
		if s.Partitions != nil {
			e.addSource(s.Partitions.Source)
		}
		if s.Pipes != nil {
			e.addSource(s.Pipes.Void)
		}
	}
	if c := l.Create; c != nil && c.Pipe != nil {
		e.addSource(c.Pipe.From)
		e.addExpr(c.Pipe.Where)
	}
}

// strings through ToUpper/ToLower in the evaluators
func lqlCaseOK(strs []string) bool {
	for _, s := range strs {
		if !inCaseDomain(s) {
			return false
		}
	}
	return true
}

// ---------------------------------------------------------------- samples for the meaning comparison

var sampleTagsets = []map[string]string{
	{}, {"a": "b"}, {"a": "b", "c": "d"}, {"name": "app1", "ip": "1.2.3.4"}, {"a": "x", "name": "App1"}, {"k-1": "", "lvl": "err"},
	{"a": "B", "x.y": "z"}, {"name": "app2", "c": "d e"},
}

var sampleEvents = []Ev{
	{Ts: 0, Msg: ""}, {Ts: 5, Msg: "error db timeout", Fields: [][2]string{{"a", "b"}, {"lvl", "err"}}},
	{Ts: 1552307695000000000, Msg: "Warn x*y [q]", Fields: [][2]string{{"name", "app1"}, {"a", "x"}, {"a", "y"}}},
	{Ts: -7, Msg: "abc", Fields: [][2]string{{"x.y", "Zeta"}, {"k-1", ""}}},
	{Ts: 1552307695000000020, Msg: "a b 日本", Fields: [][2]string{{"n_2", "10"}, {"b", "9"}}},
}

// independent evaluation of a source on a tag map (tagseval.go's documented meaning)
func evalSource(s *lql.Source, tags map[string]string) (res bool, evaluable bool) {
	if s == nil {
		return true, true
	}
	if s.Tags != nil {
		for _, p := range tag.VC12TagPairs(s.Tags.Tags) {
			if v, ok := tags[p[0]]; !ok || v != p[1] {
				return false, true
			}
		}
		return true, true
	}
	return evalTagExpr(s.Expr, tags)
}

func evalTagExpr(e *lql.Expression, tags map[string]string) (bool, bool) {
	evaluable := true
	res := false
	for _, oc := range e.Or {
		all := true
		for _, xc := range oc.And {
			var b, ok bool
			if xc.Expr != nil {
				b, ok = evalTagExpr(xc.Expr, tags)
			} else {
				b, ok = evalTagCond(xc.Cond, tags)
			}
			if !ok {
				evaluable = false
			}
			if xc.Not {
				b = !b
			}
			if !b {
				all = false
			}
		}
		if all {
			res = true
		}
	}
	return res, evaluable
}

func evalTagCond(c *lql.Condition, tags map[string]string) (bool, bool) {
	if !funcsOK(c.Ident) {
		return false, false
	}
	s := applyFuncs(c.Ident, tags[innermost(c.Ident).Operand])
	switch strings.ToUpper(c.Op) {
	case "CONTAINS":
		return strings.Contains(s, c.Value), true
	case "PREFIX":
		return strings.HasPrefix(s, c.Value), true
	case "SUFFIX":
		return strings.HasSuffix(s, c.Value), true
	case "LIKE":
		m, err := path.Match(c.Value, s)
		if _, e2 := path.Match(c.Value, "abc"); e2 != nil || err != nil {
			return false, false
		}
		return m, true
	case "=":
		return s == c.Value, true
	case "!=":
		return s != c.Value, true
	case "<":
		return s < c.Value, true
	case "<=":
		return s <= c.Value, true
	case ">":
		return s > c.Value, true
	case ">=":
		return s >= c.Value, true
	}
	return false, false
}

// meaning of a source / filter as vectors over the samples ("?" = cannot be evaluated)
func sourceMeaning(s *lql.Source) string {
	if s != nil && s.Tags != nil {
		// a {tags} source selects the partitions whose tags include every pair: it denotes exactly its set of pairs
		// (the vector over the sample tag sets cannot tell "web " from "web")
		return "tags" + fmt.Sprintf("%q", tag.VC12TagPairs(s.Tags.Tags))
	}
	var sb strings.Builder
	for _, t := range sampleTagsets {
		b, ok := evalSource(s, t)
		switch {
		case !ok:
			sb.WriteByte('?')
		case b:
			sb.WriteByte('1')
		default:
			sb.WriteByte('0')
		}
	}
	return sb.String()
}

func whereMeaning(e *lql.Expression) string {
	if e == nil {
		return "all"
	}
	v := classify(e, parseTime)
	if !v.evaluable {
		return "?"
	}
	var sb strings.Builder
	for _, ev := range sampleEvents {
		if evalExpr(e, parseTime, ev) {
			sb.WriteByte('1')
		} else {
			sb.WriteByte('0')
		}
	}
	return sb.String()
}

func optI64(p *int64) string {
	if p == nil {
		return "-"
	}
	return fmt.Sprint(*p)
}
func optInt(p *int) string {
	if p == nil {
		return "-"
	}
	return fmt.Sprint(*p)
}
func optDt(p *lql.DateTime) string {
	if p == nil {
		return "-"
	}
	return fmt.Sprint(int64(*p))
}
func optSz(p *lql.Size) string {
	if p == nil {
		return "-"
	}
	return fmt.Sprint(uint64(*p))
}
func optS(p *string) string {
	if p == nil || *p == "" { // an empty format is the default format
		return "-"
	}
	return strconv.Quote(*p)
}

// the meaning of a statement, clause by clause (what C12 says must survive print and re-parse)
func stmtMeaning(l *lql.Lql) map[string]string {
	m := map[string]string{}
	switch {
	case l.Select != nil:
		s := l.Select
		m["kind"] = "select"
		m["format"] = optS(s.Format)
		m["from"] = sourceMeaning(s.Source)
		if s.Range != nil {
			m["range"] = optDt(s.Range.TmPoint1) + ":" + optDt(s.Range.TmPoint2)
		} else {
			m["range"] = "-"
		}
		m["where"] = whereMeaning(s.Where)
		if s.Position != nil {
			m["position"] = strconv.Quote(s.Position.PosId)
		} else {
			m["position"] = "-"
		}
		m["offset"], m["limit"] = optI64(s.Offset), optI64(s.Limit)
	case l.Describe != nil:
		m["kind"] = "describe"
		if l.Describe.Partition != nil {
			m["partition"] = fmt.Sprint(tag.VC12TagPairs(l.Describe.Partition.Tags))
		}
		if l.Describe.Pipe != nil {
			m["pipe"] = *l.Describe.Pipe
		}
	case l.Truncate != nil:
		t := l.Truncate
		m["kind"] = "truncate"
		m["dryrun"] = fmt.Sprint(t.DryRun)
		m["from"] = sourceMeaning(t.Source)
		m["minsize"], m["maxsize"], m["maxdbsize"] = optSz(t.MinSize), optSz(t.MaxSize), optSz(t.MaxDbSize)
		m["before"] = optDt(t.Before)
	case l.Show != nil:
		m["kind"] = "show"
		if p := l.Show.Partitions; p != nil {
			m["what"] = "partitions"
			m["from"] = sourceMeaning(p.Source)
			m["offset"], m["limit"] = optInt(p.Offset), optInt(p.Limit)
		} else if p := l.Show.Pipes; p != nil {
			m["what"] = "pipes" // Pipes.Void is documented as unused
			m["offset"], m["limit"] = optI64(p.Offset), optI64(p.Limit)
		} else {
			m["what"] = "nothing"
		}
	case l.Create != nil:
		m["kind"] = "create"
		if p := l.Create.Pipe; p != nil {
			m["name"] = p.Name
			m["from"] = sourceMeaning(p.From)
			m["where"] = whereMeaning(p.Where)
		} else {
			m["name"] = "-"
		}
	case l.Delete != nil:
		m["kind"] = "delete"
		if l.Delete.PipeName != nil {
			m["name"] = *l.Delete.PipeName
		} else {
			m["name"] = "-"
		}
	default:
		m["kind"] = "none"
	}
	return m
}

// ---------------------------------------------------------------- cases

func stmtCase(rp Replay) (*Case, error) {
	cs := &Case{Replay: rp, Stream: rp.Stream}
	env := newEnv()
	env.addTokens(rp.Text)
	l1, err := lql.ParseLql(rp.Text)
	if err != nil {
		if !env.stable {
			return nil, nil
		}
		cs.Coq = GApp("KStmt", GStr(rp.Text), env.gallina(), "SErr")
		cs.Tags = []string{"stmt:parse-error"}
		return cs, nil
	}
	p := l1.String()
	env.addLql(l1)
	env.addTokens(p)
	if !env.stable {
		return nil, nil
	}
	l2, err2 := lql.ParseLql(p)
	re := GNone
	m1 := stmtMeaning(l1)
	kind := m1["kind"]
	cs.Tags = append([]string{"stmt:" + kind}, classTags(l1)...)
	if err2 == nil {
		re = GSome(gLql(l2))
		m2 := stmtMeaning(l2)
		var diff []string
		for k, v := range m1 {
			if m2[k] != v {
				diff = append(diff, k)
			}
		}
		sort.Strings(diff)
		if m2["kind"] != kind {
			cls := "stmt-" + kind + "-reparses-as-" + m2["kind"]
			cs.Oracle = &Violation{Class: cls, Detail: fmt.Sprintf("%q prints as %q, which parses to a %s statement", rp.Text, p, m2["kind"])}
		} else if len(diff) > 0 {
			cls := "stmt-" + kind + "-" + diff[0] + "-changed"
			if (diff[0] == "range" || diff[0] == "before") && hasFraction(l1) {
				// a time point with a sub-second part came back as another instant
				cls = "stmt-time-fraction-changed"
			}
			cs.Oracle = &Violation{Class: cls, Detail: fmt.Sprintf("%q prints as %q; after re-parsing: %s was %s, is %s", rp.Text, p, diff[0], m1[diff[0]], m2[diff[0]])}
		}
	} else {
		cls := "stmt-" + kind + "-print-not-reparsable"
		switch {
		case kind == "none":
			cls = "stmt-empty-print-not-reparsable"
		case kind == "select" && l1.Select.Range != nil && l1.Select.Range.TmPoint1 == nil && l1.Select.Range.TmPoint2 == nil:
			cls = "stmt-select-empty-range-not-reparsable"
		case tagsThenBrace(p):
			cls = "stmt-tags-then-brace-not-reparsable"
		case kind == "truncate" && (sizeOver(l1.Truncate.MinSize) || sizeOver(l1.Truncate.MaxSize)):
			cls = "stmt-truncate-size-over-int64-not-reparsable"
		}
		cs.Oracle = &Violation{Class: cls, Detail: fmt.Sprintf("%q parses, its print %q does not: %v", rp.Text, p, err2)}
	}
	if cs.Oracle == nil && err2 == nil {
		// print is idempotent: the re-parsed statement prints as the statement did
		if p2 := l2.String(); p2 != p {
			cs.Oracle = &Violation{Class: "stmt-print-not-idempotent", Detail: fmt.Sprintf("%q prints as %q, which parses and then prints as %q", rp.Text, p, p2)}
		}
	}
	if cs.Oracle == nil {
		if d := nodeStrings(l1, p); d != "" {
			cs.Oracle = &Violation{Class: "stmt-node-string-differs", Detail: fmt.Sprintf("%q: %s", rp.Text, d)}
		}
	}
	cs.Coq = GApp("KStmt", GStr(rp.Text), env.gallina(), GApp("SOk", gLql(l1), GStr(p), re))
	cs.NonTrivial = strings.Count(p, " ") >= 6
	return cs, nil
}

// some time point of the statement is not a whole second
func hasFraction(l *lql.Lql) bool {
	fr := func(dt *lql.DateTime) bool { return dt != nil && int64(*dt)%1000000000 != 0 }
	if s := l.Select; s != nil && s.Range != nil {
		return fr(s.Range.TmPoint1) || fr(s.Range.TmPoint2)
	}
	if t := l.Truncate; t != nil {
		return fr(t.Before)
	}
	return false
}

// classTags names the boundary classes a parsed statement falls into (for the input distribution of the evidence)
func classTags(l *lql.Lql) []string {
	var out []string
	add := func(t string) { out = append(out, "class:"+t) }
	num := func(v int64) {
		switch {
		case v == math.MaxInt64 || v == math.MinInt64:
			add("num-int64-end")
		case v > math.MaxInt32 || v < math.MinInt32:
			add("num-beyond-int32")
		case v < 0:
			add("num-negative")
		case v == 0:
			add("num-zero")
		}
	}
	tm := func(dt *lql.DateTime) {
		if dt == nil {
			return
		}
		v := int64(*dt)
		if v%1000000000 != 0 {
			add("time-fraction")
		}
		if v > 9e18 || v < -9e18 {
			add("time-int64-end")
		} else if y := time.Unix(0, v).UTC().Year(); y != 2019 {
			add("time-not-2019")
		}
	}
	src := func(s *lql.Source) {
		if s == nil || s.Tags == nil {
			return
		}
		ps := tag.VC12TagPairs(s.Tags.Tags)
		for i, kv := range ps {
			if v := kv[1]; v != strings.Trim(v, " ") {
				if i == len(ps)-1 {
					add("tags-edge-blank-last")
				} else {
					add("tags-edge-blank-not-last")
				}
			}
			for _, kw := range ps[:i] {
				if kw[0] != kv[0] && strings.EqualFold(kw[0], kv[0]) {
					add("tags-names-differ-in-case")
				}
			}
		}
		if len(ps) > 2 {
			add("tags-3-or-more")
		}
	}
	sz := func(p *lql.Size) {
		if p != nil && uint64(*p) >= 1<<63 {
			add("size-beyond-int63")
		}
	}
	switch {
	case l.Select != nil:
		s := l.Select
		if s.Offset != nil {
			num(*s.Offset)
		}
		if s.Limit != nil {
			num(*s.Limit)
		}
		if s.Range != nil {
			tm(s.Range.TmPoint1)
			tm(s.Range.TmPoint2)
		}
		src(s.Source)
	case l.Truncate != nil:
		t := l.Truncate
		sz(t.MinSize)
		sz(t.MaxSize)
		sz(t.MaxDbSize)
		tm(t.Before)
		src(t.Source)
	case l.Show != nil && l.Show.Partitions != nil:
		src(l.Show.Partitions.Source)
		if o := l.Show.Partitions.Offset; o != nil {
			num(int64(*o))
		}
		if o := l.Show.Partitions.Limit; o != nil {
			num(int64(*o))
		}
	case l.Show != nil && l.Show.Pipes != nil:
		if o := l.Show.Pipes.Offset; o != nil {
			num(*o)
		}
		if o := l.Show.Pipes.Limit; o != nil {
			num(*o)
		}
	case l.Create != nil && l.Create.Pipe != nil:
		src(l.Create.Pipe.From)
	}
	return out
}

// some value of the {tags} source satisfies p
func tagsValue(s *lql.Source, p func(string) bool) bool {
	for _, kv := range tag.VC12TagPairs(s.Tags.Tags) {
		if p(kv[1]) {
			return true
		}
	}
	return false
}

// nodeStrings: the String() methods of the nodes below Lql and the accessors of Truncate agree with the statement's own print
// and fields (they are the API other packages print and read a parsed statement with)
func nodeStrings(l *lql.Lql, p string) string {
	switch {
	case l.Truncate != nil:
		t := l.Truncate
		if t.String() != p {
			return fmt.Sprintf("Truncate.String() = %q, the statement prints %q", t.String(), p)
		}
		if t.IsDryRun() != t.DryRun || t.GetMinSize() != t.MinSize.GetValue() || t.GetMaxSize() != t.MaxSize.GetValue() || t.GetBefore() != t.Before.GetValue() {
			return "Truncate accessors differ from the fields"
		}
		if (t.MinSize == nil && t.GetMinSize() != 0) || (t.MinSize != nil && t.GetMinSize() != uint64(*t.MinSize)) ||
			(t.Before == nil && t.GetBefore() != 0) || (t.Before != nil && t.GetBefore() != uint64(*t.Before)) {
			return "Truncate accessors differ from the fields"
		}
		// GetTagsCond() is the source as text: it must denote the source
		if s2, err := lql.ParseSource(t.GetTagsCond()); err != nil || sourceMeaning(s2) != sourceMeaning(t.Source) {
			if t.Source == nil || t.Source.Tags == nil || !(tagsValue(t.Source, func(v string) bool { return strings.IndexByte(v, '"') > 0 || strings.Contains(v, "\n") })) {
				return fmt.Sprintf("Truncate.GetTagsCond() = %q does not denote the statement's source (%v)", t.GetTagsCond(), err)
			}
		}
	case l.Show != nil:
		if l.Show.String() != p {
			return fmt.Sprintf("Show.String() = %q, the statement prints %q", l.Show.String(), p)
		}
	case l.Describe != nil:
		if l.Describe.String() != p {
			return fmt.Sprintf("Describe.String() = %q, the statement prints %q", l.Describe.String(), p)
		}
	case l.Select != nil:
		s := l.Select
		if s.Range != nil && !strings.Contains(p, " RANGE"+s.Range.String()) {
			return fmt.Sprintf("Range.String() = %q is not what the statement prints: %q", s.Range.String(), p)
		}
		if s.Source != nil && !strings.Contains(p, " FROM"+s.Source.String()) {
			return fmt.Sprintf("Source.String() = %q is not what the statement prints: %q", s.Source.String(), p)
		}
		if s.Where != nil && !strings.Contains(p, " WHERE"+s.Where.String()) {
			return fmt.Sprintf("Expression.String() = %q is not what the statement prints: %q", s.Where.String(), p)
		}
	}
	return ""
}

// condStrings: Condition.String() and Identifier.String() of every condition are what the expression prints for it
func condStrings(e *lql.Expression, p string) string {
	if e == nil {
		return ""
	}
	for _, oc := range e.Or {
		for _, xc := range oc.And {
			if xc.Expr != nil {
				if d := condStrings(xc.Expr, p); d != "" {
					return d
				}
				continue
			}
			c := xc.Cond
			want := " " + c.Ident.String() + " " + c.Op + " " + strconv.Quote(c.Value)
			if c.String() != want || !strings.Contains(p, want) {
				return fmt.Sprintf("Condition.String() = %q, Identifier.String() = %q, the expression prints %q", c.String(), c.Ident.String(), p)
			}
		}
	}
	return ""
}

// String() of an absent node is the empty text (what the printers rely on for optional members)
func nilNodes() string {
	var (
		l  *lql.Lql
		r  *lql.Range
		s  *lql.Source
		e  *lql.Expression
		c  *lql.Condition
		id *lql.Identifier
		d  *lql.Describe
		t  *lql.Truncate
		sh *lql.Show
		dt *lql.DateTime
		sz *lql.Size
	)
	got := l.String() + r.String() + s.String() + e.String() + c.String() + id.String() + d.String() + t.String() + sh.String() + dt.String()
	if got != "" || dt.GetValue() != 0 || sz.GetValue() != 0 {
		return fmt.Sprintf("absent nodes print %q", got)
	}
	return ""
}

func sizeOver(s *lql.Size) bool { return s != nil && uint64(*s) >= 1<<63 }

// a {tags} token followed later on the same line by another '}'
func tagsThenBrace(p string) bool {
	i := strings.Index(p, "{")
	if i < 0 {
		return false
	}
	j := strings.Index(p[i:], "}")
	if j < 0 {
		return false
	}
	rest := p[i+j+1:]
	if k := strings.Index(rest, "\n"); k >= 0 {
		rest = rest[:k]
	}
	return strings.Contains(rest, "}")
}

func exprCase(rp Replay) (*Case, error) {
	cs := &Case{Replay: rp, Stream: rp.Stream}
	env := newEnv()
	env.addTokens(rp.Text)
	e1, err := lql.ParseExpr(rp.Text)
	if err != nil || e1 == nil {
		if !env.stable {
			return nil, nil
		}
		cs.Coq = GApp("KExpr", GStr(rp.Text), env.gallina(), "EErr")
		cs.Tags = []string{"expr:parse-error"}
		return cs, nil
	}
	p := e1.String()
	env.addExpr(e1)
	env.addTokens(p)
	if !env.stable {
		return nil, nil
	}
	e2, err2 := lql.ParseExpr(p)
	re := GNone
	if err2 == nil && e2 != nil {
		re = GSome(gExpr(e2))
		src1, src2 := &lql.Source{Expr: e1}, &lql.Source{Expr: e2}
		if a, b := whereMeaning(e1), whereMeaning(e2); a != b {
			cs.Oracle = &Violation{Class: "expr-where-meaning-changed", Detail: fmt.Sprintf("%q prints as %q: filter truth values %s became %s", rp.Text, p, a, b)}
		} else if a, b := sourceMeaning(src1), sourceMeaning(src2); a != b {
			cs.Oracle = &Violation{Class: "expr-source-meaning-changed", Detail: fmt.Sprintf("%q prints as %q: selected partitions %s became %s", rp.Text, p, a, b)}
		}
	} else {
		cs.Oracle = &Violation{Class: "expr-print-not-reparsable", Detail: fmt.Sprintf("%q parses, its print %q does not: %v", rp.Text, p, err2)}
	}
	if cs.Oracle == nil && err2 == nil && e2 != nil {
		if p2 := e2.String(); p2 != p {
			cs.Oracle = &Violation{Class: "expr-print-not-idempotent", Detail: fmt.Sprintf("%q prints as %q, which parses and then prints as %q", rp.Text, p, p2)}
		}
	}
	if cs.Oracle == nil {
		if d := condStrings(e1, p); d != "" {
			cs.Oracle = &Violation{Class: "expr-node-string-differs", Detail: fmt.Sprintf("%q: %s", rp.Text, d)}
		}
	}
	cs.Coq = GApp("KExpr", GStr(rp.Text), env.gallina(), GApp("EOk", gExpr(e1), GStr(p), re))
	cs.Tags = []string{"expr:parsed"}
	return cs, nil
}

func sourceCase(rp Replay) (*Case, error) {
	cs := &Case{Replay: rp, Stream: rp.Stream}
	env := newEnv()
	env.addTokens(rp.Text)
	s1, err := lql.ParseSource(rp.Text)
	if err != nil || s1 == nil {
		if !env.stable {
			return nil, nil
		}
		cs.Coq = GApp("KSource", GStr(rp.Text), env.gallina(), "RSErr")
		cs.Tags = []string{"source:parse-error"}
		return cs, nil
	}
	p := s1.String()
	env.addSource(s1)
	env.addTokens(p)
	if !env.stable {
		return nil, nil
	}
	s2, err2 := lql.ParseSource(p)
	re := GNone
	if err2 == nil && s2 != nil {
		re = GSome(gSource(s2))
		if a, b := sourceMeaning(s1), sourceMeaning(s2); a != b {
			cls := "source-meaning-changed"
			if s1.Tags != nil {
				cls = "source-tags-meaning-changed"
			}
			cs.Oracle = &Violation{Class: cls, Detail: fmt.Sprintf("%q prints as %q: selected partitions %s became %s", rp.Text, p, a, b)}
		}
	} else {
		cls := "source-print-not-reparsable"
		if s1.Tags != nil {
			cls = "source-tags-print-not-reparsable"
			// the two shapes tag.Set.Line() is known to print unquoted (see known_findings.d/C12.txt); anything else is new
			switch {
			case strings.Contains(p, "\n") && tagsValue(s1, func(v string) bool { return strings.Contains(v, "\n") }):
				// the line break is in the print itself (a value with a line feed that is written quoted is not the reason)
				cls = "source-tags-line-break-not-reparsable"
			case tagsValue(s1, func(v string) bool { return strings.IndexByte(v, '"') > 0 }):
				cls = "source-tags-inner-dquote-not-reparsable"
			case tagsValue(s1, func(v string) bool { return strings.Contains(v, "\n") }):
				cls = "source-tags-line-break-not-reparsable"
			}
		}
		cs.Oracle = &Violation{Class: cls, Detail: fmt.Sprintf("%q parses, its print %q does not: %v", rp.Text, p, err2)}
	}
	if cs.Oracle == nil && err2 == nil && s2 != nil {
		if p2 := s2.String(); p2 != p {
			cs.Oracle = &Violation{Class: "source-print-not-idempotent", Detail: fmt.Sprintf("%q prints as %q, which parses and then prints as %q", rp.Text, p, p2)}
		}
	}
	cs.Coq = GApp("KSource", GStr(rp.Text), env.gallina(), GApp("RSOk", gSource(s1), GStr(p), re))
	cs.Tags = []string{"source:parsed"}
	if s1.Tags != nil {
		cs.Tags = append([]string{"source:tags"}, classTags(&lql.Lql{Select: &lql.Select{Source: s1}})...)
		cs.NonTrivial = true
	}
	return cs, nil
}

func quoteCase(rp Replay) (*Case, error) {
	q := strconv.Quote(rp.Text)
	toks, err := lql.VC05LexMapped(q)
	if !utf8.ValidString(rp.Text) {
		// not a value the parser can produce (unquote always yields valid UTF-8): only the model of
		// participle's unquote is compared on it
		res := GNone
		if err == nil && len(toks) == 1 {
			res = GSome(GStr(toks[0].Value))
		}
		return &Case{Replay: rp, Stream: "quote", Coq: GApp("KUnq", GStr(q), res), Tags: []string{"quote:invalid-utf8"}}, nil
	}
	cs := &Case{Replay: rp, Stream: "quote", Coq: GApp("KQuote", GStr(rp.Text), GStr(q)), NonTrivial: len(q) != len(rp.Text)+2, Tags: []string{"quote:valid-utf8"}}
	// O: the real lexer and participle's unquote on the real Quote
	if err != nil || len(toks) != 1 || toks[0].Type != "String" || toks[0].Value != rp.Text {
		cs.Oracle = &Violation{Class: "quote-not-one-string-token", Detail: fmt.Sprintf("strconv.Quote(%q) = %s lexes to %v (%v)", rp.Text, q, toks, err)}
	}
	return cs, nil
}

// intCase: strconv.ParseInt(text, 0, 64) as participle converts Number tokens for int fields, and %d printing
func intCase(rp Replay) (*Case, error) {
	if toks, err := lql.VC05Lex(rp.Text); err != nil || len(toks) != 1 || toks[0].Type != "Number" {
		return nil, nil // not a Number token: never reaches the conversion
	}
	parsed := GNone
	if v, err := strconv.ParseInt(rp.Text, 0, 64); err == nil {
		parsed = GSome(GZ(v))
	}
	from := GNone
	if v, err := strconv.ParseInt(rp.Text, 10, 64); err == nil && fmt.Sprintf("%d", v) == rp.Text {
		from = GSome(GZ(v))
	}
	return &Case{Replay: rp, Stream: "int", Coq: GApp("KInt", GStr(rp.Text), parsed, from), NonTrivial: len(rp.Text) > 1, Tags: []string{"int:" + map[bool]string{true: "ok", false: "error"}[parsed != GNone]}}, nil
}

func gWres(f func() bool) string {
	var b bool
	if guarded(func() { b = f() }) {
		return "WPanic"
	}
	if b {
		return "WTrue"
	}
	return "WFalse"
}

func toLE(e Ev) model.LogEvent {
	f, _ := field.NewFieldsFromSlice(e.slice()...)
	return model.LogEvent{Timestamp: e.Ts, Msg: []byte(e.Msg), Fields: f}
}

func gEvent(e Ev) string {
	le := toLE(e)
	return GTuple(GZ(e.Ts), GStr(e.Msg), GStr(string(le.Fields)))
}

// pipeCase: CREATE PIPE p FROM S WHERE F; srv != nil runs the statement through Admin.Execute
func pipeCase(rp Replay, srv *Server, seq *int) (*Case, error) {
	cs := &Case{Replay: rp, Stream: rp.Stream}
	env := newEnv()
	env.addTokens(rp.Text)
	var tsets, evs []string
	var sets []tag.Set
	for _, m := range sampleTagsets {
		s := tag.MapToSet(m)
		sets = append(sets, s)
		tsets = append(tsets, gTagset(s))
	}
	for _, e := range sampleEvents {
		evs = append(evs, gEvent(e))
	}
	l, err := lql.ParseLql(rp.Text)
	if err != nil || l.Create == nil || l.Create.Pipe == nil {
		if !env.stable {
			return nil, nil
		}
		cs.Coq = GApp("KPipe", GStr(rp.Text), env.gallina(), GList(tsets), GList(evs), "PErr")
		cs.Tags = []string{"pipe:not-a-pipe"}
		return cs, nil
	}
	p := l.Create.Pipe
	// a {tags} source is also asked about its own tag set and a superset of it (it must select both, before and after
	// the conditions went through print and re-parse)
	maps := append([]map[string]string{}, sampleTagsets...)
	if p.From != nil && p.From.Tags != nil {
		own, more := map[string]string{}, map[string]string{"zz-extra": "1"}
		for _, kv := range tag.VC12TagPairs(p.From.Tags.Tags) {
			own[kv[0]], more[kv[0]] = kv[1], kv[1]
		}
		for _, m := range []map[string]string{own, more} {
			maps = append(maps, m)
			st := tag.MapToSet(m)
			sets = append(sets, st)
			tsets = append(tsets, gTagset(st))
		}
	}
	env.addLql(l)
	tc, fc := p.From.String(), p.Where.String()
	env.addTokens(tc)
	env.addTokens(fc)
	if !env.stable {
		return nil, nil
	}
	var strs []string
	astCaseStrings(p.Where, &strs)
	if p.From != nil && p.From.Expr != nil {
		astCaseStrings(p.From.Expr, &strs)
	}
	fail := func(class, detail string) {
		if cs.Oracle == nil {
			cs.Oracle = &Violation{Class: class, Detail: detail}
		}
	}
	if srv != nil {
		*seq++
		name := p.Name
		if _, err := srv.Exec(rp.Text); err == nil {
			st, gerr := srv.Pipes.GetPipe(name)
			if gerr != nil {
				fail("pipe-created-not-found", name)
			} else if _, e1 := lql.BuildTagsExpFunc(tc); e1 != nil {
				fail("pipe-unbuildable-created", fmt.Sprintf("%q was accepted although its source condition %q does not build: %v", rp.Text, tc, e1))
			} else if _, e2 := lql.BuildWhereExpFunc(fc); e2 != nil {
				fail("pipe-unbuildable-created", fmt.Sprintf("%q was accepted although its filter %q does not build: %v", rp.Text, fc, e2))
			} else if st.TagsCond != tc || st.FltCond != fc {
				fail("pipe-stored-conditions", fmt.Sprintf("%q stored (%q, %q), From/Where print as (%q, %q)", rp.Text, st.TagsCond, st.FltCond, tc, fc))
			}
			srv.Pipes.DeletePipe(name)
		} else {
			// creation refused: the printed conditions must be the ones that do not build
			_, e1 := lql.BuildTagsExpFunc(tc)
			_, e2 := lql.BuildWhereExpFunc(fc)
			if e1 == nil && e2 == nil {
				fail("pipe-create-refused", fmt.Sprintf("%q: %v", rp.Text, err))
			}
		}
		_ = pipe.Pipe{}
	}
	// the pipe's functions as newPPipe builds them (from the stored texts) ...
	srcF, serr := lql.BuildTagsExpFunc(tc)
	fltF, ferr := lql.BuildWhereExpFunc(fc)
	// ... and the functions of the statement's own S and F
	srcD, sderr := lql.BuildTagsExpFuncBySource(p.From)
	fltD, fderr := lql.BuildWhereExpFuncByExpression(p.Where)
	src, flt := GNone, GNone
	if serr == nil {
		var it []string
		for i, s := range sets {
			s := s
			r := gWres(func() bool { return srcF(s) })
			it = append(it, r)
			if sderr == nil {
				if d := gWres(func() bool { return srcD(s) }); d != r {
					fail("pipe-source-meaning-changed", fmt.Sprintf("%q: on tags %v the stored source condition %q gives %s, S gives %s", rp.Text, maps[i], tc, r, d))
				}
			}
			// independent meaning of S
			if want, ok := evalSource(p.From, maps[i]); ok && r != "WPanic" && (r == "WTrue") != want {
				fail("pipe-source-meaning-changed", fmt.Sprintf("%q: on tags %v the pipe's source function gives %s, S means %v", rp.Text, maps[i], r, want))
			}
		}
		src = GSome(GList(it))
	}
	if (serr == nil) != (sderr == nil) {
		fail("pipe-source-buildability-changed", fmt.Sprintf("%q: S builds: %v, its print %q builds: %v", rp.Text, sderr == nil, tc, serr == nil))
	}
	if ferr == nil {
		var it []string
		v := classify(p.Where, parseTime)
		for i, e := range sampleEvents {
			le := toLE(e)
			r := gWres(func() bool { return fltF(&le) })
			it = append(it, r)
			if fderr == nil {
				le2 := toLE(e)
				if d := gWres(func() bool { return fltD(&le2) }); d != r {
					fail("pipe-filter-meaning-changed", fmt.Sprintf("%q: on event %d the stored filter %q gives %s, F gives %s", rp.Text, i, fc, r, d))
				}
			}
			if v.evaluable && r != "WPanic" && (r == "WTrue") != evalExpr(p.Where, parseTime, e) {
				fail("pipe-filter-meaning-changed", fmt.Sprintf("%q: on event %d the pipe's filter gives %s, F means the opposite", rp.Text, i, r))
			}
		}
		flt = GSome(GList(it))
	}
	if (ferr == nil) != (fderr == nil) {
		fail("pipe-filter-buildability-changed", fmt.Sprintf("%q: F builds: %v, its print %q builds: %v", rp.Text, fderr == nil, fc, ferr == nil))
	}
	cs.Tags = []string{"pipe:parsed"}
	if !lqlCaseOK(strs) {
		cs.Coq = GApp("KQuote", "[]", GStr(`""`))
		cs.Key = "skip:" + rp.Text
		cs.Tags = []string{"k:skipped-non-ascii-case"}
		return cs, nil
	}
	cs.Coq = GApp("KPipe", GStr(rp.Text), env.gallina(), GList(tsets), GList(evs), GApp("POk", GStr(tc), GStr(fc), src, flt))
	cs.NonTrivial = p.From != nil && p.Where != nil
	return cs, nil
}

// ---------------------------------------------------------------- driver

var corpus = []Replay{
	{Kind: "stmt", Text: `SELECT`}, {Kind: "stmt", Text: `SHOW`}, {Kind: "stmt", Text: `DESCRIBE`}, {Kind: "stmt", Text: `TRUNCATE`},
	{Kind: "stmt", Text: `CREATE`}, {Kind: "stmt", Text: `DELETE`}, {Kind: "stmt", Text: `SHOW PARTITIONS`}, {Kind: "stmt", Text: `SHOW PIPES`},
	{Kind: "stmt", Text: `TRUNCATE DRYRUN a=b MINSIZE 5kb MAXSIZE 1G BEFORE "2019-03-11 12:34:55" MAXDBSIZE 7`},
	{Kind: "stmt", Text: `TRUNCATE MAXDBSIZE 10G`},
	{Kind: "stmt", Text: `TRUNCATE BEFORE "2019-03-11 12:34:55"`},
	{Kind: "stmt", Text: `SELECT RANGE [ WHERE a=b`},
	{Kind: "stmt", Text: "SELECT FROM {a=b}\nWHERE msg contains \"}\""},
	{Kind: "stmt", Text: `SELECT "" LIMIT 5`}, {Kind: "stmt", Text: `SELECT ""`},
	{Kind: "stmt", Text: `SELECT RANGE ["1552307695000000123":"2019-03-11 12:34:55"] POSITION tail OFFSET -5 LIMIT 010`},
	{Kind: "stmt", Text: `'SELECT' 'FROM' a=b`}, {Kind: "stmt", Text: `SELECT WHERE NOT not = 5`}, {Kind: "stmt", Text: `TRUNCATE MINSIZE = 5`},
	{Kind: "stmt", Text: `SHOW PARTITIONS LIMIT 5`}, {Kind: "stmt", Text: `SHOW PIPES a=b OFFSET 1`},
	{Kind: "stmt", Text: `TRUNCATE MINSIZE 9223372036854775808`},
	// ParseLql's rule for a keyword-only text: the bare SELECT keyword (blanks around it, any case) is &Select{}; a quoted
	// 'SELECT' (a String token the grammar's literal matches by value) and every other keyword are errors
	{Kind: "stmt", Text: " select\n"}, {Kind: "stmt", Text: `'SELECT'`}, {Kind: "stmt", Text: `"SELECT"`}, {Kind: "stmt", Text: `'SHOW'`},
	{Kind: "stmt", Text: `TRUNCATE MINSIZE 0 MAXSIZE 9223372036854775808 MAXDBSIZE 9223372036854775809`},
	{Kind: "stmt", Text: `TRUNCATE DRYRUN {a=b} BEFORE "1552307695000000123" MAXDBSIZE 1.5k`},
	// time points whose fraction has trailing zeros: every time point has the same value after print and re-parse
	{Kind: "stmt", Text: `SELECT RANGE ["2019-03-11 12:34:44.500 +0000 UTC":"2019-03-11 12:34:45.123 +0000 UTC"]`},
	{Kind: "stmt", Text: `TRUNCATE BEFORE "2019-03-11 12:34:44.250 +0000 UTC"`},
	{Kind: "stmt", Text: `SELECT RANGE "1552307684050000000" WHERE ts >= "2019-03-11 12:34:44.500 +0000 UTC" AND ts < '2019-03-11 12:34:44.5 +0000 UTC'`},
	{Kind: "stmt", Text: `SELECT RANGE [:"-500000000"] LIMIT 1`}, {Kind: "stmt", Text: `TRUNCATE BEFORE "2019-03-11 12:34:44.000000001 +0000 UTC"`},
	{Kind: "stmt", Text: `DESCRIBE PARTITION {a=b,c="d e"}`}, {Kind: "stmt", Text: `DESCRIBE PIPE p.1`}, {Kind: "stmt", Text: ` DELETE PIPE p:1/x-y`},
	{Kind: "stmt", Text: ``}, {Kind: "expr", Text: ``}, {Kind: "source", Text: ``},
	{Kind: "source", Text: `{a=b} OR c=d`}, {Kind: "source", Text: `{a="x,y",c=d}`}, {Kind: "source", Text: `{a="q\"uote"}`},
	// tag.Set.Line() quotes per value and position: every delicate value first, in the middle and last (name order decides)
	{Kind: "source", Text: `{a="web ",b=eu,c=z}`}, {Kind: "source", Text: `{a=eu,b="web ",c=z}`}, {Kind: "source", Text: `{a=eu,b=z,c="web "}`},
	{Kind: "source", Text: `{a=" web",b=eu,c=z}`}, {Kind: "source", Text: `{a=eu,b=" web",c=z}`}, {Kind: "source", Text: `{a=eu,b=z,c=" web"}`},
	{Kind: "source", Text: `{a="x}",b=eu,c=z}`}, {Kind: "source", Text: `{a=eu,b="x}",c=z}`}, {Kind: "source", Text: `{a=eu,b=z,c="x}"}`},
	{Kind: "source", Text: "{a=`\"q`,b=eu,c=z}"}, {Kind: "source", Text: "{a=eu,b=\"`q\",c=z}"}, {Kind: "source", Text: `{a=eu,b=z,c="x,y"}`},
	{Kind: "source", Text: "{a=\"new\\nline\",b=c}"}, {Kind: "source", Text: `{a=b,c="in\"ner"}`},
	{Kind: "source", Text: `{a="k=v",b="",c=" "}`}, {Kind: "source", Text: `{a="web ",b=" web ",c="web  "}`},
	// a value that ends with one / two backslashes, first, in the middle and last in the sorted line (Line() prints it raw: the
	// scanner must not take the backslash for an escape outside a quoted value); a backslash before , = " in both kinds of value
	{Kind: "source", Text: `{a="C:\\logs\\",b=h1,c=z}`}, {Kind: "source", Text: `{a=h1,b="C:\\logs\\",c=z}`}, {Kind: "source", Text: `{a=h1,b=z,c="C:\\logs\\"}`},
	{Kind: "source", Text: `{a="x\\\\",b=h1,c=z}`}, {Kind: "source", Text: `{a=h1,b="x\\\\",c=z}`}, {Kind: "source", Text: `{a=h1,b=z,c="x\\\\"}`},
	{Kind: "source", Text: `{a=x\,b=y}`}, {Kind: "source", Text: `{a=x\\,b=y,c=z\}`}, {Kind: "source", Text: `{a=\,b=\\}`}, {Kind: "source", Text: `{a=x\"y,b=z}`}, {Kind: "source", Text: `{a=x\=y,b=z}`},
	{Kind: "source", Text: `{a="x\\,y",b=z}`}, {Kind: "source", Text: `{a="k\\=v",b="\\"}`}, {Kind: "source", Text: `{a="\\ ",b=" \\",c=z}`},
	{Kind: "stmt", Text: `SELECT FROM {dir="C:\\logs\\",host=h1} LIMIT 1`}, {Kind: "stmt", Text: `TRUNCATE {host=h1,dir="C:\\logs\\",zone=eu}`},
	{Kind: "stmt", Text: `SHOW PARTITIONS {a=h1,b="x\\\\",c=z}`}, {Kind: "stmt", Text: `DESCRIBE PARTITION {dir="C:\\logs\\",host=h1}`},
	{Kind: "stmt", Text: `SELECT FROM {dir=C:\logs\,host=h1} WHERE msg contains "x"`},
	{Kind: "pipe", Text: `CREATE PIPE bs1 FROM {dir="C:\\logs\\",host=h1}`}, {Kind: "pipee2e", Text: `CREATE PIPE bs2 FROM {dir="C:\\logs\\",host=h1} WHERE msg contains "x"`},
	{Kind: "pipee2e", Text: `CREATE PIPE bs3 FROM {a=h1,b="x\\\\",c=z}`},
	{Kind: "stmt", Text: `SELECT FROM {host="web ",zone=eu} LIMIT 5`}, {Kind: "stmt", Text: `TRUNCATE {host=eu,zone="web "}`},
	{Kind: "stmt", Text: `SHOW PARTITIONS {a=" x",b="y ",c=z} LIMIT 3`}, {Kind: "stmt", Text: `DESCRIBE PARTITION {host="web ",zone=eu}`},
	{Kind: "pipe", Text: `CREATE PIPE p FROM {host="web ",zone=eu}`},
	// boundaries: both ends of int64 in OFFSET / LIMIT, of uint64 in sizes, of the int64 nanoseconds in time points (and one beyond)
	{Kind: "stmt", Text: `SELECT OFFSET -9223372036854775808 LIMIT 9223372036854775807`}, {Kind: "stmt", Text: `SELECT OFFSET 9223372036854775808`},
	{Kind: "stmt", Text: `SELECT LIMIT -9223372036854775809`}, {Kind: "stmt", Text: `SHOW PARTITIONS OFFSET -1 LIMIT 0`}, {Kind: "stmt", Text: `SHOW PIPES OFFSET 2147483648 LIMIT 4294967296`},
	{Kind: "stmt", Text: `SELECT OFFSET -0 LIMIT +0`}, {Kind: "stmt", Text: `SELECT LIMIT 0777777777777777777777`}, {Kind: "stmt", Text: `SELECT LIMIT 01000000000000000000000`},
	{Kind: "stmt", Text: `TRUNCATE MINSIZE 9223372036854775807 MAXSIZE 18446744073709551615 MAXDBSIZE 1`}, {Kind: "stmt", Text: `TRUNCATE MAXSIZE 18446744073709551616`},
	{Kind: "stmt", Text: `TRUNCATE MINSIZE 15EiB MAXDBSIZE 16EiB`}, {Kind: "stmt", Text: `TRUNCATE MINSIZE 0.5 MAXSIZE 1.0005kb`},
	{Kind: "stmt", Text: `SELECT RANGE ["-9223372036854775808":"9223372036854775807"]`}, {Kind: "stmt", Text: `SELECT RANGE ["1677-09-21 00:12:43.145224192 +0000 UTC":"2262-04-11 23:47:16.854775807 +0000 UTC"]`},
	{Kind: "stmt", Text: `SELECT RANGE "2262-04-11 23:47:16.854775808 +0000 UTC"`}, {Kind: "stmt", Text: `SELECT RANGE ["1000-01-01":"2999-12-31 23:59:59"]`},
	{Kind: "stmt", Text: `TRUNCATE BEFORE "2020-02-29 23:59:59.999999999 +0000 UTC"`}, {Kind: "stmt", Text: `TRUNCATE BEFORE "2019-03-11 12:34:44 -0700 MST"`},
	{Kind: "stmt", Text: `SELECT RANGE ["1969-12-31 23:59:59.999999999 +0000 UTC":"1970-01-01 00:00:00 +0000 UTC"]`},
	// blanks the lexer skips: form feed, carriage return (the bare-SELECT rule trims with strings.TrimSpace)
	{Kind: "stmt", Text: "SELECT\r\n"}, {Kind: "stmt", Text: "\fSELECT\t"}, {Kind: "stmt", Text: "SELECT\fLIMIT\r5"}, {Kind: "stmt", Text: "SELECT\u00a0"}, {Kind: "stmt", Text: "SELECT\u0085"},
	// names: the same in another case, prefixes of each other, long; tag names that differ in case only, a repeated name
	{Kind: "stmt", Text: `DESCRIBE PIPE P`}, {Kind: "stmt", Text: `DELETE PIPE ` + strings.Repeat("n", 300)}, {Kind: "pipe", Text: `CREATE PIPE Pipe1 FROM {a=1,A=2,ab=3,a.b=4}`},
	{Kind: "source", Text: `{a=1,A=2}`}, {Kind: "source", Text: `{b=1,B=2,a=3}`}, {Kind: "source", Text: `{a=1,a=2}`}, {Kind: "source", Text: `{a=x,ab=y,a.b=z,a-b=w,1a=v}`},
	// many conditions, deep nesting
	{Kind: "expr", Text: "a=1" + strings.Repeat(" AND NOT b != 2 OR c like \"x*\"", 20)}, {Kind: "expr", Text: strings.Repeat("(", 12) + "a=b" + strings.Repeat(")", 12)},
	{Kind: "expr", Text: strings.Repeat("NOT (", 8) + "a=b" + strings.Repeat(")", 8)}, {Kind: "expr", Text: "upper(lower(upper(lower(upper(a))))) = X"},
	{Kind: "stmt", Text: `SELECT POSITION ""`}, {Kind: "stmt", Text: `SELECT POSITION "` + strings.Repeat("A", 400) + `"`},
	{Kind: "expr", Text: `a = 'q"uote' and b="\x41\101é" or NOT (c>=d.e/f-1:2 and upper(lower(t))<x)`},
	{Kind: "pipe", Text: `CREATE PIPE p FROM name=app1 OR name like "app*" WHERE msg contains "err" AND NOT ts < 5`},
	{Kind: "pipe", Text: `CREATE PIPE p FROM {name=app1} WHERE fields:a = x`},
	{Kind: "pipe", Text: `CREATE PIPE p`},
	{Kind: "pipe", Text: `CREATE PIPE p FROM a like "[x" WHERE msg like "[x"`},
	// through Admin.Execute: a definition whose conditions do not build is refused (and leaves no pipe), the same name twice is refused
	{Kind: "pipee2e", Text: `CREATE PIPE bad1 FROM a like "[x"`}, {Kind: "pipee2e", Text: `CREATE PIPE bad2 WHERE msg like "[x"`},
	{Kind: "pipee2e", Text: `CREATE PIPE bad3 WHERE foo = 1`}, {Kind: "pipee2e", Text: `CREATE PIPE ok1 FROM {a="web ",b=eu} WHERE NOT msg contains "x"`},
}

func main() {
	// time literals are printed and parsed in the local zone: pin it, the verdict must not depend on the host
	time.Local = time.UTC
	Main("C12", "C12K", func(c *Ctx) error {
		var srv *Server
		defer func() {
			if srv != nil {
				srv.Stop()
			}
		}()
		seq := 0
		run := func(rp Replay) (rerr error) {
			var cs *Case
			var err error
			// a panic of the code under test on this input is a verdict with this input as its replay, not the end of the run
			defer func() {
				if p := recover(); p != nil {
					c.Add(Case{Replay: rp, Stream: rp.Stream, Coq: GApp("KQuote", "[]", GStr(`""`)), Key: "panic:" + rp.Kind + ":" + rp.Text,
						Oracle: &Violation{Class: rp.Kind + "-panic", Detail: fmt.Sprintf("%q: the parser / printer panicked: %v", rp.Text, p)}})
					rerr = nil
				}
			}()
			switch rp.Kind {
			case "stmt":
				cs, err = stmtCase(rp)
			case "expr":
				cs, err = exprCase(rp)
			case "source":
				cs, err = sourceCase(rp)
			case "quote":
				cs, err = quoteCase(rp)
			case "int":
				cs, err = intCase(rp)
			case "pipe":
				cs, err = pipeCase(rp, nil, &seq)
			case "pipee2e":
				if srv == nil {
					srv, err = StartServer(ServerOpts{NoRPC: true})
					if err != nil {
						return err
					}
				}
				cs, err = pipeCase(rp, srv, &seq)
			default:
				err = fmt.Errorf("unknown case kind %q", rp.Kind)
			}
			if err != nil {
				return err
			}
			if cs == nil {
				c.Tag("dropped:clock-dependent-or-not-a-number-token")
				return nil
			}
			if cs.Stream == "" {
				cs.Stream = rp.Kind
			}
			if cs.Oracle != nil && (cs.Oracle.Class == "stmt-tags-then-brace-not-reparsable" || cs.Oracle.Class == "source-tags-inner-dquote-not-reparsable") {
				// a recorded class: the verdict goes to a case of its own, so that the K comparison of this case is still looked at
				// (the driver skips the K disagreement of a case that O has reported)
				o := *cs
				o.Coq, o.Key, o.NonTrivial = GApp("KQuote", "[]", GStr(`""`)), "verdict:"+cs.Oracle.Detail, false
				cs.Oracle = nil
				c.Add(*cs)
				c.Add(o)
				return nil
			}
			c.Add(*cs)
			return nil
		}
		if c.Replay != nil {
			var rp Replay
			if err := FromJSON(c.Replay, &rp); err != nil {
				return err
			}
			if err := run(rp); err != nil {
				return err
			}
			return c.Finish(rule)
		}
		if d := nilNodes(); d != "" {
			c.Add(Case{Replay: Replay{Kind: "quote", Text: ""}, Stream: "corpus", Coq: GApp("KQuote", "[]", GStr(`""`)), Key: "nil-nodes",
				Oracle: &Violation{Class: "absent-node-prints-text", Detail: d}})
		}
		for _, rp := range corpus {
			rp.Stream = "corpus"
			if err := run(rp); err != nil {
				return err
			}
		}
		for i := 0; i < c.N(420); i++ {
			r := c.Rng.Fork()
			g := newSGen(r)
			text := g.stmt()
			if r.Chance(1, 6) {
				text = mutate(r, text)
			}
			if err := run(Replay{Kind: "stmt", Text: text, Stream: "stmt"}); err != nil {
				return err
			}
		}
		for i := 0; i < c.N(200); i++ {
			r := c.Rng.Fork()
			g := newSGen(r)
			text := g.g.expr(r.PickInt(0, 1, 2, 3, 4, 6))
			if r.Chance(1, 6) {
				text = mutate(r, text)
			}
			if err := run(Replay{Kind: "expr", Text: text, Stream: "expr"}); err != nil {
				return err
			}
		}
		for i := 0; i < c.N(120); i++ {
			r := c.Rng.Fork()
			g := newSGen(r)
			text := g.source()
			if r.Chance(1, 6) {
				text = mutate(r, text)
			}
			if err := run(Replay{Kind: "source", Text: text, Stream: "source"}); err != nil {
				return err
			}
		}
		for i := 0; i < c.N(100); i++ {
			r := c.Rng.Fork()
			if err := run(Replay{Kind: "quote", Text: hostileString(r)}); err != nil {
				return err
			}
		}
		for i := 0; i < c.N(80); i++ {
			r := c.Rng.Fork()
			text := ""
			switch r.Intn(4) {
			case 0:
				text = fmt.Sprintf("%d", r.I64())
			case 1:
				text = fmt.Sprintf("%d", int64(r.Intn(2000))-1000)
			case 2:
				text = r.PickStr("0", "-0", "+0", "00", "010", "-017", "08", "0x10", "0b1", "0o7", "9223372036854775807", "9223372036854775808", "-9223372036854775808", "-9223372036854775809", "+5", "5k", "1.5", "1e3", "-", "+", "1_000")
			default:
				text = string(r.Bytes(r.PickInt(1, 2, 4), []byte("0123456789-+")))
			}
			if err := run(Replay{Kind: "int", Text: text}); err != nil {
				return err
			}
		}
		for i := 0; i < c.N(110); i++ {
			r := c.Rng.Fork()
			g := newSGen(r)
			kind := "pipe"
			if i%4 == 0 {
				kind = "pipee2e"
			}
			if err := run(Replay{Kind: kind, Text: g.createPipe(), Stream: kind}); err != nil {
				return err
			}
		}
		return c.Finish(rule)
	})
}
