package main

import (
	"fmt"
	"strings"

	. "verifharness/common"
)

// statement generator: every statement kind of the Lql grammar, every optional clause, with
// string values that need quoting/escaping or are not ASCII, identifiers with : . / -, and
// numbers with signs, leading zeros and size suffixes.

type sgen struct {
	r *Rng
	g *gen
}

func newSGen(r *Rng) *sgen {
	base := int64(1552307695000000000)
	return &sgen{r: r, g: &gen{r: r, tsPool: []int64{base, base + 10, 5, 0, -7}, kinds: map[string]bool{}, edge: r.Chance(1, 10), maxNest: 3}}
}

var hostile = []string{"", "a", "q\"uote", "back\\slash", "it's", "new\nline", "tab\there", "日本語", "é", "\u00a0nbsp", "\x7f", "\x01", "a=b", "x,y", "{b}", "}", "a}b", "[x", "*", " lead", "trail ", "AND", "or", "NOT", "select", "\U0001F600", "%d", "`bq`", "0x1F", "\u2028"}

func hostileString(r *Rng) string {
	switch r.Intn(4) {
	case 0:
		return hostile[r.Intn(len(hostile))]
	case 1:
		return hostile[r.Intn(len(hostile))] + hostile[r.Intn(len(hostile))]
	case 2:
		b := r.Bytes(r.PickInt(1, 2, 5, 12), []byte("ab \"\\'\n\t{}=,*[]\x00\x7fz"))
		return string(b)
	}
	// arbitrary bytes incl. invalid UTF-8
	return string(r.Bytes(r.PickInt(1, 3, 8), nil))
}

var idents = []string{"p", "pipe1", "p.1", "a-b", "x/y", "ns:name", "_u", "P_2.x/y-z:9", "forwarder",
	// the same name in another case, a one-letter name, names that are prefixes of each other, a long one
	"P", "Pipe1", "a", "ab", "a.b", "selectx", "piper", "x" + strings.Repeat("y", 199)}

func (s *sgen) ident() string { return idents[s.r.Intn(len(idents))] }

func (s *sgen) kw(w string) string { return s.g.kw(w) }
func (s *sgen) sp() string         { return s.g.sp() }

var plainTagVals = []string{"b", "app1", "1.2.3.4", "x-y", "d_e", "v:1"}

var delicateTagVals = []string{`"C:\\logs\\"`, `"x\\\\"`, `"\\"`, `"a\\b"`, `"trail "`, `" lead"`, `" both "`, `"x,y"`, `"a=b"`, `""`, `"x}"`, `"}"`, "`b q`", "`x `", `"a b"`, `" "`, "\"`bq\"", `"{x"`}

// a {tags} token; plain = values the tag line printer is known to print re-parsably (C08)
func (s *sgen) tags(plain bool) string {
	n := s.r.PickInt(1, 1, 2, 3)
	if !plain {
		n = s.r.PickInt(1, 2, 2, 3, 3, 4)
	}
	names := []string{"a", "name", "ip", "c", "k-1", "x.y"}
	if !plain || s.r.Chance(1, 3) {
		// names that differ in case only (upper case sorts first), prefixes of each other, digits first, and one repeated:
		// the order of the sorted line and which value counts as the last one depend on them
		names = []string{"a", "A", "ab", "a.b", "a-b", "B", "1a", "name", "Name", "z", "a"}
	}
	var ps []string
	for _, i := range s.r.Perm(len(names))[:n] {
		v := plainTagVals[s.r.Intn(len(plainTagVals))]
		if !plain {
			v = s.r.PickStr(`"x,y"`, `"a=b"`, `""`, `"q\"uote"`, "`b q`", `" lead"`, `"x}"`, "日本", v,
				// edge blanks, separators, quote characters and braces: the names are drawn in random order, so such a value
				// comes first, in the middle and last in the sorted line (Line() quotes by value AND position)
				`"trail "`, `" both "`, `"two  "`, `" "`, `"tab\t"`, `"\tx"`, "`x `", "` x`", `"}"`, `"{x"`, `"x}y"`, "\"`bq\"", `"y\"`, `",x"`, `"x="`, `"a b"`, `"new\nline"`)
		} else if s.r.Chance(1, 4) {
			v = `"` + v + `"`
		} else if s.r.Chance(1, 4) {
			// delicate values that Line() is expected to print re-parsably, wherever they stand in the sorted line
			v = s.r.PickStr(delicateTagVals...)
		}
		ps = append(ps, names[i]+s.r.PickStr("=", "=", " = ")+v)
	}
	return "{" + s.r.PickStr("", " ") + strings.Join(ps, s.r.PickStr(",", ", ")) + "}"
}

// a source condition: {tags} or a tag expression
func (s *sgen) sourceP(plain bool) string {
	if s.r.Chance(1, 3) {
		return s.tags(plain)
	}
	return s.tagExpr(s.r.PickInt(0, 1, 1, 2))
}
func (s *sgen) source() string { return s.sourceP(s.r.Chance(1, 2)) }

func (s *sgen) tagCond() string {
	r := s.r
	name := r.PickStr("name", "a", "ip", "c", "k-1", "x.y", "lvl", "limit", "from")
	operand := s.g.wrapFuncs(name)
	if r.Chance(1, 2) {
		op := r.PickStr(strOps...)
		v := r.PickStr("app", "app*", "1.2.*", "b", "[a-c]", "x")
		if s.g.edge && r.Chance(1, 5) {
			v = r.PickStr(badPats...)
		}
		if r.Chance(1, 4) {
			v = hostileString(r)
		}
		return operand + s.sp() + s.kw(op) + s.sp() + s.value(v)
	}
	return operand + s.g.osp() + r.PickStr(symOps...) + s.g.osp() + s.value(r.PickStr("b", "app1", "d", "x", "B", hostileString(r)))
}

// values: quoted in several styles, or bare identifiers / numbers
func (s *sgen) value(v string) string {
	if strings.ContainsAny(v, "\x00") || !validForSingle(v) || s.r.Chance(2, 3) {
		if bareOK(v) && s.r.Chance(1, 3) {
			return v
		}
		return s.g.quote(v)
	}
	return "'" + v + "'"
}

func validForSingle(v string) bool { return !strings.ContainsAny(v, "'\\\n") }

func (s *sgen) tagExpr(depth int) string {
	n := s.r.PickInt(1, 1, 2, 3)
	var ors []string
	for i := 0; i < n; i++ {
		m := s.r.PickInt(1, 1, 2)
		var ands []string
		for j := 0; j < m; j++ {
			x := ""
			if s.r.Chance(1, 5) {
				x = s.kw("NOT") + s.sp()
			}
			if depth > 0 && s.r.Chance(1, 4) {
				x += "(" + s.g.osp() + s.tagExpr(depth-1) + s.g.osp() + ")"
			} else {
				x += s.tagCond()
			}
			ands = append(ands, x)
		}
		ors = append(ors, strings.Join(ands, s.sp()+s.kw("AND")+s.sp()))
	}
	return strings.Join(ors, s.sp()+s.kw("OR")+s.sp())
}

func (s *sgen) where() string {
	e := s.g.expr(s.r.PickInt(0, 1, 1, 2, 3))
	if s.r.Chance(1, 4) {
		// a condition with a hostile value
		e += s.sp() + s.kw("AND") + s.sp() + "msg" + s.sp() + s.kw("CONTAINS") + s.sp() + s.g.quote(hostileString(s.r))
	}
	return e
}

func (s *sgen) number() string {
	return s.r.PickStr("0", "5", "10", "100", "-5", "+7", "010", "007", "08", "1.5", "1e3", "5k", "9223372036854775807", "9223372036854775808", "-9223372036854775808", "00",
		// both ends of int64 and their neighbours, the ends of int32/uint32, signed zeros, the largest octal
		"9223372036854775806", "-9223372036854775807", "-9223372036854775809", "2147483647", "2147483648", "-2147483648", "4294967295", "4294967296",
		"-0", "+0", "-1", "1", "0777777777777777777777", "01000000000000000000000", "-01000000000000000000000")
}

func (s *sgen) size() string {
	return s.r.PickStr("0", "5", "1000", "5kb", "5KiB", "1G", "10M", "1.5kb", "2mib", "3Tb", "7b", "5bb", "1e3", "-5", "12pb", "1eb",
		// around 2^63 and 2^64 (Size is a uint64, printed in decimal), one byte, fractions of a byte
		"1", "9223372036854775807", "9223372036854775808", "18446744073709551615", "18446744073709551616", "8EiB", "15EiB", "16EiB", "15.9eb", "0.5", "0.5kb", "1.0005kb", "+5", "00012")
}

var timeLits = []string{"2019-03-11 12:34:55", "2019-03-11", "1552307695000000000", "1552307695000000123", "0", "-7", "2019-03-11T12:34:55Z", "11/03/2019 12:34:55",
	"2019/03/11 12:34", "2019-03-11 12:34:55.123", "Mar 11, 2019 2:34:55 PM", "garbage", "",
	// the ends of the instants an int64 of nanoseconds can hold, one beyond, years the date formats accept but int64 does not,
	// leap day, end of year, midnight, zones other than UTC, the epoch and the instant before it
	"2262-04-11 23:47:16.854775807 +0000 UTC", "2262-04-11 23:47:16.854775808 +0000 UTC", "1677-09-21 00:12:43.145224192 +0000 UTC",
	"1677-09-21 00:12:43.145224191 +0000 UTC", "9223372036854775807", "-9223372036854775808", "9223372036854775808", "2999-12-31 23:59:59", "1000-01-01",
	"2020-02-29 23:59:59.999999999 +0000 UTC", "2100-02-28 00:00:00", "2019-12-31 23:59:59.999999999", "2020-01-01 00:00:00 +0000 UTC",
	"2019-03-11 12:34:44 -0700 MST", "2019-03-11 12:34:44.500 +0545", "2019-03-11 23:59:59 +1400", "1970-01-01 00:00:00 +0000 UTC", "1969-12-31 23:59:59.999999999 +0000 UTC"}

// time points with a sub-second part, written with the zone as DateTime.String() writes it: the fraction must survive
// print and re-parse whatever its trailing zeros (.5 and .25 are what time.Time.String() makes of .500 and .250)
var fracLits = []string{"2019-03-11 12:34:44.500 +0000 UTC", "2019-03-11 12:34:44.250 +0000 UTC", "2019-03-11 12:34:44.050 +0000 UTC",
	"2019-03-11 12:34:44.001 +0000 UTC", "2019-03-11 12:34:44.000000001 +0000 UTC", "2019-03-11 12:34:44.5 +0000 UTC",
	"2019-03-11 12:34:44.25 +0000 UTC", "2019-03-11 12:34:44.120 +0000", "2019-03-11 12:34:44.100000000 +0000 UTC",
	"2019-03-11 12:34:45.123 +0000 UTC", "1969-12-31 23:59:59.900 +0000 UTC", "2019-03-11T12:34:44.700Z", "2019-03-11 12:34:44.990",
	"1552307684500000000", "1552307684250000000", "1552307684050000000", "1552307684001000000", "-500000000", "-1", "1"}

func (s *sgen) timeLit() string {
	v := timeLits[s.r.Intn(len(timeLits))]
	if s.r.Chance(1, 3) {
		v = fracLits[s.r.Intn(len(fracLits))]
	}
	if s.r.Chance(1, 5) {
		return "'" + v + "'"
	}
	return `"` + v + `"`
}

func (s *sgen) clause(p int, text string) string {
	if s.r.Intn(100) < p {
		return s.sp() + text
	}
	return ""
}

func (s *sgen) selectStmt() string {
	r := s.r
	q := s.kw("SELECT")
	q += s.clause(25, s.g.quote(r.PickStr("{ts} {msg}", "json", hostileString(r))))
	q += s.clause(60, s.kw("FROM")+s.sp()+s.sourceP(true))
	rng := ""
	switch r.Intn(5) {
	case 0:
		rng = s.timeLit()
	case 1:
		rng = "[" + s.timeLit() + ":" + s.timeLit() + "]"
	case 2:
		rng = "[:" + s.timeLit() + "]"
	case 3:
		rng = "[" + s.g.osp() + s.timeLit() + s.g.osp() + ":" + s.g.osp() + s.timeLit() + s.g.osp() + "]"
	case 4:
		rng = s.timeLit() + ":" + s.timeLit() + "]"
	}
	q += s.clause(30, s.kw("RANGE")+s.sp()+rng)
	q += s.clause(60, s.kw("WHERE")+s.sp()+s.where())
	q += s.clause(25, s.kw("POSITION")+s.sp()+r.PickStr("tail", "head", "TAIL", "HEAD", "Tail", `"tail"`, "'AAAAAAAA=='", s.g.quote(hostileString(r)), "abc:12/x"))
	q += s.clause(30, s.kw("OFFSET")+s.sp()+s.number())
	q += s.clause(40, s.kw("LIMIT")+s.sp()+s.number())
	return q
}

func (s *sgen) stmt() string {
	r := s.r
	switch k := r.Intn(100); {
	case k < 45:
		return s.selectStmt()
	case k < 55:
		q := s.kw("SHOW") + s.sp()
		if r.Chance(1, 2) {
			q += s.kw("PARTITIONS") + s.clause(60, s.sourceP(true))
		} else {
			q += s.kw("PIPES") + s.clause(15, s.sourceP(true))
		}
		q += s.clause(40, s.kw("OFFSET")+s.sp()+s.number())
		q += s.clause(40, s.kw("LIMIT")+s.sp()+s.number())
		return q
	case k < 63:
		if r.Chance(1, 2) {
			return s.kw("DESCRIBE") + s.sp() + s.kw("PARTITION") + s.sp() + s.tags(true)
		}
		return s.kw("DESCRIBE") + s.sp() + s.kw("PIPE") + s.sp() + s.ident()
	case k < 80:
		q := s.kw("TRUNCATE")
		q += s.clause(30, s.kw("DRYRUN"))
		q += s.clause(60, s.sourceP(true))
		q += s.clause(40, s.kw("MINSIZE")+s.sp()+s.size())
		q += s.clause(40, s.kw("MAXSIZE")+s.sp()+s.size())
		q += s.clause(35, s.kw("BEFORE")+s.sp()+s.timeLit())
		q += s.clause(12, s.kw("MAXDBSIZE")+s.sp()+s.size())
		return q
	case k < 92:
		return s.createPipe()
	case k < 97:
		return s.kw("DELETE") + s.clause(85, s.kw("PIPE")+s.sp()+s.ident())
	}
	return r.PickStr("SELECT", "SHOW", "DESCRIBE", "TRUNCATE", "CREATE", "DELETE", "select  ", "show partitions", "SHOW PIPES", "CREATE PIPE", "DESCRIBE PIPE", "")
}

func (s *sgen) createPipe() string {
	q := s.kw("CREATE") + s.sp() + s.kw("PIPE") + s.sp() + s.ident()
	q += s.clause(75, s.kw("FROM")+s.sp()+s.sourceP(true))
	q += s.clause(70, s.kw("WHERE")+s.sp()+s.where())
	return q
}

var _ = fmt.Sprint
