package common

import (
	"crypto/sha1"
	"encoding/hex"
	"encoding/json"
	"flag"
	"fmt"
	"io/ioutil"
	"os"
	"path/filepath"
	"sort"
	"strings"
	"time"
)

// Violation is a verdict of the oracle O (the property evaluated on the implementation's own
// observations, independent of the model).
type Violation struct {
	// Class is a narrow, stable name of what failed (it is what known_findings.jsonl matches on)
	Class  string `json:"class"`
	Detail string `json:"detail"`
}

// Case is one generated case: the Gallina term (input + projection observed on the
// implementation) that the model is evaluated on, and everything needed to replay it.
type Case struct {
	Coq        string      `json:"-"`
	Replay     interface{} `json:"replay"`
	NonTrivial bool        `json:"nontrivial"`
	Key        string      `json:"-"`
	Oracle     *Violation  `json:"oracle,omitempty"`
	Tags       []string    `json:"tags,omitempty"`
	Stream     string      `json:"stream,omitempty"`
}

type caseRec struct {
	Id    int `json:"id"`
	Shard int `json:"shard"`
	Idx   int `json:"idx"`
	Case
}

// Ctx is the state of one harness run
type Ctx struct {
	Prop      string
	KModule   string // Coq module with the correspondence checker, e.g. "C19K"
	Seed      uint64
	Tier      string
	Scale     int // multiplier of the case counts (1 quick)
	OutDir    string
	Replay    json.RawMessage // non-nil: re-run exactly this case
	Search    bool            // oracle search mode: larger budget around a failure
	Rng       *Rng
	ShardSize int

	cases   []caseRec
	seen    map[string]bool
	nontriv int
	dist    map[string]int
	notes   map[string]interface{}
	samples []interface{}
	start   time.Time
	extraK  []string
}

// Main is the entry of every per-property harness binary.
func Main(prop, kmodule string, run func(c *Ctx) error) {
	seed := flag.Uint64("seed", 1, "PRNG seed")
	tier := flag.String("tier", "quick", "quick|thorough")
	scale := flag.Int("scale", 1, "case count multiplier")
	out := flag.String("out", "", "output directory")
	replay := flag.String("replay", "", "replay file (json with a 'replay' member)")
	search := flag.Bool("search", false, "oracle search mode")
	flag.Parse()
	if *out == "" {
		fmt.Fprintln(os.Stderr, "need -out")
		os.Exit(2)
	}
	os.MkdirAll(*out, 0755)
	c := &Ctx{Prop: prop, KModule: kmodule, Seed: *seed, Tier: *tier, Scale: *scale, OutDir: *out,
		Search: *search, Rng: NewRng(*seed), ShardSize: 250, seen: map[string]bool{}, dist: map[string]int{},
		notes: map[string]interface{}{}, start: time.Now()}
	if *replay != "" {
		data, err := ioutil.ReadFile(*replay)
		if err != nil {
			fmt.Fprintln(os.Stderr, "replay:", err)
			os.Exit(2)
		}
		var w struct {
			Replay json.RawMessage `json:"replay"`
		}
		if err := json.Unmarshal(data, &w); err != nil || w.Replay == nil {
			fmt.Fprintln(os.Stderr, "replay: no 'replay' member", err)
			os.Exit(2)
		}
		c.Replay = w.Replay
	}
	Quiet()
	if err := run(c); err != nil {
		fmt.Fprintln(os.Stderr, "harness error:", err)
		os.Exit(3)
	}
}

// Add registers a case
func (c *Ctx) Add(cs Case) {
	key := cs.Key
	if key == "" {
		key = cs.Coq
	}
	h := sha1.Sum([]byte(key))
	hk := hex.EncodeToString(h[:8])
	dup := c.seen[hk]
	c.seen[hk] = true
	if cs.NonTrivial && !dup {
		c.nontriv++
	}
	for _, t := range cs.Tags {
		c.dist[t]++
	}
	if cs.Stream != "" {
		c.dist["stream:"+cs.Stream]++
	}
	id := len(c.cases)
	ss := c.ShardSize
	c.cases = append(c.cases, caseRec{Id: id, Shard: id / ss, Idx: id % ss, Case: cs})
	if len(c.samples) < 3 || (cs.NonTrivial && len(c.samples) < 6) {
		c.samples = append(c.samples, cs.Replay)
	}
}

// Count returns how many cases were added so far
func (c *Ctx) Count() int { return len(c.cases) }

// Note records a key in the report (input distribution, measurements)
func (c *Ctx) Note(k string, v interface{}) { c.notes[k] = v }

// Tag counts a distribution tag that is not tied to a case
func (c *Ctx) Tag(t string) { c.dist[t]++ }

// N scales a quick-tier case count by tier
func (c *Ctx) N(quick int) int {
	n := quick * c.Scale
	if c.Tier == "thorough" {
		n *= 8
	}
	if c.Search {
		n *= 4
	}
	return n
}

// Finish writes the shards, the case index and the report
func (c *Ctx) Finish(rule string) error {
	nsh := 0
	if len(c.cases) > 0 {
		nsh = (len(c.cases)-1)/c.ShardSize + 1
	}
	var shards []string
	for s := 0; s < nsh; s++ {
		var sb strings.Builder
		fmt.Fprintf(&sb, "From LR Require Import kcheck.%s.\n", c.KModule)
		sb.WriteString("Import ListNotations.\nOpen Scope list_scope.\n")
		var names []string
		lo, hi := s*c.ShardSize, (s+1)*c.ShardSize
		if hi > len(c.cases) {
			hi = len(c.cases)
		}
		for i := lo; i < hi; i++ {
			fmt.Fprintf(&sb, "Definition c_%d : %s.case := %s.\n", i-lo, c.KModule, c.cases[i].Coq)
			names = append(names, fmt.Sprintf("c_%d", i-lo))
		}
		fmt.Fprintf(&sb, "Definition cases : list %s.case := %s.\n", c.KModule, GList(names))
		fmt.Fprintf(&sb, "Definition M := Eval vm_compute in %s.mismatches cases.\nPrint M.\n", c.KModule)
		fn := fmt.Sprintf("cases_%d.v", s)
		if err := ioutil.WriteFile(filepath.Join(c.OutDir, fn), []byte(sb.String()), 0644); err != nil {
			return err
		}
		shards = append(shards, fn)
	}
	// case index
	f, err := os.Create(filepath.Join(c.OutDir, "cases.jsonl"))
	if err != nil {
		return err
	}
	enc := json.NewEncoder(f)
	viol := []caseRec{}
	for _, cr := range c.cases {
		if err := enc.Encode(cr); err != nil {
			return err
		}
		if cr.Oracle != nil {
			viol = append(viol, cr)
		}
	}
	f.Close()
	dk := make([]string, 0, len(c.dist))
	for k := range c.dist {
		dk = append(dk, k)
	}
	sort.Strings(dk)
	dist := map[string]int{}
	for _, k := range dk {
		dist[k] = c.dist[k]
	}
	rep := map[string]interface{}{
		"property":            c.Prop,
		"seed":                c.Seed,
		"tier":                c.Tier,
		"evaluations":         len(c.cases),
		"distinct":            len(c.seen),
		"distinct_nontrivial": c.nontriv,
		"rule":                rule,
		"samples":             c.samples,
		"distribution":        dist,
		"shards":              shards,
		"oracle_violations":   viol,
		"notes":               c.notes,
		"harness_wall_s":      time.Since(c.start).Seconds(),
		"replay_mode":         c.Replay != nil,
	}
	data, _ := json.MarshalIndent(rep, "", " ")
	return ioutil.WriteFile(filepath.Join(c.OutDir, "report.json"), data, 0644)
}
