package common

import "syscall"

// NoFileLimit raises the limit of open descriptors of this process as far as it may (the soft limit to the
// hard one; the hard one too where the process is privileged) and returns the limit in force afterwards. The
// in-process servers of a harness leave the descriptors of their chunk files open (the journal controller of
// the range module has no Shutdown), so a harness budgets its cases by this number.
func NoFileLimit() uint64 {
	var rl syscall.Rlimit
	if syscall.Getrlimit(syscall.RLIMIT_NOFILE, &rl) != nil {
		return 1024
	}
	for _, want := range []uint64{1 << 20, 1 << 19, 1 << 18, 1 << 17} {
		if rl.Max >= want {
			break
		}
		if syscall.Setrlimit(syscall.RLIMIT_NOFILE, &syscall.Rlimit{Cur: want, Max: want}) == nil {
			break
		}
	}
	if syscall.Getrlimit(syscall.RLIMIT_NOFILE, &rl) != nil {
		return 1024
	}
	if rl.Cur < rl.Max {
		rl.Cur = rl.Max
		syscall.Setrlimit(syscall.RLIMIT_NOFILE, &rl)
		syscall.Getrlimit(syscall.RLIMIT_NOFILE, &rl)
	}
	return rl.Cur
}
