package common

import (
	"context"
	"fmt"
	"io/ioutil"
	"net"
	"os"
	"path"
	"strings"
	"sync"
	"time"

	"github.com/jrivets/log4g"
	"github.com/logrange/linker"
	"github.com/logrange/logrange/api"
	"github.com/logrange/logrange/api/rpc"
	"github.com/logrange/logrange/pkg/backend"
	"github.com/logrange/logrange/pkg/cursor"
	"github.com/logrange/logrange/pkg/partition"
	"github.com/logrange/logrange/pkg/pipe"
	"github.com/logrange/logrange/pkg/tindex"
	"github.com/logrange/logrange/pkg/tmindex"
	"github.com/logrange/logrange/server"
	"github.com/logrange/range/pkg/cluster/model"
	"github.com/logrange/range/pkg/kv/inmem"
	"github.com/logrange/range/pkg/records/journal/ctrlr"
	"github.com/logrange/range/pkg/transport"
	"github.com/logrange/range/pkg/utils/bytes"
)

// Server is the logrange server assembled in-process. The wiring mirrors
// /repo/server/server.go (Start) component by component, but the harness keeps the
// component pointers so that it can drive the backends directly (without RPC) too.
type Server struct {
	Dir    string
	OwnDir bool
	Cfg    *server.Config
	Addr   string

	Admin      *backend.Admin
	Querier    *backend.Querier
	Partitions *partition.Service
	Pipes      *pipe.Service
	TIndex     tindex.Service
	TsIndexer  tmindex.TsIndexer
	Provider   cursor.Provider
	JCtrl      interface{}

	inj    *linker.Injector
	ctx    context.Context
	cancel context.CancelFunc
	once   sync.Once
	Client *rpc.Client
}

// ServerOpts configure StartServer
type ServerOpts struct {
	Dir           string // "" => fresh temp dir, removed at Stop
	MaxChunkSize  int64
	MaxRecordSize int64
	WriteFlushMs  int
	NoRPC         bool // do not open rpc client
	EnsureAtStart []pipe.Pipe
}

var logOnce sync.Once

// Quiet silences log4g
func Quiet() {
	logOnce.Do(func() {
		log4g.SetLogLevel("", log4g.FATAL)
	})
}

// TempDir makes a scratch directory outside /repo and /verif
func TempDir(prefix string) string {
	base := os.Getenv("VERIF_SCRATCH")
	if base == "" {
		base = os.TempDir()
	}
	d, err := ioutil.TempDir(base, "lrv-"+prefix+"-")
	if err != nil {
		panic(err)
	}
	return d
}

// FreePort returns a free loopback tcp port
func FreePort() int {
	l, err := net.Listen("tcp", "127.0.0.1:0")
	if err != nil {
		panic(err)
	}
	p := l.Addr().(*net.TCPAddr).Port
	l.Close()
	return p
}

// StartServer assembles and initialises a server. An Init failure (linker panics) is returned as error.
func StartServer(o ServerOpts) (srv *Server, err error) {
	Quiet()
	s := &Server{}
	if o.Dir == "" {
		s.Dir = TempDir("srv")
		s.OwnDir = true
	} else {
		s.Dir = o.Dir
	}
	cfg := server.GetDefaultConfig()
	cfg.BaseDir = s.Dir
	if o.MaxChunkSize > 0 {
		cfg.JrnlCtrlConfig.MaxChunkSize = o.MaxChunkSize
	}
	if o.MaxRecordSize > 0 {
		cfg.JrnlCtrlConfig.MaxRecordSize = o.MaxRecordSize
	}
	if o.WriteFlushMs > 0 {
		cfg.JrnlCtrlConfig.WriteFlushMs = o.WriteFlushMs
	} else {
		cfg.JrnlCtrlConfig.WriteFlushMs = 5
	}
	cfg.PipesConfig.EnsureAtStart = o.EnsureAtStart
	s.Cfg = cfg

	var lastErr error
	for attempt := 0; attempt < 5; attempt++ {
		s.Addr = fmt.Sprintf("127.0.0.1:%d", FreePort())
		cfg.PublicApiRpc = transport.Config{ListenAddr: s.Addr}
		lastErr = s.init()
		if lastErr == nil || !strings.Contains(lastErr.Error(), "address already in use") {
			break
		}
	}
	if lastErr != nil {
		if s.OwnDir {
			os.RemoveAll(s.Dir)
		}
		return nil, lastErr
	}
	if !o.NoRPC {
		cl, err := rpc.NewClient(transport.Config{ListenAddr: s.Addr})
		if err != nil {
			s.Stop()
			return nil, err
		}
		s.Client = cl
	}
	return s, nil
}

func (s *Server) init() (err error) {
	cfg := s.Cfg
	tindexDir := path.Join(cfg.BaseDir, "tindex")
	cindexDir := path.Join(cfg.BaseDir, "cindex")
	pipeDir := path.Join(cfg.BaseDir, "pipes")
	dbDir := path.Join(cfg.BaseDir, "db")

	imsCfg := &tindex.InMemConfig{WorkingDir: tindexDir}
	cfg.PipesConfig.Dir = pipeDir
	cfg.JrnlCtrlConfig.JournalsDir = dbDir
	tmidxCfg := &tmindex.TsIndexerConfig{Dir: cindexDir}

	s.ctx, s.cancel = context.WithCancel(context.Background())
	s.Admin = backend.NewAdmin()
	s.Querier = backend.NewQuerier()
	s.Partitions = partition.NewService()
	s.Pipes = pipe.NewService()
	s.TIndex = tindex.NewInmemService()
	s.TsIndexer = tmindex.NewTsIndexer()
	s.Provider = cursor.NewProvider()
	jc := ctrlr.NewJournalController()
	s.JCtrl = jc

	injector := linker.New()
	injector.SetLogger(log4g.GetLogger("injector"))
	injector.Register(
		linker.Component{Name: "HostRegistryConfig", Value: cfg},
		linker.Component{Name: "JournalControllerConfig", Value: &cfg.JrnlCtrlConfig},
		linker.Component{Name: "", Value: &cfg.PipesConfig},
		linker.Component{Name: "publicRpcTransport", Value: cfg.PublicApiRpc},
		linker.Component{Name: "tindexInMemCfg", Value: imsCfg},
		linker.Component{Name: "", Value: tmidxCfg},
		linker.Component{Name: "mainCtx", Value: s.ctx},
		linker.Component{Name: "", Value: new(bytes.Pool)},
		linker.Component{Name: "", Value: inmem.New()},
		linker.Component{Name: "", Value: s.TIndex},
		linker.Component{Name: "", Value: s.Partitions},
		linker.Component{Name: "", Value: cursor.NewItFactory()},
		linker.Component{Name: "", Value: s.TsIndexer},
		linker.Component{Name: "", Value: s.Pipes},
		linker.Component{Name: "", Value: model.NewHostRegistry()},
		linker.Component{Name: "", Value: model.NewJournalCatalog()},
		linker.Component{Name: "", Value: rpc.NewServerIngestor()},
		linker.Component{Name: "", Value: rpc.NewServerQuerier()},
		linker.Component{Name: "", Value: rpc.NewServerAdmin()},
		linker.Component{Name: "", Value: rpc.NewServerPipes()},
		linker.Component{Name: "", Value: rpc.NewServer()},
		linker.Component{Name: "", Value: jc},
		linker.Component{Name: "", Value: s.Provider},
		linker.Component{Name: "", Value: s.Admin},
		linker.Component{Name: "", Value: s.Querier},
	)
	defer func() {
		if r := recover(); r != nil {
			err = fmt.Errorf("init panic: %v", r)
		}
	}()
	injector.Init(s.ctx)
	s.inj = injector
	return nil
}

// Stop gracefully shuts the server down (Shutdown of every component in reverse order)
// and removes its directory if it was created by StartServer.
func (s *Server) Stop() {
	s.once.Do(func() {
		if s.Client != nil {
			s.Client.Close()
		}
		s.cancel()
		if s.inj != nil {
			func() {
				defer func() { recover() }()
				s.inj.Shutdown()
			}()
		}
		if s.OwnDir {
			os.RemoveAll(s.Dir)
		}
	})
}

// Exec runs an LQL admin statement through the backend (no RPC).
func (s *Server) Exec(q string) (string, error) {
	r, err := s.Admin.Execute(api.ExecRequest{Query: q})
	return r.Output, err
}

// WaitFor polls cond until true or deadline; returns whether cond became true
func WaitFor(d time.Duration, cond func() bool) bool {
	end := time.Now().Add(d)
	for {
		if cond() {
			return true
		}
		if time.Now().After(end) {
			return false
		}
		time.Sleep(2 * time.Millisecond)
	}
}
