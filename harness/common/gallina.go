package common

import (
	"fmt"
	"strconv"
	"strings"
)

// Emitters of Gallina literals (the harness writes cases.v files that coqc evaluates with
// vm_compute against the model).

// GBytes renders a byte string as a `list byte` literal: [x61; x62]
func GBytes(b []byte) string {
	if len(b) == 0 {
		return "[]"
	}
	var sb strings.Builder
	sb.Grow(len(b)*5 + 2)
	sb.WriteByte('[')
	for i, c := range b {
		if i > 0 {
			sb.WriteByte(';')
		}
		sb.WriteString("x")
		sb.WriteString(hex2(c))
	}
	sb.WriteByte(']')
	return sb.String()
}

const hexd = "0123456789abcdef"

func hex2(c byte) string { return string([]byte{hexd[c>>4], hexd[c&15]}) }

// GStr is GBytes of a Go string
func GStr(s string) string { return GBytes([]byte(s)) }

// GZ renders an int64 as a Z literal
func GZ(i int64) string {
	if i < 0 {
		return "(" + strconv.FormatInt(i, 10) + ")%Z"
	}
	return strconv.FormatInt(i, 10) + "%Z"
}

// GN renders a uint64 as an N literal
func GN(u uint64) string { return strconv.FormatUint(u, 10) + "%N" }

// GNat renders a small int as a nat literal
func GNat(n int) string { return strconv.Itoa(n) + "%nat" }

func GBool(b bool) string {
	if b {
		return "true"
	}
	return "false"
}

// GList renders a list of already rendered items
func GList(items []string) string {
	if len(items) == 0 {
		return "[]"
	}
	return "[" + strings.Join(items, "; ") + "]"
}

// GPair renders a pair
func GPair(a, b string) string { return "(" + a + ", " + b + ")" }

// GTuple renders a tuple
func GTuple(xs ...string) string { return "(" + strings.Join(xs, ", ") + ")" }

// GSome / GNone
func GSome(a string) string { return "(Some " + a + ")" }

const GNone = "None"

// GApp renders a constructor application
func GApp(ctor string, args ...string) string {
	if len(args) == 0 {
		return ctor
	}
	return "(" + ctor + " " + strings.Join(args, " ") + ")"
}

// GListZ renders []int64
func GListZ(v []int64) string {
	it := make([]string, len(v))
	for i, x := range v {
		it[i] = GZ(x)
	}
	return GList(it)
}

// GListNat renders []int as list nat
func GListNat(v []int) string {
	it := make([]string, len(v))
	for i, x := range v {
		it[i] = GNat(x)
	}
	return GList(it)
}

// GListStr renders []string as list (list byte)
func GListStr(v []string) string {
	it := make([]string, len(v))
	for i, x := range v {
		it[i] = GStr(x)
	}
	return GList(it)
}

var _ = fmt.Sprintf
