package common

import (
	"encoding/json"
	"os"
	"sync"
)

// Parallel runs f(0..n-1) on up to w goroutines
func Parallel(n, w int, f func(i int)) {
	if w < 1 {
		w = 1
	}
	var wg sync.WaitGroup
	ch := make(chan int)
	for k := 0; k < w; k++ {
		wg.Add(1)
		go func() {
			defer wg.Done()
			for i := range ch {
				f(i)
			}
		}()
	}
	for i := 0; i < n; i++ {
		ch <- i
	}
	close(ch)
	wg.Wait()
}

// RemoveAll removes a scratch directory
func RemoveAll(d string) { os.RemoveAll(d) }

// FromJSON decodes a replay payload
func FromJSON(raw json.RawMessage, v interface{}) error { return json.Unmarshal(raw, v) }
