package common

// Rng is splitmix64: every random choice of a harness run derives from one seed, so a
// disagreement replays exactly.
type Rng struct{ s uint64 }

func NewRng(seed uint64) *Rng { return &Rng{s: seed*0x9E3779B97F4A7C15 + 0x1234567} }

func (r *Rng) U64() uint64 {
	r.s += 0x9E3779B97F4A7C15
	z := r.s
	z = (z ^ (z >> 30)) * 0xBF58476D1CE4E5B9
	z = (z ^ (z >> 27)) * 0x94D049BB133111EB
	return z ^ (z >> 31)
}

// Intn returns a value in [0,n)
func (r *Rng) Intn(n int) int {
	if n <= 0 {
		return 0
	}
	return int(r.U64() % uint64(n))
}

// Range returns a value in [lo,hi]
func (r *Rng) Range(lo, hi int) int { return lo + r.Intn(hi-lo+1) }

// Chance returns true with probability num/den
func (r *Rng) Chance(num, den int) bool { return r.Intn(den) < num }

func (r *Rng) I64() int64 { return int64(r.U64()) }

// Fork derives an independent generator (for per-case streams)
func (r *Rng) Fork() *Rng { return NewRng(r.U64()) }

// PickInt picks one of the values
func (r *Rng) PickInt(vs ...int) int { return vs[r.Intn(len(vs))] }

// PickStr picks one of the values
func (r *Rng) PickStr(vs ...string) string { return vs[r.Intn(len(vs))] }

// Bytes returns n bytes drawn from alphabet (all 256 values if alphabet is empty)
func (r *Rng) Bytes(n int, alphabet []byte) []byte {
	b := make([]byte, n)
	for i := range b {
		if len(alphabet) == 0 {
			b[i] = byte(r.U64())
		} else {
			b[i] = alphabet[r.Intn(len(alphabet))]
		}
	}
	return b
}

// Perm returns a random permutation of 0..n-1
func (r *Rng) Perm(n int) []int {
	p := make([]int, n)
	for i := range p {
		p[i] = i
	}
	for i := n - 1; i > 0; i-- {
		j := r.Intn(i + 1)
		p[i], p[j] = p[j], p[i]
	}
	return p
}
