// C19 harness: drives the real pipe registry (pipe.Service directly, backend.Admin.Execute and the
// RPC EnsurePipe endpoint) with generated operation histories, records the observations in the
// projection of model/PipeReg.v, and evaluates the property oracle on the observations.
package main

import (
	"context"
	"fmt"
	"io/ioutil"
	"math"
	"os"
	"path/filepath"
	"regexp"
	"sort"
	"strconv"
	"strings"
	"sync"

	"github.com/logrange/logrange/api"
	"github.com/logrange/logrange/pkg/pipe"
	. "verifharness/common"
)

type CfgPipe struct {
	Name  string `json:"n"`
	From  string `json:"f,omitempty"`
	Where string `json:"w,omitempty"`
	Valid bool   `json:"v,omitempty"`
}

type Op struct {
	Kind   string    `json:"k"` // create | createx (Admin.Execute) | ensure | ensurerpc | delete | list | describe | restart | restartcfg
	Name   string    `json:"n,omitempty"`
	From   string    `json:"f,omitempty"`
	Where  string    `json:"w,omitempty"`
	Valid  bool      `json:"v,omitempty"`
	Limit  int64     `json:"l,omitempty"`
	Offset int64     `json:"o,omitempty"`
	Cfg    []CfgPipe `json:"cfg,omitempty"`    // restartcfg: PipesConfig.EnsureAtStart of the next start
	Legacy string    `json:"legacy,omitempty"` // restart: what lies in the pipes folder beside / instead of registry.dat (see legacySurgery)
}

type Replay struct {
	Kind string `json:"kind"` // hist | race | erace
	Ops  []Op   `json:"ops,omitempty"`
	K    int    `json:"racers,omitempty"`
}

var namePool = []string{"pa", "pb", "Pz", "p_1", "pa.x", "zz", "a-b", "B", "pab", "p/q", "s", "S"}
var validFrom = []string{"", "a=b", "{x=y}", "name=app1 OR name=app2", "name=App1 OR name=app2", "A=b", "a=B"}
var validWhere = []string{"", "msg contains \"err\"", "msg contains \"ERR\"", "msg CONTAINS \"err\"", "ts > \"2019-01-01T00:00:00Z\" AND msg prefix abc"}
var invalidCond = []string{"a=", "((", "msg contains", "{"}

func gPipe(n, f, w string) string {
	return fmt.Sprintf("{| p_name := %s; p_from := %s; p_where := %s |}", GStr(n), GStr(f), GStr(w))
}

var listRe = regexp.MustCompile(`^(\d+) pipes found\. (-?\d+) pipes \(starting with offset=(-?\d+)\):\n`)

func genOps(r *Rng, n int) []Op {
	nn := r.Range(2, 6)
	names := make([]string, nn)
	for i, j := range r.Perm(len(namePool))[:nn] {
		names[i] = namePool[j]
	}
	var ops []Op
	for i := 0; i < n; i++ {
		name := names[r.Intn(nn)]
		x := r.Intn(100)
		switch {
		case x < 30:
			op := Op{Kind: "create", Name: name, Valid: true}
			if r.Chance(1, 8) {
				op.Valid = false
				if r.Chance(1, 2) {
					op.From, op.Where = r.PickStr(invalidCond...), r.PickStr(validWhere...)
				} else {
					op.From, op.Where = r.PickStr(validFrom...), r.PickStr(invalidCond...)
				}
			} else {
				op.From, op.Where = r.PickStr(validFrom...), r.PickStr(validWhere...)
			}
			if op.Valid && op.From == "" && op.Where == "" && r.Chance(1, 2) {
				op.Kind = "createx"
			}
			ops = append(ops, op)
		case x < 45:
			op := Op{Kind: r.PickStr("ensure", "ensurerpc"), Name: name, Valid: true}
			if r.Chance(1, 8) {
				op.Valid = false
				op.From, op.Where = r.PickStr(invalidCond...), r.PickStr(validWhere...)
			} else {
				op.From, op.Where = r.PickStr(validFrom...), r.PickStr(validWhere...)
			}
			ops = append(ops, op)
		case x < 58:
			ops = append(ops, Op{Kind: "delete", Name: name})
		case x < 83:
			op := Op{Kind: "list"}
			if r.Chance(2, 3) {
				op.Limit = int64(r.PickInt(0, 1, 2, 3, 5, 100))
				op.Offset = int64(r.PickInt(0, 0, 1, 2, 3, 7))
			}
			if r.Chance(1, 10) {
				// signed numbers: the lexer's Number class takes a sign
				op.Limit = int64(r.PickInt(-1, -3, 2, 0))
				op.Offset = int64(r.PickInt(-1, -2, 0, 1))
			}
			if r.Chance(1, 6) {
				// the ends of the number ranges: "no limit" idioms, the int32 default, sums that leave int64
				big := []int64{math.MaxInt64, math.MaxInt64 - 1, math.MaxInt64 - 7, math.MaxInt32, math.MaxInt32 + 1, 1 << 32, 1 << 62}
				op.Limit = big[r.Intn(len(big))]
				if r.Chance(1, 4) {
					op.Offset = big[r.Intn(len(big))]
				} else {
					op.Offset = int64(r.PickInt(0, 1, 1, 2, 3, 7))
				}
			}
			ops = append(ops, op)
		case x < 95:
			ops = append(ops, Op{Kind: "describe", Name: name})
		default:
			if r.Chance(1, 2) {
				ops = append(ops, Op{Kind: "restart", Legacy: r.PickStr("", "", "stale", "progress", "only")})
				break
			}
			// a start with configured pipes: some as stored, some with other conditions, some new, rarely one that does not compile
			op := Op{Kind: "restartcfg"}
			for _, j := range r.Perm(nn)[:r.Range(1, nn)] {
				cp := CfgPipe{Name: names[j], Valid: true, From: r.PickStr(validFrom...), Where: r.PickStr(validWhere...)}
				if r.Chance(1, 10) {
					cp.Valid = false
					if r.Chance(1, 2) {
						cp.From = r.PickStr(invalidCond...)
					} else {
						cp.Where = r.PickStr(invalidCond...)
					}
				}
				op.Cfg = append(op.Cfg, cp)
			}
			ops = append(ops, op)
		}
	}
	return ops
}

type hist struct {
	coqOps    []string
	coqObs    []string
	viol      *Violation
	maxList   int
	lists     int
	cfgStarts int
}

func (h *hist) fail(class, detail string) {
	if h.viol == nil {
		h.viol = &Violation{Class: class, Detail: detail}
	}
}

// runHist executes the ops on a fresh server and returns the Coq case; the oracle keeps its own
// reference registry (a Go map, independent of the Coq model).
func runHist(ops []Op) (*hist, error) {
	dir := TempDir("c19")
	defer func() { RemoveAll(dir) }()
	srv, err := StartServer(ServerOpts{Dir: dir})
	if err != nil {
		return nil, err
	}
	defer func() {
		if srv != nil {
			srv.Stop()
		}
	}()
	h := &hist{}
	ref := map[string][2]string{}
	for _, op := range ops {
		switch op.Kind {
		case "create", "createx":
			var e error
			if op.Kind == "create" {
				_, e = srv.Pipes.CreatePipe(pipe.Pipe{Name: op.Name, TagsCond: op.From, FltCond: op.Where})
			} else {
				_, e = srv.Exec("CREATE PIPE " + op.Name)
			}
			ok := e == nil
			h.coqOps = append(h.coqOps, GApp("OCreate", gPipe(op.Name, op.From, op.Where), GBool(op.Valid)))
			h.coqObs = append(h.coqObs, GApp("RBool", GBool(ok)))
			_, exists := ref[op.Name]
			if exists && ok {
				h.fail("create-existing-succeeded", op.Name)
			}
			if !exists && op.Valid && !ok {
				h.fail("create-new-failed", fmt.Sprintf("%s: %v", op.Name, e))
			}
			if !op.Valid && ok {
				h.fail("create-invalid-succeeded", op.Name)
			}
			if ok && !exists {
				ref[op.Name] = [2]string{op.From, op.Where}
			}
		case "ensure", "ensurerpc":
			var got *pipe.Pipe
			if op.Kind == "ensure" {
				pd, e := srv.Pipes.EnsurePipe(pipe.Pipe{Name: op.Name, TagsCond: op.From, FltCond: op.Where})
				if e == nil {
					got = &pd.Pipe
				}
			} else {
				var res api.PipeCreateResult
				e := srv.Client.EnsurePipe(context.Background(), api.Pipe{Name: op.Name, TagsCond: op.From, FilterCond: op.Where}, &res)
				if e != nil {
					return nil, fmt.Errorf("rpc ensure: %v", e)
				}
				if res.Err == nil {
					got = &pipe.Pipe{Name: res.Pipe.Name, TagsCond: res.Pipe.TagsCond, FltCond: res.Pipe.FilterCond}
					if res.Pipe.Destination != "logrange.pipe="+op.Name {
						h.fail("ensure-destination", res.Pipe.Destination)
					}
				}
			}
			h.coqOps = append(h.coqOps, GApp("OEnsure", gPipe(op.Name, op.From, op.Where), GBool(op.Valid)))
			if got == nil {
				h.coqObs = append(h.coqObs, GApp("REnsure", GNone))
			} else {
				h.coqObs = append(h.coqObs, GApp("REnsure", GSome(gPipe(got.Name, got.TagsCond, got.FltCond))))
			}
			def, exists := ref[op.Name]
			switch {
			case exists && def == [2]string{op.From, op.Where}:
				if got == nil || got.TagsCond != op.From || got.FltCond != op.Where {
					h.fail("ensure-same-not-returned", op.Name)
				}
			case exists:
				if got != nil {
					h.fail("ensure-different-succeeded", op.Name)
				}
			case op.Valid:
				if got == nil {
					h.fail("ensure-new-failed", op.Name)
				} else {
					ref[op.Name] = [2]string{op.From, op.Where}
				}
			default:
				if got != nil {
					h.fail("ensure-invalid-succeeded", op.Name)
				}
			}
		case "delete":
			_, e := srv.Exec("DELETE PIPE " + op.Name)
			ok := e == nil
			h.coqOps = append(h.coqOps, GApp("ODelete", GStr(op.Name)))
			h.coqObs = append(h.coqObs, GApp("RBool", GBool(ok)))
			_, exists := ref[op.Name]
			if exists != ok {
				h.fail("delete-result", fmt.Sprintf("%s exists=%v ok=%v", op.Name, exists, ok))
			}
			delete(ref, op.Name)
		case "list":
			q := "SHOW PIPES"
			if op.Offset != 0 || op.Limit != 0 {
				q += fmt.Sprintf(" OFFSET %d LIMIT %d", op.Offset, op.Limit)
			}
			out, e := srv.Exec(q)
			h.coqOps = append(h.coqOps, GApp("OList", GZ(op.Limit), GZ(op.Offset)))
			if e != nil {
				h.coqObs = append(h.coqObs, GApp("RList", GNone))
				if op.Offset >= 0 {
					h.fail("list-error", e.Error())
				}
				break
			}
			if op.Offset < 0 {
				h.fail("list-negative-offset-accepted", out)
			}
			m := listRe.FindStringSubmatch(out)
			if m == nil {
				return nil, fmt.Errorf("unparsable SHOW PIPES output %q", out)
			}
			total, _ := strconv.ParseInt(m[1], 10, 64)
			shown, _ := strconv.ParseInt(m[2], 10, 64)
			rest := out[len(m[0]):]
			var got []string
			if rest != "" {
				got = strings.Split(strings.TrimSuffix(rest, "\n"), "\n")
			}
			h.coqObs = append(h.coqObs, GApp("RList", GSome(GTuple(GZ(total), GZ(shown), GListStr(got)))))
			// oracle: sorted names of the reference registry, paged
			var all []string
			for n := range ref {
				all = append(all, n)
			}
			sort.Strings(all)
			lo := len(all)
			if op.Offset < int64(len(all)) {
				lo = int(op.Offset)
			}
			hi := len(all)
			if op.Limit > 0 && op.Limit < int64(hi-lo) {
				hi = lo + int(op.Limit)
			}
			want := all[lo:hi]
			if op.Limit < 0 {
				// a negative LIMIT: the code lists nothing and says so; the property says nothing about it (K compares with the model)
				if int(total) != len(all) {
					h.fail("list-total", fmt.Sprintf("total %d want %d", total, len(all)))
				}
			} else if int(total) != len(all) {
				h.fail("list-total", fmt.Sprintf("total %d want %d", total, len(all)))
			} else if strings.Join(got, "\n") != strings.Join(want, "\n") {
				cls := "list-content"
				g2 := append([]string{}, got...)
				sort.Strings(g2)
				if op.Limit == 0 && op.Offset == 0 && strings.Join(g2, "\n") == strings.Join(want, "\n") {
					cls = "list-not-alphabetical"
				}
				h.fail(cls, fmt.Sprintf("got %v want %v", got, want))
			}
			if len(all) > h.maxList {
				h.maxList = len(all)
			}
			h.lists++
		case "describe":
			out, e := srv.Exec("DESCRIBE PIPE " + op.Name)
			h.coqOps = append(h.coqOps, GApp("ODescribe", GStr(op.Name)))
			def, exists := ref[op.Name]
			if e != nil {
				h.coqObs = append(h.coqObs, GApp("RDescribe", GNone))
				if exists {
					h.fail("describe-missing", op.Name)
				}
				break
			}
			f, w, p := field(out, "From:"), field(out, "Where:"), field(out, "Partition:")
			h.coqObs = append(h.coqObs, GApp("RDescribe", GSome(GTuple(GStr(f), GStr(w), GStr(p)))))
			if !exists {
				h.fail("describe-deleted", op.Name)
			} else if f != def[0] || w != def[1] || p != "logrange.pipe="+op.Name {
				h.fail("describe-definition", fmt.Sprintf("%q %q %q want %v", f, w, p, def))
			}
		case "restart":
			srv.Stop()
			if msg := legacySurgery(dir, op.Legacy); msg != "" {
				return nil, fmt.Errorf("legacy surgery: %s", msg)
			}
			srv, err = StartServer(ServerOpts{Dir: dir})
			if err != nil {
				h.fail("restart-failed", err.Error())
				return h, nil
			}
			h.coqOps = append(h.coqOps, "ORestart")
			h.coqObs = append(h.coqObs, "RUnit")
		case "restartcfg":
			srv.Stop()
			var eas []pipe.Pipe
			var gcfg []string
			for _, cp := range op.Cfg {
				eas = append(eas, pipe.Pipe{Name: cp.Name, TagsCond: cp.From, FltCond: cp.Where})
				gcfg = append(gcfg, GPair(gPipe(cp.Name, cp.From, cp.Where), GBool(cp.Valid)))
			}
			// reference: the entries in order; one that does not compile ends the start after a stored pipe of that
			// name (necessarily with other conditions) was deleted
			wantOk := true
			for _, cp := range op.Cfg {
				if !cp.Valid {
					delete(ref, cp.Name)
					wantOk = false
					break
				}
				ref[cp.Name] = [2]string{cp.From, cp.Where}
			}
			var e error
			srv, e = StartServer(ServerOpts{Dir: dir, EnsureAtStart: eas})
			ok := e == nil
			h.coqOps = append(h.coqOps, GApp("ORestartCfg", GList(gcfg)))
			h.coqObs = append(h.coqObs, GApp("RBool", GBool(ok)))
			if ok != wantOk {
				if ok {
					h.fail("start-config-invalid-accepted", fmt.Sprintf("%+v", op.Cfg))
				} else {
					h.fail("start-config-refused", fmt.Sprintf("%+v: %v", op.Cfg, e))
				}
			}
			if !ok {
				srv, err = StartServer(ServerOpts{Dir: dir})
				if err != nil {
					h.fail("restart-failed", err.Error())
					return h, nil
				}
			}
			h.cfgStarts++
		}
	}
	return h, nil
}

// legacySurgery changes the pipes folder of a stopped server the way other versions and other pipes leave it:
//
//	stale    - a pipes.dat of the previous layout with an OLD list lies beside registry.dat: registry.dat is what counts
//	progress - pipes.dat holds the progress map of a pipe named s (its position file has that name): not the registry
//	only     - the folder comes from the previous layout: the definitions are in pipes.dat, there is no registry.dat:
//	           they are read from there (and moved)
//
// In every mode the registry after the start is what it was at the stop.
func legacySurgery(dir, mode string) string {
	if mode == "" {
		return ""
	}
	pd := filepath.Join(dir, "pipes")
	reg := filepath.Join(pd, "registry.dat")
	old := filepath.Join(pd, "pipes.dat")
	switch mode {
	case "stale":
		if err := ioutil.WriteFile(old, []byte(`[{"Name":"ghost","TagsCond":"","FltCond":""}]`), 0640); err != nil {
			return err.Error()
		}
	case "progress":
		if err := ioutil.WriteFile(old, []byte(`{}`), 0640); err != nil {
			return err.Error()
		}
	case "only":
		data, err := ioutil.ReadFile(reg)
		if err != nil {
			return "" // nothing was ever saved: nothing to move
		}
		if err := ioutil.WriteFile(old, data, 0640); err != nil {
			return err.Error()
		}
		os.Remove(reg)
	}
	return ""
}

func field(out, key string) string {
	for _, l := range strings.Split(out, "\n") {
		if strings.HasPrefix(l, key) {
			return strings.TrimLeft(strings.TrimPrefix(l, key), " ")
		}
	}
	return ""
}

// runRace: k goroutines create the same new name concurrently on the real service; 40 rounds with a new name each on
// one server (the window in which two creators both pass the first existence check is short: many cheap rounds); the
// first round that does not end with exactly one success and the pipe present is reported, else the last round
func runRace(k int) (int, bool, error) {
	srv, err := StartServer(ServerOpts{NoRPC: true})
	if err != nil {
		return 0, false, err
	}
	defer srv.Stop()
	succ, present := 1, true
	for round := 0; round < 40; round++ {
		name := fmt.Sprintf("racer%d", round)
		var wg sync.WaitGroup
		var mu sync.Mutex
		n := 0
		start := make(chan struct{})
		for i := 0; i < k; i++ {
			wg.Add(1)
			go func(i int) {
				defer wg.Done()
				<-start
				_, e := srv.Pipes.CreatePipe(pipe.Pipe{Name: name, TagsCond: fmt.Sprintf("a=%d", i), FltCond: "msg contains \"a\" AND msg contains \"b\" AND ts > \"2019-01-01T00:00:00Z\""})
				if e == nil {
					mu.Lock()
					n++
					mu.Unlock()
				}
			}(i)
		}
		close(start)
		wg.Wait()
		_, e := srv.Pipes.GetPipe(name)
		succ, present = n, e == nil
		if n != 1 || e != nil {
			break
		}
	}
	return succ, present, nil
}

// corpus: fixed histories that run first on every check: the ends of the OFFSET/LIMIT number ranges over a
// listing of several pipes, and starts with configured pipes (kept, replaced, added, one that does not compile)
func corpus() []Replay {
	mk := func(n string) Op { return Op{Kind: "create", Name: n, Valid: true, From: "a=b"} }
	list := func(l, o int64) Op { return Op{Kind: "list", Limit: l, Offset: o} }
	h1 := []Op{mk("pb"), mk("Pz"), mk("pa"), mk("zz"), list(0, 0),
		list(math.MaxInt64, 1), list(math.MaxInt64, 0), list(math.MaxInt64-1, 2), list(math.MaxInt64, math.MaxInt64),
		list(math.MaxInt32, math.MaxInt64), list(math.MaxInt32+1, 1), list(1<<62, 1<<62), list(2, math.MaxInt64-1), list(3, 1), list(1, 3), list(1, 4), list(1, 5),
		list(2, -1), list(-1, 0), list(-1, 1), list(-2, -2), list(math.MinInt64, 0), list(0, math.MinInt64), list(math.MinInt64, math.MinInt64)}
	h2 := []Op{mk("pb"), mk("pa"), mk("Pz"),
		{Kind: "restartcfg", Cfg: []CfgPipe{{Name: "pa", From: "x=y", Valid: true}, {Name: "pb", From: "a=b", Valid: true}, {Name: "zz", Where: "msg contains \"err\"", Valid: true}}},
		list(0, 0), {Kind: "describe", Name: "pa"}, {Kind: "describe", Name: "pb"}, {Kind: "describe", Name: "zz"}, {Kind: "describe", Name: "Pz"},
		{Kind: "restartcfg", Cfg: []CfgPipe{{Name: "pa", From: "x=y", Valid: true}, {Name: "pb", From: "a=b", Valid: true}, {Name: "zz", Where: "msg contains \"err\"", Valid: true}}},
		list(0, 0), {Kind: "describe", Name: "pa"},
		{Kind: "restartcfg", Cfg: []CfgPipe{{Name: "Pz", From: "q=r", Valid: true}, {Name: "pb", From: "((", Valid: false}, {Name: "pa", From: "", Valid: true}}},
		list(0, 0), {Kind: "describe", Name: "Pz"}, {Kind: "describe", Name: "pb"}, {Kind: "describe", Name: "pa"},
		{Kind: "ensure", Name: "pb", From: "a=b", Valid: true}, {Kind: "restart"}, list(0, 0)}
	// definitions that differ only in the case of a letter are different definitions
	en := func(f, w string) Op { return Op{Kind: "ensure", Name: "pa", From: f, Where: w, Valid: true} }
	h3 := []Op{{Kind: "create", Name: "pa", Valid: true, From: "name=app1", Where: "msg contains \"err\""},
		en("name=App1", "msg contains \"err\""), en("name=app1", "msg contains \"ERR\""), en("NAME=app1", "msg contains \"err\""),
		en("name=app1", "msg CONTAINS \"err\""), en("name=app1", "msg contains \"err\""), {Kind: "describe", Name: "pa"},
		{Kind: "ensurerpc", Name: "pa", From: "name=app1", Where: "MSG contains \"err\"", Valid: true}, {Kind: "describe", Name: "pa"}}
	// what other versions and a pipe named s leave in the pipes folder
	h4 := []Op{mk("pa"), mk("s"), {Kind: "restart", Legacy: "stale"}, list(0, 0), mk("pb"), {Kind: "delete", Name: "pa"},
		{Kind: "restart", Legacy: "stale"}, list(0, 0), {Kind: "restart", Legacy: "progress"}, list(0, 0), {Kind: "describe", Name: "s"},
		{Kind: "restart", Legacy: "only"}, list(0, 0), mk("zz"), {Kind: "restart"}, list(0, 0), {Kind: "restart", Legacy: "only"}, {Kind: "restart", Legacy: "stale"}, list(0, 0)}
	return []Replay{{Kind: "hist", Ops: h1}, {Kind: "hist", Ops: h2}, {Kind: "hist", Ops: h3}, {Kind: "hist", Ops: h4}, {Kind: "erace", K: 2}, {Kind: "erace", K: 3}, {Kind: "erace", K: 8}}
}

// runEnsureRace: k goroutines ensure the same new name with the same definition concurrently on the real service
func runEnsureRace(k int) (int, bool, error) {
	srv, err := StartServer(ServerOpts{NoRPC: true})
	if err != nil {
		return 0, false, err
	}
	defer srv.Stop()
	var wg sync.WaitGroup
	var mu sync.Mutex
	succ := 0
	start := make(chan struct{})
	for i := 0; i < k; i++ {
		wg.Add(1)
		go func() {
			defer wg.Done()
			<-start
			pd, e := srv.Pipes.EnsurePipe(pipe.Pipe{Name: "eracer", TagsCond: "a=b", FltCond: "msg contains \"x\""})
			if e == nil && pd.Name == "eracer" && pd.TagsCond == "a=b" {
				mu.Lock()
				succ++
				mu.Unlock()
			}
		}()
	}
	close(start)
	wg.Wait()
	_, e := srv.Pipes.GetPipe("eracer")
	return succ, e == nil, nil
}

func main() {
	Main("C19", "C19K", func(c *Ctx) error {
		if c.Replay != nil {
			var rp Replay
			if err := FromJSON(c.Replay, &rp); err != nil {
				return err
			}
			if err := runCase(c, rp); err != nil {
				return err
			}
			return c.Finish(rule)
		}
		nh := c.N(60)
		jobs := make([]Replay, 0, nh+24)
		jobs = append(jobs, corpus()...)
		for i := 0; i < nh; i++ {
			r := c.Rng.Fork()
			jobs = append(jobs, Replay{Kind: "hist", Ops: genOps(r, r.PickInt(6, 12, 25, 40))})
		}
		for i := 0; i < c.N(6); i++ {
			jobs = append(jobs, Replay{Kind: "race", K: c.Rng.Range(2, 8)})
		}
		for i := 0; i < c.N(8); i++ {
			jobs = append(jobs, Replay{Kind: "erace", K: c.Rng.Range(2, 12)})
		}
		res := make([]*Case, len(jobs))
		errs := make([]error, len(jobs))
		Parallel(len(jobs), 8, func(i int) {
			res[i], errs[i] = mkCase(jobs[i])
		})
		for i := range jobs {
			if errs[i] != nil {
				return errs[i]
			}
			c.Add(*res[i])
		}
		return c.Finish(rule)
	})
}

const rule = "a fixed corpus (OFFSET/LIMIT at the ends of the int64/int32 ranges over 4 pipes; starts with configured pipes: kept, replaced, added, one that does not compile; ensure races of 2, 3, 8) then random histories of create/ensure/delete/list/describe/restart/restart-with-configured-pipes over 2-6 names from a pool with mixed-case and punctuated identifiers (plus races of 2-8 concurrent creates of one name and of 2-12 concurrent ensures of one name with one definition); a case is non-trivial iff some listing was taken with >= 2 pipes present, or it is a race; distinct by the hash of the operation list"

func runCase(c *Ctx, rp Replay) error {
	cs, err := mkCase(rp)
	if err != nil {
		return err
	}
	c.Add(*cs)
	return nil
}

func mkCase(rp Replay) (*Case, error) {
	switch rp.Kind {
	case "hist":
		h, err := runHist(rp.Ops)
		if err != nil {
			return nil, err
		}
		return &Case{
			Coq:        GApp("KHist", GList(h.coqOps), GList(h.coqObs)),
			Replay:     rp,
			NonTrivial: h.maxList >= 2,
			Oracle:     h.viol,
			Stream:     "hist",
			Tags:       []string{fmt.Sprintf("maxlisted:%d", h.maxList), fmt.Sprintf("cfgstarts:%d", h.cfgStarts)},
		}, nil
	case "race":
		succ, present, err := runRace(rp.K)
		if err != nil {
			return nil, err
		}
		var v *Violation
		if succ != 1 || !present {
			v = &Violation{Class: "create-race", Detail: fmt.Sprintf("%d racers, %d successes, present=%v", rp.K, succ, present)}
		}
		return &Case{
			Coq:        GApp("KRace", GNat(rp.K), GNat(succ), GBool(present)),
			Replay:     rp,
			NonTrivial: true,
			Key:        fmt.Sprintf("race-%d-%p", rp.K, &rp),
			Oracle:     v,
			Stream:     "race",
		}, nil
	case "erace":
		succ, present, err := runEnsureRace(rp.K)
		if err != nil {
			return nil, err
		}
		var v *Violation
		if succ != rp.K || !present {
			v = &Violation{Class: "ensure-race-same-definition-failed", Detail: fmt.Sprintf("%d concurrent ensure calls with one definition, %d succeeded, present=%v", rp.K, succ, present)}
		}
		return &Case{
			Coq:        GApp("KERace", GNat(rp.K), GNat(succ), GBool(present)),
			Replay:     rp,
			NonTrivial: true,
			Key:        fmt.Sprintf("erace-%d-%p", rp.K, &rp),
			Oracle:     v,
			Stream:     "erace",
		}, nil
	}
	return nil, fmt.Errorf("unknown case kind %q", rp.Kind)
}
