// Store builder of the C16 harness (a copy of harness/c04's, plus PartSpec.Split: one Write call per chunk):
// partitions with a prescribed chunk layout on an in-process server.
package main

import (
	"context"
	"fmt"
	"io"
	"sort"
	"strings"
	"time"

	"github.com/logrange/logrange/api"
	"github.com/logrange/logrange/pkg/lql"
	. "verifharness/common"
)

// Ev is one stored event: timestamp and a unique message id
type Ev struct {
	Ts int64 `json:"t"`
	Id int   `json:"i"`
	A  bool  `json:"a,omitempty"` // class letter 'a' in the message: accepted by the WHERE of filtered queries
}

// WhereA is the WHERE clause accepting exactly the events of class a
const WhereA = `WHERE msg CONTAINS "a;"`

// PartSpec is one partition: its tags and the intended chunk layout
type PartSpec struct {
	Tags   string `json:"tags"`
	Chunks [][]Ev `json:"chunks"`
	// Split: one Write call per chunk instead of one for the whole partition. The time index takes the hull of a chunk
	// from the batches written to it; a batch that spans several chunks gives every one of them the hull of the whole
	// batch, so that the chunk selector of RANGE queries never rejects a chunk. With one batch per chunk the hulls are
	// exact, chunks outside the RANGE are rejected (window MaxUint32..MaxUint32) and getPosForward / getPosBackward walk
	// over them.
	Split bool `json:"split,omitempty"`
}

// ChunkInfo is the layout actually produced
type ChunkInfo struct {
	Id    uint64
	Count int
}

type PartLayout struct {
	Line   string // canonical tag line as the server prints it
	Jrnl   string // journal (source) id
	Chunks []ChunkInfo
	Evs    []Ev // flattened, stored order
}

const storeMaxChunk = 3000
const bigPad = 3100

func msgOf(id int, a, big bool) string {
	cl := "b"
	if a {
		cl = "a"
	}
	s := fmt.Sprintf("m%d%s;", id, cl)
	if big {
		s += strings.Repeat("x", bigPad)
	}
	return s
}

// idOf maps a returned message back to the event id (-1: not a message of the store)
func idOf(msg string) int {
	i := strings.IndexByte(msg, ';')
	if i < 3 || msg[0] != 'm' || (msg[i-1] != 'a' && msg[i-1] != 'b') {
		return -1
	}
	n := 0
	for _, c := range msg[1 : i-1] {
		if c < '0' || c > '9' {
			return -1
		}
		n = n*10 + int(c-'0')
	}
	rest := msg[i+1:]
	if rest != "" && rest != strings.Repeat("x", bigPad) {
		return -1
	}
	return n
}

func startStoreServer() (*Server, error) {
	return StartServer(ServerOpts{MaxChunkSize: storeMaxChunk, MaxRecordSize: 8000, WriteFlushMs: 5, NoRPC: false})
}

// buildStore writes the partitions and waits until everything is readable. The last record of every
// chunk but the last is padded beyond MaxChunkSize, which closes the chunk.
func buildStore(srv *Server, parts []PartSpec) ([]PartLayout, error) {
	ctx := context.Background()
	res := make([]PartLayout, len(parts))
	for pi, p := range parts {
		var evs []*api.LogEvent
		flush := func() error {
			if len(evs) == 0 {
				return nil
			}
			var wr api.WriteResult
			if err := srv.Client.Write(ctx, p.Tags, "", evs, &wr); err != nil {
				return fmt.Errorf("write: %v", err)
			}
			if wr.Err != nil {
				return fmt.Errorf("write result: %v", wr.Err)
			}
			evs = nil
			return nil
		}
		for ci, ch := range p.Chunks {
			for ei, e := range ch {
				big := ei == len(ch)-1 && ci < len(p.Chunks)-1
				evs = append(evs, &api.LogEvent{Timestamp: e.Ts, Message: msgOf(e.Id, e.A, big)})
				res[pi].Evs = append(res[pi].Evs, e)
			}
			if p.Split {
				if err := flush(); err != nil {
					return nil, err
				}
			}
		}
		if err := flush(); err != nil {
			return nil, err
		}
	}
	// wait for the flush: every partition must report its full record count
	for pi, p := range parts {
		want := len(res[pi].Evs)
		ok := WaitFor(20*time.Second, func() bool {
			l, err := readLayout(srv, p.Tags)
			if err != nil || l == nil {
				return false
			}
			n := 0
			for _, c := range l.Chunks {
				n += c.Count
			}
			if n == want {
				res[pi].Line, res[pi].Jrnl, res[pi].Chunks = l.Line, l.Jrnl, l.Chunks
				return true
			}
			return false
		})
		if !ok {
			return nil, fmt.Errorf("partition %s: data did not become readable", p.Tags)
		}
	}
	return res, nil
}

// readLayout reads the chunk ids and confirmed counts of the single partition matching tags
func readLayout(srv *Server, tags string) (*PartLayout, error) {
	ctx := context.Background()
	src, err := lql.ParseSource("{" + tags + "}")
	if err != nil {
		return nil, err
	}
	js, err := srv.Partitions.GetJournals(ctx, src, 1000)
	if err != nil {
		return nil, err
	}
	defer func() {
		for _, j := range js {
			srv.Partitions.Release(j.Name())
		}
	}()
	if len(js) != 1 {
		return nil, fmt.Errorf("%d partitions match %s", len(js), tags)
	}
	for line, j := range js {
		cks, err := j.Chunks().Chunks(ctx)
		if err != nil {
			return nil, err
		}
		l := &PartLayout{Line: string(line), Jrnl: j.Name()}
		for _, c := range cks {
			l.Chunks = append(l.Chunks, ChunkInfo{Id: uint64(c.Id()), Count: int(c.Count())})
		}
		sort.Slice(l.Chunks, func(a, b int) bool { return l.Chunks[a].Id < l.Chunks[b].Id })
		return l, nil
	}
	return nil, nil
}

// Got is one returned event
type Got struct {
	Ts   int64
	Id   int
	Tags string
}

// query runs one request through the backend Querier (no RPC)
func query(srv *Server, q, pos string, offset, limit int) ([]Got, string, error) {
	r, err := srv.Querier.Query(context.Background(), &api.QueryRequest{Query: q, Pos: pos, Offset: offset, Limit: limit})
	if err != nil && (err != io.EOF || r == nil) {
		return nil, "", err
	}
	var out []Got
	for _, e := range r.Events {
		out = append(out, Got{Ts: e.Timestamp, Id: idOf(e.Message), Tags: e.Tags})
	}
	return out, r.NextQueryRequest.Pos, nil
}
