// C16 harness: backward navigation and offsets are consistent with forward order.
//
// Stores of at most 40 events in 1..3 partitions with chunk edges at arbitrary positions are read through
// backend.Querier.Query with POSITION head/tail and OFFSET +-k for every k in 0..n+1, plain and with WHERE / RANGE,
// and real cursors over the stored journals are driven with Offset(+j) Offset(+k) Offset(-k) scripts.
// The order in which newCursor meets its sources is observed, so the model runs the same mixer tree and the
// oracle compares with the forward read of a cursor with the same tree.
package main

import (
	"context"
	"fmt"
	"os"
	"sort"
	"strings"
	"sync"
	"time"

	"github.com/logrange/logrange/pkg/cursor"
	"github.com/logrange/logrange/pkg/model"
	"github.com/logrange/logrange/pkg/partition"
	"github.com/logrange/range/pkg/records/journal"
	. "verifharness/common"
)

type Variant struct {
	Where bool      `json:"where,omitempty"`
	Range *[2]int64 `json:"range,omitempty"`
}

func (v Variant) ranged() bool { return v.Range != nil }
func (v Variant) String() string {
	s := "plain"
	if v.Where && v.ranged() {
		s = "where+range"
	} else if v.Where {
		s = "where"
	} else if v.ranged() {
		s = "range"
	}
	return s
}
func (v Variant) clauses() string {
	s := ""
	if v.Range != nil {
		s += fmt.Sprintf(` RANGE ["%d":"%d"]`, v.Range[0], v.Range[1])
	}
	if v.Where {
		s += " " + WhereA
	}
	return s
}

type Replay struct {
	Kind   string     `json:"kind"` // query | script
	Parts  []PartSpec `json:"parts"`
	V      Variant    `json:"variant"`
	Pos    string     `json:"pos,omitempty"` // head | tail
	Offset int        `json:"offset,omitempty"`
	Limit  int        `json:"limit,omitempty"`
	Ops    []Op       `json:"ops,omitempty"`
	What   string     `json:"what,omitempty"` // tail | head | inverse | witness...
	Huge   int        `json:"huge,omitempty"` // the offset beyond the data that must behave like Offset
	At     []AtPos    `json:"at,omitempty"`   // kind "at": the explicit position
	FollowOff int     `json:"follow_off,omitempty"` // the offset of the continuation request
	Follow bool       `json:"follow,omitempty"` // the request is followed by its continuation request (a request from the position it returned)
}

const finiteTimeout = 60 * time.Second
const hangTimeout = 12 * time.Second

// ------------------------------------------------------------------ store

type store struct {
	srv      *Server
	rec      *recFactory
	parts    []PartSpec
	lay      []PartLayout
	byJrnl   map[string]int
	byLine   map[string]int
	poisoned bool
	fwd      map[string][]Item // forward read by variant+order
	sorted   bool              // every partition stored in time order
	follow   bool              // the next request is followed by its continuation request
	followOff int              // ... which has this offset (only on stores where the merged order does not depend on the tree)
	unique   bool              // one partition, or all timestamps of the store distinct
	extra    []Case            // cases a request produced besides its own (the continuation request)
}

var leaked struct {
	sync.Mutex
	dirs []string
}

func openStore(parts []PartSpec) (*store, error) {
	srv, err := startStoreServer()
	if err != nil {
		return nil, err
	}
	st := &store{srv: srv, parts: parts, byJrnl: map[string]int{}, byLine: map[string]int{}, fwd: map[string][]Item{}, sorted: true}
	ok := cursor.VC04WrapItFactory(srv.Provider, func(in cursor.ItFactory) cursor.ItFactory {
		st.rec = &recFactory{in: in}
		return st.rec
	})
	if !ok {
		srv.Stop()
		return nil, fmt.Errorf("cannot wrap the ItFactory of the provider")
	}
	st.lay, err = buildStore(srv, parts)
	if err != nil {
		srv.Stop()
		return nil, err
	}
	for i, l := range st.lay {
		st.byJrnl[l.Jrnl] = i
		st.byLine[l.Line] = i
		for k := 1; k < len(l.Evs); k++ {
			if l.Evs[k].Ts < l.Evs[k-1].Ts {
				st.sorted = false
			}
		}
	}
	st.unique = true
	if len(st.lay) > 1 {
		seen := map[int64]bool{}
		for _, l := range st.lay {
			for _, e := range l.Evs {
				if seen[e.Ts] {
					st.unique = false
				}
				seen[e.Ts] = true
			}
		}
		st.unique = st.unique && st.sorted
	}
	return st, nil
}

// close stops the server; a server on which a request hangs is abandoned (its directory is removed at exit)
func (st *store) close() {
	if st.poisoned {
		leaked.Lock()
		leaked.dirs = append(leaked.dirs, st.srv.Dir)
		leaked.Unlock()
		return
	}
	st.srv.Stop()
}

func (st *store) total() int {
	n := 0
	for _, l := range st.lay {
		n += len(l.Evs)
	}
	return n
}

// srcs describes the partitions in tree order for the model; for ranged variants with the index windows the real
// chunk selector computes
func (st *store) srcs(order []string, v Variant) ([]Src, error) {
	var res []Src
	for _, jn := range order {
		i, ok := st.byJrnl[jn]
		if !ok {
			return nil, fmt.Errorf("unknown journal %s", jn)
		}
		s := Src{Tag: i, Jrn: true, Ranged: v.ranged()}
		var wins []partition.VC16Window
		if v.ranged() {
			src, err := parseSource(st.parts[i].Tags)
			if err != nil {
				return nil, err
			}
			js, err := st.srv.Partitions.GetJournals(context.Background(), src, 10)
			if err != nil {
				return nil, err
			}
			for _, j := range js {
				wins, err = partition.VC16Windows(context.Background(), st.srv.Partitions, model.TimeRange{MinTs: v.Range[0], MaxTs: v.Range[1]}, j)
				st.srv.Partitions.Release(j.Name())
			}
			if err != nil || len(wins) != len(st.lay[i].Chunks) {
				return nil, fmt.Errorf("windows of %s: %v (%d of %d chunks)", jn, err, len(wins), len(st.lay[i].Chunks))
			}
		}
		evs := st.lay[i].Evs
		k := 0
		for ci, c := range st.lay[i].Chunks {
			sc := SChunk{Id: c.Id, Min: 0, Max: 4294967295}
			if wins != nil {
				if uint64(wins[ci].Id) != c.Id {
					return nil, fmt.Errorf("window order")
				}
				sc.Min, sc.Max = int64(wins[ci].MinPos), int64(wins[ci].MaxPos)
			}
			for n := 0; n < c.Count && k < len(evs); n++ {
				sc.Recs = append(sc.Recs, Ev{Ts: evs[k].Ts, Id: evs[k].Id})
				k++
			}
			s.Chunks = append(s.Chunks, sc)
		}
		res = append(res, s)
	}
	return res, nil
}

func (st *store) flt(v Variant) *Flt {
	if !v.Where && !v.ranged() {
		return nil
	}
	f := &Flt{Where: v.Where, Min: minTimestamp, Max: maxTimestamp}
	if v.ranged() {
		f.Min, f.Max = v.Range[0], v.Range[1]
	}
	if v.Where {
		for _, l := range st.lay {
			for _, e := range l.Evs {
				if e.A {
					f.Acc = append(f.Acc, e.Id)
				}
			}
		}
	}
	return f
}

func (st *store) items(g []Got) []Item {
	out := make([]Item, len(g))
	for i, x := range g {
		si, ok := st.byLine[x.Tags]
		if !ok {
			si = -1
		}
		out[i] = Item{Ts: x.Ts, Id: x.Id, Src: si}
	}
	return out
}

func (st *store) selectAll(v Variant) string { return "SELECT FROM g=y" + v.clauses() }

type qout struct {
	items []Item
	pos   string
	order []string
	err   error
	hang  bool
}

// doQuery runs one request with a deadline
func (st *store) doQuery(v Variant, pos string, offset, limit int, to time.Duration) qout {
	ch := make(chan qout, 1)
	go func() {
		g, p, err := query(st.srv, st.selectAll(v), pos, offset, limit)
		ch <- qout{items: st.items(g), pos: p, order: append([]string{}, st.rec.order...), err: err}
	}()
	select {
	case r := <-ch:
		return r
	case <-time.After(to):
		st.poisoned = true
		hangBudget.hit()
		return qout{hang: true}
	}
}

// forward returns the forward read (head, everything) of a cursor whose tree has the given source order
func (st *store) forward(v Variant, order []string) ([]Item, bool) {
	key := v.String() + v.clauses() + "|" + strings.Join(order, ",")
	if f, ok := st.fwd[key]; ok {
		return f, true
	}
	for try := 0; try < 80; try++ {
		r := st.doQuery(v, "head", 0, 10000, finiteTimeout)
		if r.hang || r.err != nil {
			return nil, false
		}
		k := v.String() + v.clauses() + "|" + strings.Join(r.order, ",")
		st.fwd[k] = r.items
		if k == key {
			return r.items, true
		}
	}
	return nil, false
}

func gPositions(st *store, pos string, order []string) (string, error) {
	pm := map[string]journal.Pos{}
	for _, kv := range strings.Split(pos, ":") {
		p := strings.Split(kv, "=")
		if len(p) == 2 {
			jp, err := journal.ParsePos(p[1])
			if err != nil {
				return "", err
			}
			pm[p[0]] = jp
		}
	}
	var ps []string
	for _, jn := range order {
		jp, ok := pm[jn]
		if !ok {
			return "", fmt.Errorf("position %q lacks journal %s", pos, jn)
		}
		ps = append(ps, GPair(GNat(st.byJrnl[jn]), gZZ(uint64(jp.CId), jp.Idx)))
	}
	return GList(ps), nil
}

func sameItems(a, b []Item) bool {
	if len(a) != len(b) {
		return false
	}
	for i := range a {
		if a[i] != b[i] {
			return false
		}
	}
	return true
}

// class names the input class of a failed expectation. Only c16-merged-unsorted-negative-offset is a recorded finding
// (the backward mix of a partition that is not stored in time order is not the reverse of the forward mix); the other
// three name the input classes of defects that were repaired in /repo: a failure there is a regression (VIOLATION).
func (st *store) class(v Variant, what string, offset int, firstRejected bool) string {
	merged := len(st.parts) > 1
	switch {
	case merged && !st.sorted && offset < 0:
		return "c16-merged-unsorted-negative-offset"
	case v.ranged() && offset < 0 && (merged || v.Where):
		return "c16-range-backward-past-first" // partition.JIterator must report the backward end and stay there
	case v.Where && merged && offset < 0:
		return "c16-merged-filter-negative-offset" // fiterator must drop its buffer on SetBackward
	case (v.Where || v.ranged()) && offset > 0 && firstRejected:
		return "c16-filter-positive-offset-first-rejected" // Offset(+k) must settle with a Get before its first Next
	}
	return "c16-" + what
}

// risky: requests on which a partition iterator that does not report the backward end loops forever (the defect
// c16-range-backward-past-first, repaired in /repo: the iterator yielded its first record again and again, so a
// backward move that ran a partition out of records could spin in fiterator.Get / iterateToPos). On the repaired code
// they all return; they are still run with a short deadline, each on a server that is abandoned when the request
// hangs, and after three requests that did hang no further risky request is made in the run (a regression is reported
// by the first of them). A RANGE request with a negative offset is not risky only if the event the move ends on
// (target) lies, in time, strictly after the first stored event of every partition of a time-ordered store (single
// partition: if the move stays inside the matching data).
func (st *store) risky(v Variant, offset int, target *Item) bool {
	if !v.ranged() || offset >= 0 {
		return false
	}
	if target == nil {
		return true
	}
	if len(st.parts) == 1 {
		return false
	}
	if !st.sorted {
		return true
	}
	for _, l := range st.lay {
		if len(l.Evs) > 0 && l.Evs[0].Ts >= target.Ts {
			return true
		}
	}
	return false
}

// runQuery: POSITION pos OFFSET offset LIMIT limit on the whole store
func (st *store) runQuery(v Variant, what, pos string, offset, limit int, risky bool) (Case, error) {
	rp := &Replay{Kind: "query", Parts: st.parts, V: v, Pos: pos, Offset: offset, Limit: limit, What: what}
	cs := Case{Replay: rp, Stream: "query"}
	merged := len(st.parts) > 1
	to := finiteTimeout
	if risky {
		to = hangTimeout
	}
	r := st.doQuery(v, pos, offset, limit, to)
	n := st.total()
	cs.Tags = []string{"query:" + what, "variant:" + v.String(), fmt.Sprintf("parts:%d", len(st.parts))}
	posG := "PHead"
	if pos == "tail" {
		posG = "PTail"
	}
	if r.hang {
		// the tree order of the hanging cursor is unknown: the model must not terminate for the order of the partitions
		// as stored (single partition) -- for merged stores the case is recorded for the oracle only
		order := []string{}
		for _, l := range st.lay {
			order = append(order, l.Jrnl)
		}
		if len(st.rec.order) == len(st.lay) {
			order = append([]string{}, st.rec.order...)
		}
		srcs, err := st.srcs(order, v)
		if err != nil {
			return cs, err
		}
		cs.Coq = GApp("KQuery", gSrcs(srcs), gFlt(st.flt(v)), posG, GZ(int64(offset)), GNat(limit), "QHang")
		cs.Oracle = &Violation{Class: st.class(v, "hang", offset, false), Detail: fmt.Sprintf("%s POSITION %s OFFSET %d LIMIT %d did not return within %v", st.selectAll(v), pos, offset, limit, to)}
		cs.NonTrivial = true
		return cs, nil
	}
	if r.err != nil {
		return cs, fmt.Errorf("query failed: %v", r.err)
	}
	srcs, err := st.srcs(r.order, v)
	if err != nil {
		return cs, err
	}
	ps, err := gPositions(st, r.pos, r.order)
	if err != nil {
		return cs, err
	}
	cs.Coq = GApp("KQuery", gSrcs(srcs), gFlt(st.flt(v)), posG, GZ(int64(offset)), GNat(limit), GApp("QOk", gItems(r.items), ps))
	// non-trivial: the offset crosses a chunk edge or a partition boundary of the merge
	k := offset
	if k < 0 {
		k = -k
	}
	cs.NonTrivial = k > 0 && k <= n && (merged || crossesChunk(st.lay[0], pos, k))
	// oracle: slices of the forward read of a cursor with the same tree
	f, ok := st.forward(v, r.order)
	if !ok {
		if st.poisoned {
			return cs, nil
		}
		return cs, fmt.Errorf("no forward read with the source order of the request")
	}
	var want []Item
	switch {
	case pos == "tail" && offset <= 0:
		k := -offset
		if k > len(f) {
			k = len(f)
		}
		want = f[len(f)-k:]
	case pos == "head" && offset >= 0:
		k := offset
		if k > len(f) {
			k = len(f)
		}
		want = f[k:]
	case pos == "head" && offset < 0:
		want = f
	default: // tail, positive offset
		want = nil
	}
	full := want // what the request would return without the page limit
	if len(want) > limit {
		want = want[:limit]
	}
	if sameItems(r.items, want) && !risky && st.follow {
		if err := st.runContinuation(v, what, pos, offset, limit, r, f, len(f)-len(full)+len(want)); err != nil {
			return cs, err
		}
	}
	if !sameItems(r.items, want) {
		// does the unfiltered read of the same tree start with an event the filter rejects?
		firstRejected := false
		if v.Where || v.ranged() {
			if uf, ok := st.forward(Variant{}, r.order); ok && len(uf) > 0 {
				firstRejected = len(f) == 0 || uf[0] != f[0]
			}
		}
		cs.Oracle = &Violation{Class: st.class(v, what, offset, firstRejected), Detail: fmt.Sprintf("%s POSITION %s OFFSET %d LIMIT %d over %d partitions: got [%s] want [%s] (forward read of the same tree: [%s])",
			st.selectAll(v), pos, offset, limit, len(st.parts), fmtItems(r.items), fmtItems(want), fmtItems(f))}
	}
	return cs, nil
}

// runContinuation: the position an answer carries must denote the first event the request did not deliver: a new request
// from that position (offset 0) returns, partition by partition, exactly the events the first request would have
// returned behind its page (rest: in the order of the first cursor's tree; the second cursor may order ties differently,
// so the comparison is per partition).
func (st *store) runContinuation(v Variant, what, pos string, offset, limit int, r qout, f []Item, idxF int) error {
	// the continuation may itself carry an offset: it moves within the accepted events around the first one not delivered
	j := st.followOff
	if !st.unique {
		j = 0
	}
	start := idxF + j
	if start < 0 {
		start = 0
	}
	if start > len(f) {
		start = len(f)
	}
	rest := f[start:]
	r2 := st.doQuery(v, r.pos, j, 10000, finiteTimeout)
	rp := &Replay{Kind: "query", Parts: st.parts, V: v, Pos: pos, Offset: offset, Limit: limit, What: what, Follow: true, FollowOff: j}
	cs := Case{Replay: rp, Stream: "continuation", Tags: []string{"continuation:" + what, "variant:" + v.String(), fmt.Sprintf("parts:%d", len(st.parts))}}
	if r2.hang {
		cs.Oracle = &Violation{Class: "c16-continuation-hang", Detail: fmt.Sprintf("%s POSITION %q did not return", st.selectAll(v), r.pos)}
		cs.Coq = GApp("KQuery", "[]", "None", "PHead", GZ(0), GNat(0), "QHang")
		st.extra = append(st.extra, cs)
		return nil
	}
	if r2.err != nil {
		return fmt.Errorf("continuation query failed: %v", r2.err)
	}
	srcs, err := st.srcs(r2.order, v)
	if err != nil {
		return err
	}
	at, err := gPositions(st, r.pos, r2.order)
	if err != nil {
		return err
	}
	ps2, err := gPositions(st, r2.pos, r2.order)
	if err != nil {
		return err
	}
	cs.Coq = GApp("KQuery", gSrcs(srcs), gFlt(st.flt(v)), GApp("PAt", at), GZ(int64(j)), GNat(10000), GApp("QOk", gItems(r2.items), ps2))
	cs.NonTrivial = len(st.parts) > 1 || len(st.lay[0].Chunks) > 1
	per := func(l []Item) map[int][]Item {
		m := map[int][]Item{}
		for _, x := range l {
			m[x.Src] = append(m[x.Src], x)
		}
		return m
	}
	a, b := per(rest), per(r2.items)
	ok := len(rest) == len(r2.items)
	for i := range st.parts {
		ok = ok && sameItems(a[i], b[i])
	}
	if !ok {
		class := "c16-continuation-position"
		if !v.ranged() && offset < 0 && len(r.items) == 0 {
			// the journal iterator of the dependency (queries without RANGE) reports, after a backward change of chunks and
			// before any Next, the position "end of the chunk" while it stands on the chunk's last record
			class = "c16-backward-chunk-edge-position:dependency-jiterator"
		}
		cs.Oracle = &Violation{Class: class, Detail: fmt.Sprintf("%s POSITION %s OFFSET %d LIMIT %d over %d partitions returned [%s] and the position %q; a request from that position with OFFSET %d returns [%s], expected (the events behind the page, moved by that offset): [%s]",
			st.selectAll(v), pos, offset, limit, len(st.parts), fmtItems(r.items), r.pos, j, fmtItems(r2.items), fmtItems(rest))}
	}
	st.extra = append(st.extra, cs)
	return nil
}

func crossesChunk(l PartLayout, pos string, k int) bool {
	if len(l.Chunks) < 2 {
		return false
	}
	if pos == "tail" {
		return k > l.Chunks[len(l.Chunks)-1].Count
	}
	return k >= l.Chunks[0].Count
}

// runScript drives a real cursor over the stored journals: ops on crsr directly
func (st *store) runScript(v Variant, what string, ops []Op, risky bool) (Case, error) {
	rp := &Replay{Kind: "script", Parts: st.parts, V: v, Ops: ops, What: what}
	cs := Case{Replay: rp, Stream: "script"}
	ctx := context.Background()
	cur, err := cursor.VC04NewCursor(ctx, cursor.State{Id: 77, Query: st.selectAll(v), Pos: "head"}, st.rec)
	if err != nil {
		return cs, err
	}
	order := append([]string{}, st.rec.order...)
	var obs []string
	var gets []*Item
	done := make(chan struct{})
	go func() {
		defer close(done)
		for _, o := range ops {
			switch o.K {
			case "get":
				le, ln, err := cur.Get(ctx)
				if err != nil {
					obs = append(obs, "(RItem None)")
					gets = append(gets, nil)
				} else {
					si, ok := st.byLine[string(ln)]
					if !ok {
						si = -1
					}
					it := Item{Ts: le.Timestamp, Id: idOf(string(le.Msg)), Src: si}
					obs = append(obs, GApp("RItem", GSome(gItem(it))))
					gets = append(gets, &it)
				}
			case "next":
				cur.Next(ctx)
				obs = append(obs, "RUnit")
			case "release":
				cur.Release()
				obs = append(obs, "RUnit")
			case "bk":
				cur.SetBackward(true)
				obs = append(obs, "RUnit")
			case "fw":
				cur.SetBackward(false)
				obs = append(obs, "RUnit")
			case "offset":
				cur.Offset(ctx, o.N)
				obs = append(obs, "RUnit")
			case "pos":
				p := cur.CurrentPos()
				if jp, ok := p.(journal.Pos); ok {
					obs = append(obs, GApp("RPos", GSome(gZZ(uint64(jp.CId), jp.Idx))))
				} else {
					obs = append(obs, "(RPos None)")
				}
			}
		}
	}()
	hang := false
	select {
	case <-done:
		cursor.VC04CloseCursor(cur)
	case <-time.After(map[bool]time.Duration{false: finiteTimeout, true: hangTimeout}[risky]):
		hang = true
		st.poisoned = true
		hangBudget.hit()
	}
	srcs, err := st.srcs(order, v)
	if err != nil {
		return cs, err
	}
	o2 := append([]string{}, obs...)
	if hang {
		o2 = append(o2, "RHang")
	}
	cs.Coq = GApp("KScript", gSrcs(srcs), gFlt(st.flt(v)), "PHead", gOps(ops), GList(o2))
	cs.Tags = []string{"script:" + what, "variant:" + v.String(), fmt.Sprintf("parts:%d", len(st.parts))}
	cs.NonTrivial = len(st.parts) > 1 || len(st.lay[0].Chunks) > 1
	if hang {
		cs.Oracle = &Violation{Class: st.class(v, "hang", -1, false), Detail: "a cursor operation did not return"}
		return cs, nil
	}
	// oracle for the inverse scripts [offset j; get; offset k; get; offset -k; get]: the last Get returns what the first did
	// when the middle one did not run off the data
	if what == "inverse" && len(gets) == 3 && gets[0] != nil && gets[1] != nil {
		if gets[2] == nil || *gets[2] != *gets[0] {
			g2 := "EOF"
			if gets[2] != nil {
				g2 = fmtItems([]Item{*gets[2]})
			}
			cs.Oracle = &Violation{Class: st.class(v, "inverse", -1, false), Detail: fmt.Sprintf("%s over %d partitions: from next event %s, Offset(+%d) then Offset(-%d) leads to %s", st.selectAll(v), len(st.parts),
				fmtItems([]Item{*gets[0]}), ops[2].N, ops[2].N, g2)}
		}
	}
	return cs, nil
}

// ------------------------------------------------------------------ generators

func genParts(r *Rng, np, kind int) []PartSpec {
	parts := make([]PartSpec, np)
	budget := r.Range(3, 40)
	for i := 0; i < np; i++ {
		ln := budget / np
		if i == 0 {
			ln = budget - (budget/np)*(np-1)
		}
		if np > 1 && r.Chance(1, 5) {
			ln = r.Range(1, 3)
		}
		if ln < 1 {
			ln = 1
		}
		ts := make([]int64, ln)
		cur := int64(1000 + r.Intn(5))
		for k := range ts {
			switch kind {
			case 0: // strictly increasing, unique across partitions (residue class per partition)
				cur += int64(np) * int64(r.Range(1, 4))
				ts[k] = cur - cur%int64(np) + int64(i)
				cur = ts[k]
			case 1: // ties within and across partitions
				cur += int64(r.Intn(2))
				ts[k] = cur
			case 3: // the ends of the int64 axis and the neighbourhood of the former model.MinTimestamp, time ordered (sorted below)
				ts[k] = extremeTs[r.Intn(len(extremeTs))]
			default: // not time ordered
				ts[k] = 1000 + int64(r.Intn(12))
			}
		}
		if kind == 3 {
			sort.Slice(ts, func(a, b int) bool { return ts[a] < ts[b] })
		}
		var chunks [][]Ev
		var cc []Ev
		edge := r.PickInt(2, 3, 5)
		amode := r.PickInt(0, 0, 0, 0, 0, 0, 1, 2) // the WHERE filter accepts: some / all / none of the partition's events
		for k := 0; k < ln; k++ {
			cc = append(cc, Ev{Ts: ts[k], Id: i*100 + k + 1, A: amode == 1 || (amode == 0 && r.Chance(3, 5))})
			if r.Chance(1, edge) && k < ln-1 {
				chunks = append(chunks, cc)
				cc = nil
			}
		}
		chunks = append(chunks, cc)
		// half of the partitions are written chunk by chunk: exact index hulls, RANGE rejects whole chunks
		parts[i] = PartSpec{Tags: fmt.Sprintf("p=p%d,g=y", i), Chunks: chunks, Split: r.Chance(1, 2)}
	}
	return parts
}

func tsBounds(parts []PartSpec) (int64, int64) {
	lo, hi := int64(1<<62), int64(-1<<62)
	for _, p := range parts {
		for _, c := range p.Chunks {
			for _, e := range c {
				if e.Ts < lo {
					lo = e.Ts
				}
				if e.Ts > hi {
					hi = e.Ts
				}
			}
		}
	}
	return lo, hi
}

// chunkGap picks a chunk edge of a partition with more than one chunk and returns a timestamp between the newest
// event before the edge and the oldest event of the next chunk (the newest event itself when there is no room).
// Preferred: an edge of a partition written chunk by chunk (exact hulls: the chunks behind the edge are rejected) whose
// next chunk is shorter than the chunk before it -- a backward walk that took its start index from the rejected chunk
// would enter the previous chunk in the middle.
func chunkGap(r *Rng, parts []PartSpec) (int64, bool) {
	type edge struct{ p, e int }
	var pref, all []edge
	for i, p := range parts {
		for e := 1; e < len(p.Chunks); e++ {
			all = append(all, edge{i, e})
			if p.Split && len(p.Chunks[e]) < len(p.Chunks[e-1]) {
				pref = append(pref, edge{i, e})
			}
		}
	}
	if len(all) == 0 {
		return 0, false
	}
	pick := all[r.Intn(len(all))]
	if len(pref) > 0 && r.Chance(3, 4) {
		pick = pref[r.Intn(len(pref))]
	}
	p, e := parts[pick.p], pick.e
	mx := p.Chunks[e-1][0].Ts
	for _, c := range p.Chunks[:e] {
		for _, x := range c {
			if x.Ts > mx {
				mx = x.Ts
			}
		}
	}
	mn := p.Chunks[e][0].Ts
	for _, x := range p.Chunks[e] {
		if x.Ts < mn {
			mn = x.Ts
		}
	}
	if mn > mx+1 {
		return mx + (mn-mx)/2, true
	}
	return mx, true
}

// extremeTs: timestamps a WHERE filter without RANGE must let through (its default range is the whole int64 axis)
var extremeTs = []int64{-9223372036854775808, -9223372036854775807, -6795364578871345153, -6795364578871345152, -6795364578871345151, -1, 0, 1, 9223372036854775806, 9223372036854775807}

func genVariants(r *Rng, parts []PartSpec) []Variant {
	lo, hi := tsBounds(parts)
	if lo < -(1<<61) || hi > 1<<61 {
		// stores over the whole int64 axis: plain and WHERE (whose default range must not drop anything); no RANGE
		return []Variant{{}, {Where: true}}
	}
	rng := func() *[2]int64 {
		a := lo + int64(r.Intn(int(hi-lo)/2+1)) - 1
		b := hi - int64(r.Intn(int(hi-lo)/2+1)) + 1
		if r.Chance(1, 4) {
			a = lo - 5
		}
		if r.Chance(1, 4) {
			b = hi + 5
		}
		// every second range ends (and every fourth one also starts) in the gap between two chunks of a partition:
		// the chunks behind it are wholly out of range, the chunk before it has no upper index limit, so a backward
		// move from the tail walks over rejected chunks (getPosBackward) and must enter the chunk at its end
		if r.Chance(1, 2) {
			if g, ok := chunkGap(r, parts); ok {
				b = g
				if a > b || r.Chance(1, 2) {
					a = lo - 5
				}
				if r.Chance(1, 4) {
					if g2, ok := chunkGap(r, parts); ok && g2 < b {
						a = g2 + 1
					}
				}
			}
		}
		// bounds that coincide with stored timestamps (both ends of a RANGE are inclusive), one instant, an empty range
		var all []int64
		for _, p := range parts {
			for _, c := range p.Chunks {
				for _, e := range c {
					all = append(all, e.Ts)
				}
			}
		}
		switch r.Intn(12) {
		case 0, 1:
			a = all[r.Intn(len(all))]
		case 2, 3:
			b = all[r.Intn(len(all))]
		case 4:
			a = all[r.Intn(len(all))]
			b = a
		case 5:
			a, b = b+1, a-1
		}
		return &[2]int64{a, b}
	}
	vs := []Variant{{}}
	switch r.Intn(4) {
	case 0:
		vs = append(vs, Variant{Where: true})
	case 1:
		vs = append(vs, Variant{Range: rng()})
	case 2:
		vs = append(vs, Variant{Where: true}, Variant{Range: rng()})
	default:
		vs = append(vs, Variant{Where: true, Range: rng()})
	}
	return vs
}

type budgetT struct {
	sync.Mutex
	hangs int
}

var hangBudget budgetT

// exhausted: so many requests have hung in this run that no further risky request is made
func (b *budgetT) exhausted() bool {
	b.Lock()
	defer b.Unlock()
	return b.hangs <= 0
}

// hit records a request that did not return
func (b *budgetT) hit() {
	b.Lock()
	b.hangs--
	b.Unlock()
}

// sweep runs every k for the variants of one store
func sweepStore(r *Rng, parts []PartSpec, vs []Variant, full bool) ([]Case, error) {
	st, err := openStore(parts)
	if err != nil {
		return nil, err
	}
	defer func() { st.close() }()
	var out []Case
	n := st.total()
	add := func(cs Case, err error) error {
		if err != nil {
			return err
		}
		out = append(out, cs)
		return nil
	}
	reopen := func() error {
		if !st.poisoned {
			return nil
		}
		st.close()
		st, err = openStore(parts)
		return err
	}
	for _, v := range vs {
		fa := st.doQuery(v, "head", 0, 10000, finiteTimeout)
		if fa.hang || fa.err != nil {
			return out, fmt.Errorf("forward read failed: hang=%v err=%v", fa.hang, fa.err)
		}
		F := fa.items
		M := len(F)
		ks := []int{}
		for k := 0; k <= n+1; k++ {
			if full || k <= 3 || k >= n-2 || r.Chance(1, 3) {
				ks = append(ks, k)
			}
		}
		for _, k := range ks {
			for _, q := range []struct {
				what, pos string
				off       int
			}{{"tail", "tail", -k}, {"head", "head", k}} {
				var target *Item
				if q.off < 0 && k <= M {
					target = &F[M-k]
				}
				risky := st.risky(v, q.off, target)
				if risky && hangBudget.exhausted() {
					continue
				}
				limit := 10000
				switch r.Intn(12) {
				case 0, 1:
					limit = r.Range(0, 3)
				case 2: // around the size of the answer: one less, exactly, one more
					wl := k
					if q.pos == "head" {
						wl = M - k
					}
					if wl > M {
						wl = M
					}
					limit = wl + r.Range(-1, 1)
					if limit < 0 {
						limit = 0
					}
				}
				st.follow = limit <= 3 || r.Chance(1, 4)
				st.followOff = 0
				if r.Chance(1, 3) {
					st.followOff = r.PickInt(-2, -1, 1, 2)
				}
				if err := add(st.runQuery(v, q.what, q.pos, q.off, limit, risky)); err != nil {
					return out, err
				}
				out = append(out, st.extra...)
				st.extra = nil
				if err := reopen(); err != nil {
					return out, err
				}
			}
		}
		// offsets far beyond the data, up to the ends of the integer type
		for t := 0; t < 2 && !hangBudget.exhausted(); t++ {
			if err := add(st.runHuge(v, r.PickStr("tail", "head"), hugeOffsets[r.Intn(len(hugeOffsets))])); err != nil {
				return out, err
			}
			if err := reopen(); err != nil {
				return out, err
			}
		}
		// explicit positions on, next to and beyond chunk edges
		for t := 0; t < 5 && !hangBudget.exhausted(); t++ {
			if err := add(st.runAt(v, st.genAt(r), r.PickInt(0, 0, 0, 1, -1, 2, -2, n, -n), r.PickInt(10000, 10000, 1, 0))); err != nil {
				return out, err
			}
			if err := reopen(); err != nil {
				return out, err
			}
		}
		// inverse scripts on a real cursor: Offset(+j); Get; Offset(+k); Get; Offset(-k); Get
		for t := 0; t < 10; t++ {
			j, k := r.Intn(n+1), r.Range(1, n/2+2)
			var target *Item
			if j < M && j+k < M {
				target = &F[j]
			}
			risky := v.ranged() && (target == nil || st.risky(v, -k, target))
			if risky && hangBudget.exhausted() {
				continue
			}
			ops := []Op{{K: "offset", N: j}, {K: "get"}, {K: "offset", N: k}, {K: "get"}, {K: "offset", N: -k}, {K: "get"}, {K: "pos"}}
			if err := add(st.runScript(v, "inverse", ops, risky)); err != nil {
				return out, err
			}
			if err := reopen(); err != nil {
				return out, err
			}
		}
		// random scripts on a real cursor over the stored journals (correspondence only): Get / Next / Release / SetBackward
		// (also to the direction it already has) / Offset / CurrentPos in any order
		for t := 0; t < 4 && !hangBudget.exhausted(); t++ {
			var ops []Op
			for k, ln := 0, r.Range(6, 18); k < ln; k++ {
				switch y := r.Intn(100); {
				case y < 28:
					ops = append(ops, Op{K: "get"})
				case y < 50:
					ops = append(ops, Op{K: "next"})
				case y < 58:
					ops = append(ops, Op{K: "release"})
				case y < 68:
					ops = append(ops, Op{K: "bk"})
				case y < 78:
					ops = append(ops, Op{K: "fw"})
				case y < 90:
					ops = append(ops, Op{K: "pos"})
				default:
					ops = append(ops, Op{K: "offset", N: r.Range(-4, 4)})
				}
			}
			ops = append(ops, Op{K: "get"}, Op{K: "pos"})
			if err := add(st.runScript(v, "random", ops, true)); err != nil {
				return out, err
			}
			if err := reopen(); err != nil {
				return out, err
			}
		}
	}
	return out, nil
}

func parseSource(tags string) (*lqlSource, error) { return parseSrc("{" + tags + "}") }

func run(c *Ctx) error {
	defer func() {
		for _, d := range leaked.dirs {
			os.RemoveAll(d)
		}
	}()
	if c.Replay != nil {
		var rp Replay
		if err := FromJSON(c.Replay, &rp); err != nil {
			return err
		}
		hangBudget.hangs = 1000
		st, err := openStore(rp.Parts)
		if err != nil {
			return err
		}
		defer func() { st.close() }()
		var cs Case
		if rp.Kind == "script" {
			cs, err = st.runScript(rp.V, rp.What, rp.Ops, true)
		} else if rp.Kind == "at" {
			cs, err = st.runAt(rp.V, rp.At, rp.Offset, rp.Limit)
		} else if rp.Huge != 0 {
			cs, err = st.runHuge(rp.V, rp.Pos, rp.Huge)
		} else {
			st.follow = rp.Follow
			st.followOff = rp.FollowOff
			cs, err = st.runQuery(rp.V, rp.What, rp.Pos, rp.Offset, rp.Limit, true)
		}
		if err != nil {
			return err
		}
		c.Add(cs)
		for _, x := range st.extra {
			c.Add(x)
		}
		return c.Finish(rule)
	}
	hangBudget.hangs = 3

	// ---- corpus, always first: the witness of the statement that is still refuted (unsorted merge) and the witnesses of
	// the three repaired defects (props/C16.v: C16_former_witnesses and the _refuted theorems about the former variants)
	wit := []struct {
		parts []PartSpec
		v     Variant
		pos   string
		off   int
	}{
		{witnessParts(false), Variant{Where: true}, "tail", -4},
		{witnessParts(false), Variant{Range: &[2]int64{0, 100}}, "tail", -4},
		{witnessParts(false), Variant{Range: &[2]int64{0, 100}}, "tail", -7},
		{witnessParts(true), Variant{}, "tail", -1},
		{headWitnessParts(), Variant{Where: true}, "head", 1},
		// RANGE that rejects whole chunks (written chunk by chunk, exact hulls): chunks [6 6 2], the range ends between
		// the second and the third; tail -1 must enter the second chunk at its end (getPosBackward); the range starts
		// between the first and the second: head +1 (getPosForward)
		{rejectWitnessParts(), Variant{Range: &[2]int64{0, 215}}, "tail", -1},
		{rejectWitnessParts(), Variant{Range: &[2]int64{0, 215}}, "tail", -7},
		{rejectWitnessParts(), Variant{Range: &[2]int64{155, 215}}, "tail", -2},
		{rejectWitnessParts(), Variant{Range: &[2]int64{155, 1000}}, "head", 1},
	}
	for _, w := range wit {
		st, err := openStore(w.parts)
		if err != nil {
			return err
		}
		cs, err := st.runQuery(w.v, "witness", w.pos, w.off, 10000, false)
		st.close()
		if err != nil {
			return err
		}
		addCase(c, cs)
	}
	// the edges of the mechanism's comparisons on the store [6 6 2] (one Write per chunk) and on the two-partition witness
	// store: offsets beyond the data up to the ends of int, page limits around the size of the answer, positions on / next to /
	// beyond chunk edges and unknown chunk ids, RANGE bounds on stored timestamps / one instant / empty, continuation offsets
	{
		type edge struct {
			parts []PartSpec
			run   func(st *store) (Case, error)
		}
		var edges []edge
		for _, v := range []Variant{{}, {Where: true}, {Range: &[2]int64{155, 215}}} {
			v := v
			for _, h := range []struct {
				pos string
				off int
			}{{"tail", -(1<<63 - 1)}, {"tail", -1 << 63}, {"head", 1<<63 - 1}, {"head", 1 << 31}} {
				h := h
				edges = append(edges, edge{rejectWitnessParts(), func(st *store) (Case, error) { return st.runHuge(v, h.pos, h.off) }})
			}
		}
		for _, lim := range []int{2, 3, 4} {
			lim := lim
			edges = append(edges, edge{witnessParts(false), func(st *store) (Case, error) {
				st.follow, st.followOff = true, lim-3
				return st.runQuery(Variant{}, "witness", "tail", -3, lim, false)
			}})
		}
		for _, a := range []struct {
			chunk int
			dc    int64
			idx   int64 // -1: count, -2: count+1, -3: count-1
			off   int
		}{{1, 0, 0, -1}, {1, 0, -1, 0}, {0, 0, -3, 1}, {1, 1, 0, 0}, {1, -1, 5, -2}, {2, 0, 0xFFFFFFFF, -1}, {0, 0, -2, 0}, {2, 0, -1, -3}} {
			a := a
			for _, v := range []Variant{{}, {Where: true}, {Range: &[2]int64{155, 215}}} {
				v := v
				edges = append(edges, edge{rejectWitnessParts(), func(st *store) (Case, error) {
					c := st.lay[0].Chunks[a.chunk]
					idx := a.idx
					switch idx {
					case -1:
						idx = int64(c.Count)
					case -2:
						idx = int64(c.Count) + 1
					case -3:
						idx = int64(c.Count) - 1
					}
					return st.runAt(v, []AtPos{{Part: 0, CId: uint64(int64(c.Id) + a.dc), Idx: uint32(idx)}}, a.off, 10000)
				}})
			}
		}
		for _, rg := range [][2]int64{{160, 160}, {150, 160}, {211, 219}, {216, 154}, {100, 230}} {
			rg := rg
			for _, q := range []struct {
				pos string
				off int
			}{{"tail", -1}, {"head", 1}, {"tail", -20}} {
				q := q
				edges = append(edges, edge{rejectWitnessParts(), func(st *store) (Case, error) {
					st.follow, st.followOff = true, 0
					return st.runQuery(Variant{Range: &rg}, "witness", q.pos, q.off, 10000, false)
				}})
			}
		}
		var est *store
		var eparts string
		for _, e := range edges {
			key := fmt.Sprintf("%v", e.parts)
			if est == nil || key != eparts || est.poisoned {
				if est != nil {
					est.close()
				}
				var err error
				if est, err = openStore(e.parts); err != nil {
					return err
				}
				eparts = key
			}
			cs, err := e.run(est)
			extra := est.extra
			est.extra = nil
			if err != nil {
				est.close()
				return err
			}
			addCase(c, cs)
			for _, x := range extra {
				addCase(c, x)
			}
		}
		if est != nil {
			est.close()
		}
	}
	// the position an answer carries (C16_position_after_backward_refuted, recorded for the iterator of the dependency;
	// C16_position_ranged): one partition [1,2,3], tail OFFSET -1 LIMIT 0, then the request from the returned position
	for _, v := range []Variant{{}, {Range: &[2]int64{0, 100}}} {
		st, err := openStore(headWitnessParts())
		if err != nil {
			return err
		}
		st.follow = true
		cs, err := st.runQuery(v, "witness", "tail", -1, 0, false)
		extra := st.extra
		st.close()
		if err != nil {
			return err
		}
		addCase(c, cs)
		for _, x := range extra {
			addCase(c, x)
		}
	}

	// ---- sweeps
	type job struct {
		parts []PartSpec
		vs    []Variant
		full  bool
		r     *Rng
	}
	var jobs []job
	ns := c.N(11)
	for i := 0; i < ns; i++ {
		np := c.Rng.PickInt(1, 1, 2, 2, 3, 3, 4, 5)
		kind := c.Rng.PickInt(0, 0, 1, 1, 2, 3)
		parts := genParts(c.Rng, np, kind)
		jobs = append(jobs, job{parts, genVariants(c.Rng, parts), i < 4, c.Rng.Fork()})
	}
	res := make([][]Case, len(jobs))
	errs := make([]error, len(jobs))
	Parallel(len(jobs), 4, func(i int) { res[i], errs[i] = sweepStore(jobs[i].r, jobs[i].parts, jobs[i].vs, jobs[i].full) })
	for i := range jobs {
		if errs[i] != nil {
			return errs[i]
		}
		for _, cs := range res[i] {
			addCase(c, cs)
		}
	}
	return c.Finish(rule)
}

// witnessParts: two partitions a = [1,2 | 3] and b = [10 | 11,12] (chunk edges at |); unsorted: a = [5,1], b = [3]
func witnessParts(unsorted bool) []PartSpec {
	if unsorted {
		return []PartSpec{
			{Tags: "p=p0,g=y", Chunks: [][]Ev{{{Ts: 5, Id: 1, A: true}, {Ts: 1, Id: 2, A: true}}}},
			{Tags: "p=p1,g=y", Chunks: [][]Ev{{{Ts: 3, Id: 101, A: true}}}},
		}
	}
	return []PartSpec{
		{Tags: "p=p0,g=y", Chunks: [][]Ev{{{Ts: 1, Id: 1, A: true}, {Ts: 2, Id: 2, A: true}}, {{Ts: 3, Id: 3, A: true}}}},
		{Tags: "p=p1,g=y", Chunks: [][]Ev{{{Ts: 10, Id: 101, A: true}}, {{Ts: 11, Id: 102, A: true}, {Ts: 12, Id: 103, A: true}}}},
	}
}

// headWitnessParts: one partition [1,2,3] whose first event the WHERE filter rejects
func headWitnessParts() []PartSpec {
	return []PartSpec{
		{Tags: "p=p0,g=y", Chunks: [][]Ev{{{Ts: 1, Id: 1, A: false}, {Ts: 2, Id: 2, A: true}, {Ts: 3, Id: 3, A: true}}}},
	}
}

// rejectWitnessParts: one partition of 14 events (timestamps 100, 110, .. 230) in chunks [6 6 2], one Write per chunk
func rejectWitnessParts() []PartSpec {
	var chunks [][]Ev
	k := 0
	for _, n := range []int{6, 6, 2} {
		var c []Ev
		for i := 0; i < n; i++ {
			c = append(c, Ev{Ts: int64(100 + 10*k), Id: k + 1, A: true})
			k++
		}
		chunks = append(chunks, c)
	}
	return []PartSpec{{Tags: "p=p0,g=y", Chunks: chunks, Split: true}}
}

// addCase registers a case; a case on which the oracle reports a failure is registered a second time without the
// verdict, so that the correspondence check still demands the model's exact (faithfully wrong) answer on it
func addCase(c *Ctx, cs Case) {
	c.Add(cs)
	if cs.Oracle != nil {
		tw := cs
		tw.Oracle = nil
		tw.NonTrivial = false
		tw.Stream = "twin"
		tw.Tags = nil
		tw.Key = cs.Coq + "#twin"
		c.Add(tw)
	}
}

const rule = "non-trivial iff the offset (0 < k <= n) crosses a chunk edge of the partition or the read is a merge of several partitions"

func main() { Main("C16", "C16K", run) }
