package main

import (
	"fmt"
	"os"
	"time"
)

func ids(g []Got) []int {
	r := []int{}
	for _, x := range g {
		r = append(r, x.Id)
	}
	return r
}

func main() {
	srv, err := startStoreServer()
	if err != nil {
		fmt.Println(err)
		os.Exit(1)
	}
	
	parts := []PartSpec{
		{Tags: "p=a", Chunks: [][]Ev{{{1, 1}, {2, 2}}, {{3, 3}}}},
		{Tags: "p=b", Chunks: [][]Ev{{{10, 10}}, {{11, 11}, {12, 12}}}},
	}
	lay, err := buildStore(srv, parts)
	fmt.Println(lay, err)
	go func() { time.Sleep(60 * time.Second); fmt.Println("TIMEOUT"); os.Exit(3) }()
	for _, q := range []string{"SELECT FROM p=a OR p=b", "SELECT FROM p=a OR p=b WHERE ts > 0", "SELECT FROM p=a", "SELECT FROM p=a WHERE ts>0", `SELECT FROM p=a OR p=b RANGE ["0":"100"]`} {
		for k := 0; k <= 7; k++ {
			g, pos, err := query(srv, q, "tail", -k, 100)
			fmt.Println(q, "tail", -k, ids(g), pos, err)
		}
		for k := 0; k <= 7; k++ {
			g, pos, err := query(srv, q, "head", k, 100)
			fmt.Println(q, "head", k, ids(g), pos, err)
		}
		for k := 0; k <= 6; k++ {
			_, pos, _ := query(srv, q, "head", k, 0)
			g, _, err := query(srv, q, pos, -1, 1)
			fmt.Println(q, "pos", k, pos, ids(g), err)
			os.Stdout.Sync()
		}
	}
}
