// Input classes at the edges of the mechanism's comparisons (generator audit): offsets at the ends of the integer type,
// page limits around the size of the answer, explicit positions on / next to / beyond chunk edges and unknown chunk ids.
package main

import (
	"fmt"
	"strings"

	"github.com/logrange/range/pkg/records/chunk"
	"github.com/logrange/range/pkg/records/journal"
	. "verifharness/common"
)

// hugeOffsets: offsets no store can satisfy, up to the ends of int (the request's Offset is a Go int, crsr.Offset negates
// it and counts it down to 0)
var hugeOffsets = []int{1 << 31, -(1 << 31), 1<<31 + 1, 1<<63 - 1, -(1<<63 - 1), -1 << 63, 1 << 62, -(1 << 40)}

// runHuge: an offset far beyond the data must behave like the offset "number of events + 2" of the same sign (the walk ends
// at the end of the data). The request with the clamped offset is an ordinary case (K and the slice oracle); the request
// with the huge offset must return the same events and the same position.
func (st *store) runHuge(v Variant, pos string, huge int) (Case, error) {
	cl := st.total() + 2
	if huge < 0 {
		cl = -cl
	}
	st.follow = false
	cs, err := st.runQuery(v, "huge", pos, cl, 10000, true)
	if err != nil || cs.Oracle != nil {
		return cs, err
	}
	cs.Replay.(*Replay).Huge = huge
	cs.Key = cs.Coq + fmt.Sprintf("#huge%d", huge)
	cs.Tags = append(cs.Tags, "offset:huge")
	a := st.doQuery(v, pos, cl, 10000, hangTimeout)
	b := st.doQuery(v, pos, huge, 10000, hangTimeout)
	switch {
	case b.hang:
		cs.Oracle = &Violation{Class: "c16-offset-beyond-data-hang", Detail: fmt.Sprintf("%s POSITION %s OFFSET %d did not return within %v", st.selectAll(v), pos, huge, hangTimeout)}
	case a.hang || a.err != nil || b.err != nil:
		return cs, fmt.Errorf("huge offset: hang=%v err=%v / %v", a.hang, a.err, b.err)
	case !samePerPartition(len(st.parts), a.items, b.items):
		cs.Oracle = &Violation{Class: "c16-offset-beyond-data", Detail: fmt.Sprintf("%s POSITION %s over %d events: OFFSET %d returns [%s], OFFSET %d returns [%s]",
			st.selectAll(v), pos, st.total(), cl, fmtItems(a.items), huge, fmtItems(b.items))}
	}
	return cs, nil
}

// AtPos is an explicit position of one partition
type AtPos struct {
	Part int    `json:"part"`
	CId  uint64 `json:"cid"`
	Idx  uint32 `json:"idx"`
}

func (st *store) posString(at []AtPos) string {
	var ps []string
	for _, a := range at {
		ps = append(ps, st.lay[a.Part].Jrnl+"="+journal.Pos{CId: chunk.Id(a.CId), Idx: a.Idx}.String())
	}
	return strings.Join(ps, ":")
}

// genAt: for every partition (sometimes all but one) a position on a chunk edge: index 0, 1, count-1, count, count+1,
// MaxUint32 of a stored chunk, or a chunk id next to a stored one / 0 / MaxUint64
func (st *store) genAt(r *Rng) []AtPos {
	var at []AtPos
	for i, l := range st.lay {
		if len(st.lay) > 1 && r.Chance(1, 6) {
			continue // a partition the position does not name: it is read from its head
		}
		c := l.Chunks[r.Intn(len(l.Chunks))]
		a := AtPos{Part: i, CId: c.Id}
		a.Idx = uint32(r.PickInt(0, 1, c.Count-1, c.Count, c.Count, c.Count+1, 0xFFFFFFFF, r.Intn(c.Count+1)))
		if c.Count == 0 {
			a.Idx = 0
		}
		switch r.Intn(10) {
		case 0:
			a.CId = c.Id + 1
		case 1:
			a.CId = c.Id - 1
		case 2:
			a.CId = uint64(r.PickInt(0, 1))
		case 3:
			a.CId = 0xFFFFFFFFFFFFFFFF
		}
		at = append(at, a)
	}
	return at
}

// runAt: a request from an explicit position. K: the model from the same position. Oracle, for one partition without RANGE
// and a position inside the stored data (a stored chunk id, index <= count): the accepted events from the position on,
// moved by the offset within the accepted events.
func (st *store) runAt(v Variant, at []AtPos, offset, limit int) (Case, error) {
	pos := st.posString(at)
	rp := &Replay{Kind: "at", Parts: st.parts, V: v, At: at, Offset: offset, Limit: limit, What: "at"}
	cs := Case{Replay: rp, Stream: "at", Tags: []string{"query:at", "variant:" + v.String(), fmt.Sprintf("parts:%d", len(st.parts))}}
	r := st.doQuery(v, pos, offset, limit, hangTimeout)
	var atG []string
	for _, a := range at {
		atG = append(atG, GPair(GNat(a.Part), gZZ(a.CId, a.Idx)))
	}
	if r.hang {
		order := []string{}
		for _, l := range st.lay {
			order = append(order, l.Jrnl)
		}
		srcs, err := st.srcs(order, v)
		if err != nil {
			return cs, err
		}
		cs.Coq = GApp("KQuery", gSrcs(srcs), gFlt(st.flt(v)), GApp("PAt", GList(atG)), GZ(int64(offset)), GNat(limit), "QHang")
		cs.Oracle = &Violation{Class: "c16-at-hang", Detail: fmt.Sprintf("%s POSITION %q OFFSET %d did not return", st.selectAll(v), pos, offset)}
		return cs, nil
	}
	if r.err != nil {
		return cs, fmt.Errorf("query from %q failed: %v", pos, r.err)
	}
	srcs, err := st.srcs(r.order, v)
	if err != nil {
		return cs, err
	}
	ps, err := gPositions(st, r.pos, r.order)
	if err != nil {
		return cs, err
	}
	cs.Coq = GApp("KQuery", gSrcs(srcs), gFlt(st.flt(v)), GApp("PAt", GList(atG)), GZ(int64(offset)), GNat(limit), GApp("QOk", gItems(r.items), ps))
	cs.NonTrivial = true
	if len(st.lay) != 1 || v.ranged() || len(at) != 1 {
		return cs, nil
	}
	// flat index of the position
	l := st.lay[0]
	p, known := 0, false
	for _, c := range l.Chunks {
		if c.Id == at[0].CId {
			known = int(at[0].Idx) <= c.Count
			p += int(at[0].Idx)
			break
		}
		p += c.Count
	}
	if !known {
		return cs, nil
	}
	var acc []Item
	before := 0
	for i, e := range l.Evs {
		if v.Where && !e.A {
			continue
		}
		if i < p {
			before++
		}
		acc = append(acc, Item{Ts: e.Ts, Id: e.Id, Src: 0})
	}
	start := before + offset
	if start < 0 {
		start = 0
	}
	if start > len(acc) {
		start = len(acc)
	}
	want := acc[start:]
	if len(want) > limit {
		want = want[:limit]
	}
	if !sameItems(r.items, want) {
		cs.Oracle = &Violation{Class: "c16-at-position", Detail: fmt.Sprintf("%s POSITION %q (event number %d of the partition, chunks %v) OFFSET %d LIMIT %d: got [%s] want [%s]",
			st.selectAll(v), pos, p, l.Chunks, offset, limit, fmtItems(r.items), fmtItems(want))}
	}
	return cs, nil
}

// samePerPartition: two cursors may order events with equal timestamps of different partitions differently (the order in
// which newCursor meets its sources): the answers are compared partition by partition
func samePerPartition(n int, a, b []Item) bool {
	if len(a) != len(b) {
		return false
	}
	for i := 0; i < n; i++ {
		var x, y []Item
		for _, e := range a {
			if e.Src == i {
				x = append(x, e)
			}
		}
		for _, e := range b {
			if e.Src == i {
				y = append(y, e)
			}
		}
		if !sameItems(x, y) {
			return false
		}
	}
	return true
}
