// recFactory: observing the order in which newCursor meets its sources (duplicated from harness/c04)
package main

import (
	"context"

	"github.com/logrange/logrange/pkg/cursor"
	"github.com/logrange/logrange/pkg/lql"
	"github.com/logrange/logrange/pkg/model"
	"github.com/logrange/logrange/pkg/model/tag"
	"github.com/logrange/range/pkg/records/journal"
)

var _ cursor.ItFactory = (*recFactory)(nil)

// recFactory decorates the server's ItFactory: it records the journals in the order newCursor asks for
// their iterators (the order of the leaves of the mixer tree)
type recFactory struct {
	in    cursor.ItFactory
	order []string
}

func (f *recFactory) GetJournals(ctx context.Context, tagsCond *lql.Source, maxLimit int) (map[tag.Line]journal.Journal, error) {
	f.order = nil
	return f.in.GetJournals(ctx, tagsCond, maxLimit)
}
func (f *recFactory) GetJournal(ctx context.Context, src string) (tag.Set, journal.Journal, error) {
	f.order = nil
	return f.in.GetJournal(ctx, src)
}
func (f *recFactory) Itearator(j journal.Journal, tmRange *model.TimeRange) journal.Iterator {
	f.order = append(f.order, j.Name())
	return f.in.Itearator(j, tmRange)
}
func (f *recFactory) Release(jn string) { f.in.Release(jn) }

type lqlSource = lql.Source

func parseSrc(s string) (*lql.Source, error) { return lql.ParseSource(s) }
