package main

import (
	"context"
	"fmt"
	"io/ioutil"
	"os"
	"path/filepath"
	"sort"
	"strconv"
	"strings"
	"time"

	"github.com/logrange/logrange/api"
	"github.com/logrange/logrange/pkg/lql"
	"github.com/logrange/logrange/pkg/model"
	"github.com/logrange/logrange/pkg/partition"
	"github.com/logrange/range/pkg/records/chunk"
	"github.com/logrange/range/pkg/records/chunk/chunkfs"
	"github.com/logrange/range/pkg/records/journal"
	. "verifharness/common"
)

// ---------------------------------------------------------------- end-to-end stream

type E2EOp struct {
	K string `json:"k"` // batch | batchserve | serve | sync | drop | restart | describe | read | cread | selopen | selagain | truncate | pread | pcont
	// truncate: TRUNCATE c02=e2e MAXSIZE m with m chosen so that the N oldest chunks go (never the last one). pread: the
	// range query is read for N events only and the position it was left at is saved under Cur; pcont: a NEW cursor
	// continues it from the saved position to the end.
	N int `json:"n,omitempty"`
	// restart: clean shutdown and start (cindex.dat and the .tidx files are written and loaded). drop with Keep: only
	// cindex.dat is lost, the .tidx index files stay behind (the state a crash leaves: cindex.dat exists between a clean
	// shutdown and the next start only); the start must discard them. describe: Service.GetParitionInfo.
	Keep bool `json:"keep,omitempty"`
	// drop with Garble: cindex.dat is overwritten with bytes that are not JSON, the .tidx files stay (same outcome as Keep).
	// restart with Lose: between the clean shutdown and the start the .tidx index files are damaged while cindex.dat (which
	// refers to them) stays: "tidx" = removed, "short" = cut to half their size, "zero" = overwritten with zeros. The model
	// has no state for an index root that points into a lost file, so the correspondence part of the case ends at this
	// operation; the oracle goes on judging every read.
	Garble bool   `json:"garble,omitempty"`
	Lose   string `json:"lose,omitempty"`
	// cread: a read through the cached cursor number Cur (created by its first cread, continued by the later ones: one
	// JIterator and one chkSelector live across the reads). selopen: a chkSelector for [O1,O2] is created and kept;
	// selopen and selagain ask it for the status of every chunk.
	Cur int     `json:"cur,omitempty"`
	Ts  []int64 `json:"ts,omitempty"`
	// drop: the restarted server flushes chunk writers after a minute instead of 5 ms, and the harness flushes them itself
	// (chunk.Sync) after every write: what batchserve needs to serve the rebuilder while a batch is still unflushed
	Slow bool   `json:"slow,omitempty"`
	O1   *int64 `json:"o1,omitempty"`
	O2   *int64 `json:"o2,omitempty"`
	// read: write the range as a single bound without brackets is not used; both bounds optional
}
type E2ECase struct {
	Stream    string `json:"stream"`
	ChunkRecs int    `json:"chunk_recs"` // records per chunk (0 = one chunk)
	// FreeRb: the index rebuilder is NOT held by the harness: its workers start when a rebuild is requested and run
	// concurrently with the reader that asked; the harness waits until the rebuilder is idle after every read
	FreeRb bool    `json:"free_rb,omitempty"`
	Ops    []E2EOp `json:"ops"`
}

const msgLen = 40
const recBytes = 4 + 1 + 8 + 4 + msgLen // chunk record header + LogEvent(header, ts, len+msg)
const e2eTags = "c02=e2e"

func i64p(v int64) *int64 { return &v }

// genQueries: bounds below, inside, equal to and above stored timestamps, open ends
func genQueries(r *Rng, all []int64, n int, stream string) []E2EOp {
	var out []E2EOp
	if len(all) == 0 {
		return out
	}
	srt := append([]int64{}, all...)
	sort.Slice(srt, func(a, b int) bool { return srt[a] < srt[b] })
	pick := func() int64 {
		if r.Chance(1, 25) { // the ends of the timestamp type and the values around 0, whatever is stored
			return []int64{-9223372036854775808, -9223372036854775807, -1, 0, 1, 9223372036854775806, 9223372036854775807}[r.Intn(7)]
		}
		x := r.Intn(100)
		var v int64
		switch {
		case x < 30: // a timestamp stored near a sparse-index point
			p := (r.Intn(len(all)/250+1))*250 + r.Range(-2, 2)
			if p < 0 {
				p = 0
			}
			if p >= len(all) {
				p = len(all) - 1
			}
			v = all[p]
		case x < 85:
			v = all[r.Intn(len(all))]
		case x < 92:
			v = srt[0] - int64(r.Range(1, 10))
			if v > srt[0] { // overflow
				v = srt[0]
			}
			return v
		default:
			v = srt[len(srt)-1] + int64(r.Range(1, 10))
			if v < srt[len(srt)-1] {
				v = srt[len(srt)-1]
			}
			return v
		}
		d := int64(r.Range(-1, 1))
		if (d > 0 && v == 9223372036854775807) || (d < 0 && v == -9223372036854775808) {
			d = 0
		}
		return v + d
	}
	for i := 0; i < n; i++ {
		op := E2EOp{K: "read"}
		a, b := pick(), pick()
		x := r.Intn(100)
		switch {
		case x < 10:
			op.O2 = i64p(b) // open lower end
		case x < 20:
			op.O1 = i64p(a) // open upper end
		case x < 32:
			op.O1, op.O2 = i64p(a), i64p(a) // point range
		default:
			if a > b && !r.Chance(1, 10) {
				a, b = b, a
			}
			op.O1, op.O2 = i64p(a), i64p(b)
		}
		out = append(out, op)
	}
	return out
}

func genE2E(r *Rng, i int) *E2ECase {
	streams := []string{"mono", "mono", "cursor", "spiky", "zero", "jitter", "extreme", "dropwrite"}
	ec := &E2ECase{Stream: streams[i%len(streams)]}
	if ec.Stream == "cursor" {
		return genE2ECursor(r)
	}
	if i%8 == 1 {
		// the second mono slot: the life cycle of the index and of its rebuilder
		return genE2ELifecycle(r, i%16 == 1)
	}
	ec.ChunkRecs = r.PickInt(0, 0, 700, 400, 260, 251, 250, 249, 120)
	if ec.Stream == "spiky" {
		// few, long chunks: the index rebuild scans a chunk in 250-record segments
		ec.ChunkRecs = r.PickInt(0, 0, 750, 500)
	}
	kind := ec.Stream
	cur := int64(r.Range(1, 100000))
	switch ec.Stream {
	case "zero":
		cur = int64(r.Range(-30, 0))
	case "extreme":
		if r.Chance(1, 2) {
			cur = 9223372036854775807 - int64(r.Range(100, 3000))
		} else {
			cur = -9223372036854775808 + int64(r.Range(0, 50))
		}
	case "dropwrite":
		kind = "mono"
	case "mono":
		if r.Chance(1, 3) { // nanoseconds since 1970 of a date in 2019..2021
			cur = 1546300800000000000 + int64(r.Intn(94608000))*1000000000 + int64(r.Intn(1000000000))
		}
	}
	total := r.PickInt(300, 520, 760, 1100, 1500)
	var all []int64
	nb := 0
	dropped := false
	for len(all) < total {
		n := r.PickInt(1, 10, 249, 250, 251, 600, 250, 251)
		if len(all)+n > total+300 {
			n = 10
		}
		var tss []int64
		if ec.Stream == "zero" && r.Chance(1, 3) {
			// a batch that starts with timestamp 0
			if cur < 0 {
				cur = 0
			}
			if cur == 0 {
				z := r.PickInt(1, 2, 5)
				if z > n {
					z = n
				}
				tss = make([]int64, z)
				tss = append(tss, tsProcess(r, "zero", n-z, &cur)...)
				if cur == 0 && n > z {
					cur = int64(r.Range(1, 5))
					tss[len(tss)-1] = cur
				}
			}
		}
		if tss == nil {
			if ec.Stream == "extreme" && cur > 9223372036854775807-4000 {
				// stay below MaxInt64
				tss = make([]int64, n)
				for k := range tss {
					if cur < 9223372036854775807 && r.Chance(1, 3) {
						cur++
					}
					tss[k] = cur
				}
			} else if ec.Stream == "spiky" {
				base := len(all)
				if ec.ChunkRecs > 0 {
					base %= ec.ChunkRecs
				}
				tss = spikyData(r, n, &cur, base)
			} else {
				tss = tsProcess(r, kind, n, &cur)
			}
		}
		ec.Ops = append(ec.Ops, E2EOp{K: "batch", Ts: tss})
		all = append(all, tss...)
		nb++
		// interleaved operations
		x := r.Intn(100)
		switch {
		case x < 25:
			ec.Ops = append(ec.Ops, genQueries(r, all, r.Range(1, 3), ec.Stream)...)
		case x < 31:
			ec.Ops = append(ec.Ops, E2EOp{K: "serve"})
		case x < 35:
			ec.Ops = append(ec.Ops, E2EOp{K: "sync"})
		case x < 41 && ec.Stream != "dropwrite":
			// the index files are lost; then either a reader or SyncChunks comes first
			ec.Ops = append(ec.Ops, E2EOp{K: "drop"})
			if r.Chance(1, 2) {
				ec.Ops = append(ec.Ops, E2EOp{K: "sync"})
			} else {
				ec.Ops = append(ec.Ops, genQueries(r, all, 1, ec.Stream)...)
			}
			if r.Chance(2, 3) {
				ec.Ops = append(ec.Ops, E2EOp{K: "serve"})
			}
		}
		if ec.Stream == "dropwrite" && !dropped && len(all) >= total/2 {
			// the index files are lost and the next thing that happens is a write; queries before the rebuild runs
			dropped = true
			if i%16 >= 8 {
				// ... and the write reports the index corrupted (the chunk is new to the index but the notification is not
				// its first), so the rebuilder runs at once: it scans the chunk while the batch is still in the chunk
				// writer's buffer. Then ranges over exactly the new records.
				ec.Ops = append(ec.Ops, E2EOp{K: "drop", Slow: true})
				cur += int64(r.Range(1, 50))
				tss := tsProcess(r, kind, r.PickInt(1, 10, 50, 251), &cur)
				ec.Ops = append(ec.Ops, E2EOp{K: "batchserve", Ts: tss})
				all = append(all, tss...)
				mn, mx := minmax(tss)
				ec.Ops = append(ec.Ops, E2EOp{K: "read", O1: i64p(mn), O2: i64p(mx)}, E2EOp{K: "read", O1: i64p(mn)},
					E2EOp{K: "read", O1: i64p(tss[len(tss)/2]), O2: i64p(tss[len(tss)/2])})
				ec.Ops = append(ec.Ops, genQueries(r, all, 2, ec.Stream)...)
				continue
			}
			ec.Ops = append(ec.Ops, E2EOp{K: "drop"})
			tss := tsProcess(r, kind, r.PickInt(1, 10, 251), &cur)
			ec.Ops = append(ec.Ops, E2EOp{K: "batch", Ts: tss})
			all = append(all, tss...)
			ec.Ops = append(ec.Ops, genQueries(r, all, 4, ec.Stream)...)
			ec.Ops = append(ec.Ops, E2EOp{K: "serve"})
		}
	}
	if r.Chance(1, 4) {
		ec.Ops = append(ec.Ops, E2EOp{K: "serve"})
	}
	if ec.Stream == "spiky" {
		// the index files are lost; point queries inside every 250-record stretch make the selector ask for a rebuild of
		// every chunk; the rebuilder scans the (non-monotone) chunks; then ranges around the out-of-order events
		ec.Ops = append(ec.Ops, E2EOp{K: "drop"})
		for p := 125; p < len(all); p += 250 {
			ec.Ops = append(ec.Ops, E2EOp{K: "read", O1: i64p(all[p]), O2: i64p(all[p])})
		}
		ec.Ops = append(ec.Ops, E2EOp{K: "serve"})
		ec.Ops = append(ec.Ops, spikeQueries(r, all, 8)...)
		ec.Ops = append(ec.Ops, genQueries(r, all, r.Range(2, 5), ec.Stream)...)
		return ec
	}
	ec.Ops = append(ec.Ops, genQueries(r, all, r.Range(8, 16), ec.Stream)...)
	return ec
}

// genE2ELifecycle: a partition in time order whose index goes through its life cycle: clean restarts (cindex.dat and the
// .tidx files written and loaded), crashes that leave the .tidx files without cindex.dat (the start must discard them),
// describes (Service.GetParitionInfo: forced rebuild requests for chunks without a countable index) and rebuilds.
// free = the rebuilder is not held: its workers run when a read asks for a rebuild (stream "freerb"); then no write
// follows an index loss before a sync or read (such a write would start a rebuild that races with the chunk writer's
// flush), and the rebuilder is idle again before the next operation.
func genE2ELifecycle(r *Rng, free bool) *E2ECase {
	ec := &E2ECase{Stream: "lifecycle", FreeRb: free}
	if free {
		ec.Stream = "freerb"
	}
	ec.ChunkRecs = r.PickInt(0, 0, 700, 400, 260, 250)
	if free {
		// many chunks: a describe after an index loss asks for more rebuilds than the rebuilder has workers (10)
		ec.ChunkRecs = r.PickInt(0, 260, 60, 60)
	}
	cur := int64(r.Range(1, 100000))
	total := r.PickInt(300, 520, 760, 1100)
	var all []int64
	cutAll := func() {
		// point queries inside every 250-record stretch: every chunk without an index is asked to be rebuilt
		if len(all) <= 125 {
			ec.Ops = append(ec.Ops, E2EOp{K: "read", O1: i64p(all[len(all)/2]), O2: i64p(all[len(all)/2])})
		}
		for p := 125; p < len(all); p += 250 {
			ec.Ops = append(ec.Ops, E2EOp{K: "read", O1: i64p(all[p]), O2: i64p(all[p])})
		}
	}
	selOpen := func() {
		// a selector that is kept across rebuilder runs, SyncChunks and describes (a restart or an index loss ends it)
		if !free && len(all) > 0 {
			a := all[r.Intn(len(all))] + int64(r.Range(-1, 1))
			ec.Ops = append(ec.Ops, E2EOp{K: "selopen", O1: i64p(a), O2: i64p(a + int64(r.PickInt(0, 1, 40, 400, 3000)))})
		}
	}
	for len(all) < total {
		n := r.PickInt(1, 10, 100, 249, 250, 251, 600)
		tss := tsProcess(r, "mono", n, &cur)
		ec.Ops = append(ec.Ops, E2EOp{K: "batch", Ts: tss})
		all = append(all, tss...)
		if len(ec.Ops) == 1 || r.Chance(1, 6) {
			selOpen()
		} else if !free && r.Chance(1, 3) {
			ec.Ops = append(ec.Ops, E2EOp{K: "selagain"})
		}
		x := r.Intn(100)
		switch {
		case x < 25:
			ec.Ops = append(ec.Ops, genQueries(r, all, r.Range(1, 2), ec.Stream)...)
		case x < 45:
			ec.Ops = append(ec.Ops, E2EOp{K: "restart"})
			if r.Chance(1, 2) {
				ec.Ops = append(ec.Ops, genQueries(r, all, 1, ec.Stream)...)
			}
		case x < 60:
			switch r.Intn(3) {
			case 0:
				ec.Ops = append(ec.Ops, E2EOp{K: "drop"})
			case 1:
				ec.Ops = append(ec.Ops, E2EOp{K: "drop", Keep: true})
			default:
				ec.Ops = append(ec.Ops, E2EOp{K: "drop", Garble: true})
			}
			if r.Chance(1, 2) {
				ec.Ops = append(ec.Ops, E2EOp{K: "sync"})
				if r.Chance(1, 2) {
					ec.Ops = append(ec.Ops, E2EOp{K: "describe"}, E2EOp{K: "serve"})
				}
			}
			cutAll()
			if !free && r.Chance(1, 2) {
				selOpen()
			}
			if !free && r.Chance(2, 3) {
				ec.Ops = append(ec.Ops, E2EOp{K: "serve"}, E2EOp{K: "selagain"})
			}
			if r.Chance(1, 3) {
				ec.Ops = append(ec.Ops, E2EOp{K: "restart"})
			}
			ec.Ops = append(ec.Ops, genQueries(r, all, 2, ec.Stream)...)
		case x < 68:
			ec.Ops = append(ec.Ops, E2EOp{K: "describe"}, E2EOp{K: "serve"}, E2EOp{K: "selagain"})
		case x >= 88 && x < 96:
			// clean restart, more writes (into the same chunk and beyond), CRASH, start: ranges over the second run
			ec.Ops = append(ec.Ops, E2EOp{K: "restart"})
			w := tsProcess(r, "mono", r.PickInt(1, 10, 251), &cur)
			ec.Ops = append(ec.Ops, E2EOp{K: "batch", Ts: w})
			all = append(all, w...)
			ec.Ops = append(ec.Ops, E2EOp{K: "drop", Keep: true})
			mn, mx := minmax(w)
			ec.Ops = append(ec.Ops, E2EOp{K: "read", O1: i64p(mn), O2: i64p(mx)}, E2EOp{K: "read", O1: i64p(w[len(w)/2])})
			if !free && r.Chance(1, 2) {
				ec.Ops = append(ec.Ops, E2EOp{K: "serve"})
			}
		case x >= 80 && x < 88 && !free && ec.ChunkRecs > 0 && len(all) > 2*ec.ChunkRecs:
			// a query left at a saved position; the oldest chunk is TRUNCATEd away (a rebuild of it may be queued: the
			// rebuilder finds its chunk gone); the query is continued
			ec.Ops = append(ec.Ops, E2EOp{K: "pread", Cur: 1, N: r.PickInt(1, 100, ec.ChunkRecs), O1: i64p(all[0]), O2: i64p(cur)},
				E2EOp{K: "truncate", N: 1}, E2EOp{K: "serve"}, E2EOp{K: "pcont", Cur: 1})
			ec.Ops = append(ec.Ops, genQueries(r, all, 1, ec.Stream)...)
		case x < 80 && !free:
			// the index files are lost and the next thing is a WRITE: the info it creates is marked partial (reported with an
			// unlimited time range); a clean restart inside that window must save the mark and arm the rebuild again
			ec.Ops = append(ec.Ops, E2EOp{K: "drop", Keep: r.Chance(1, 2)})
			w := tsProcess(r, "mono", r.PickInt(1, 10, 251), &cur)
			ec.Ops = append(ec.Ops, E2EOp{K: "batch", Ts: w})
			all = append(all, w...)
			old := all[r.Intn(len(all)-len(w)+1)]
			ec.Ops = append(ec.Ops, E2EOp{K: "read", O1: i64p(old), O2: i64p(old + int64(r.PickInt(0, 5, 300)))})
			if r.Chance(2, 3) {
				ec.Ops = append(ec.Ops, E2EOp{K: "restart"}, E2EOp{K: "read", O1: i64p(old), O2: i64p(old)})
				w2 := tsProcess(r, "mono", r.PickInt(1, 10, 251), &cur)
				ec.Ops = append(ec.Ops, E2EOp{K: "batch", Ts: w2})
				all = append(all, w2...)
			}
			ec.Ops = append(ec.Ops, genQueries(r, all, 2, ec.Stream)...)
			ec.Ops = append(ec.Ops, E2EOp{K: "serve"})
			ec.Ops = append(ec.Ops, genQueries(r, all, 1, ec.Stream)...)
		}
	}
	ec.Ops = append(ec.Ops, genQueries(r, all, r.Range(6, 10), ec.Stream)...)
	return ec
}

// genE2ECursor: a partition stored in time order that is being written while ONE chkSelector (selopen/selagain) and
// cached cursors (cread) live across the writes; nothing but write batches and reads happens, so the continued
// selector must answer like a fresh one and the continued cursor must have delivered, at every read, exactly the
// in-range events. Cursor 1 and the kept selector look at a range AHEAD of the data written so far (every chunk is
// out of the range when they first see it and grows into it); cursor 2 at a range that cuts the stored data.
func genE2ECursor(r *Rng) *E2ECase {
	ec := &E2ECase{Stream: "cursor"}
	ec.ChunkRecs = r.PickInt(0, 0, 0, 700, 400, 251)
	cur := int64(r.Range(1, 100000))
	total := r.PickInt(300, 520, 760, 1100)
	var all []int64
	batch := func(n int) {
		tss := tsProcess(r, "mono", n, &cur)
		ec.Ops = append(ec.Ops, E2EOp{K: "batch", Ts: tss})
		all = append(all, tss...)
	}
	batch(r.PickInt(1, 10, 100, 250, 251))
	a1 := cur + int64(r.PickInt(1, 5, 50, 200, 600))
	b1 := a1 + int64(r.PickInt(0, 1, 50, 400, 1500))
	ec.Ops = append(ec.Ops, E2EOp{K: "selopen", O1: i64p(a1), O2: i64p(b1)}, E2EOp{K: "cread", Cur: 1, O1: i64p(a1), O2: i64p(b1)})
	second := false
	for len(all) < total {
		batch(r.PickInt(1, 10, 10, 100, 249, 250, 251))
		if !second && len(all) > total/3 {
			second = true
			a2 := all[r.Intn(len(all))]
			b2 := a2 + int64(r.PickInt(0, 10, 300, 100000))
			ec.Ops = append(ec.Ops, E2EOp{K: "cread", Cur: 2, O1: i64p(a2), O2: i64p(b2)})
		}
		x := r.Intn(100)
		switch {
		case x < 30:
			ec.Ops = append(ec.Ops, E2EOp{K: "selagain"})
		case x < 60:
			ec.Ops = append(ec.Ops, E2EOp{K: "cread", Cur: r.PickInt(1, 1, 2)})
		case x < 70:
			ec.Ops = append(ec.Ops, E2EOp{K: "read", O1: i64p(a1), O2: i64p(b1)})
		case x < 78:
			ec.Ops = append(ec.Ops, genQueries(r, all, 1, ec.Stream)...)
		}
	}
	if ec.ChunkRecs > 0 && len(all) > 2*ec.ChunkRecs {
		// a query left at a saved position, TRUNCATE of the oldest chunk(s), the query continued by a new cursor; the kept
		// selector and the cached cursors go on too
		lo := all[0]
		ec.Ops = append(ec.Ops, E2EOp{K: "pread", Cur: 1, N: r.PickInt(1, 50, 120, ec.ChunkRecs-1, ec.ChunkRecs, ec.ChunkRecs+7), O1: i64p(lo), O2: i64p(cur + 10)},
			E2EOp{K: "pread", Cur: 2, N: r.PickInt(1, 30, 2*ec.ChunkRecs+3), O1: i64p(all[len(all)/3]), O2: i64p(cur)},
			E2EOp{K: "truncate", N: r.PickInt(1, 1, 2)}, E2EOp{K: "pcont", Cur: 1}, E2EOp{K: "pcont", Cur: 2})
		batch(r.PickInt(1, 10, 250))
		ec.Ops = append(ec.Ops, E2EOp{K: "pcont", Cur: 1})
	}
	ec.Ops = append(ec.Ops, E2EOp{K: "selagain"}, E2EOp{K: "cread", Cur: 1}, E2EOp{K: "cread", Cur: 2}, E2EOp{K: "read", O1: i64p(a1), O2: i64p(b1)})
	ec.Ops = append(ec.Ops, genQueries(r, all, r.Range(3, 6), ec.Stream)...)
	return ec
}

// spikeQueries: ranges one of whose bounds lies between the timestamp of an out-of-order event and the timestamps
// of its neighbours in stored order
func spikeQueries(r *Rng, all []int64, n int) []E2EOp {
	var sp []int
	for i := 1; i+1 < len(all); i++ {
		if (all[i] > all[i-1] && all[i] > all[i+1]) || (all[i] < all[i-1] && all[i] < all[i+1]) {
			sp = append(sp, i)
		}
	}
	var out []E2EOp
	at := func(p int) int64 {
		if p < 0 {
			p = 0
		}
		if p >= len(all) {
			p = len(all) - 1
		}
		return all[p]
	}
	for k := 0; k < n && len(sp) > 0; k++ {
		i := sp[r.Intn(len(sp))]
		lo, hi := at(i-r.Range(1, 8)), at(i+r.Range(1, 8))
		if lo > hi {
			lo, hi = hi, lo
		}
		switch r.Intn(3) {
		case 0: // the neighbours without the event (when it is outside)
			out = append(out, E2EOp{K: "read", O1: i64p(lo), O2: i64p(hi)})
		case 1: // from the neighbours up to the event's timestamp
			a, b := lo, all[i]
			if a > b {
				a, b = b, hi
			}
			out = append(out, E2EOp{K: "read", O1: i64p(a), O2: i64p(b)})
		default:
			out = append(out, E2EOp{K: "read", O2: i64p(hi)}, E2EOp{K: "read", O1: i64p(lo)})
		}
	}
	return out
}

// corpus: the witnesses of the _refuted theorems of coq/props/C02.v (a-f), and the MinInt64 edge of the repaired lower bound (g)
func corpus() []Replay {
	rep := func(v int64, n int) []int64 {
		o := make([]int64, n)
		for i := range o {
			o[i] = v
		}
		return o
	}
	var out []Replay
	// (a)-(f) are the witnesses of the theorems in coq/props/C02.v; (a), (b), (d), (e) were known findings until the
	// repairs C02-lower-bound, C02-zero-unset, C02-open-lower-bound and now check the repaired behaviour.
	// (a) equal-timestamp run across a sparse-index point, lower bound equal to it
	out = append(out, Replay{Kind: "e2e", E2E: &E2ECase{Stream: "mono", Ops: []E2EOp{
		{K: "batch", Ts: append(rep(10, 249), 20)}, {K: "batch", Ts: rep(20, 250)},
		{K: "read", O1: i64p(20), O2: i64p(20)}, {K: "read", O1: i64p(20)}, {K: "read", O1: i64p(19), O2: i64p(20)}}}})
	// (b) a batch whose first timestamp is 0
	out = append(out, Replay{Kind: "e2e", E2E: &E2ECase{Stream: "zero", Ops: []E2EOp{
		{K: "batch", Ts: []int64{0, 5, 7}},
		{K: "read", O1: i64p(-10), O2: i64p(2)}, {K: "read", O1: i64p(0), O2: i64p(0)}, {K: "read", O1: i64p(0), O2: i64p(7)}}}})
	// (c) timestamps not monotone inside a chunk: the writes skipped by the sparse step are not covered
	out = append(out, Replay{Kind: "e2e", E2E: &E2ECase{Stream: "jitter", Ops: []E2EOp{
		{K: "batch", Ts: rep(100, 250)}, {K: "batch", Ts: []int64{500}}, {K: "batch", Ts: rep(200, 250)},
		{K: "read", O1: i64p(400), O2: i64p(600)}, {K: "read", O1: i64p(100), O2: i64p(200)}}}})
	// (d) open lower bound and a negative timestamp
	out = append(out, Replay{Kind: "e2e", E2E: &E2ECase{Stream: "zero", Ops: []E2EOp{
		{K: "batch", Ts: []int64{-5, -3, 4}},
		{K: "read", O2: i64p(10)}, {K: "read", O1: i64p(-10), O2: i64p(10)}}}})
	// (e) rebuilt index of negative timestamps (segment max starts at 0), then an unindexed tail
	out = append(out, Replay{Kind: "e2e", E2E: &E2ECase{Stream: "zero", Ops: []E2EOp{
		{K: "batch", Ts: append(rep(-1000, 150), rep(-900, 150)...)}, {K: "drop"}, {K: "sync"}, {K: "read", O1: i64p(-950), O2: i64p(-950)}, {K: "serve"},
		{K: "batch", Ts: rep(-500, 10)}, {K: "batch", Ts: rep(-400, 10)}, {K: "batch", Ts: rep(-300, 10)},
		{K: "read", O1: i64p(-450), O2: i64p(-400)}, {K: "read", O1: i64p(-2000), O2: i64p(-400)}}}})
	// (f) index files lost, then a write before anything synchronises the index
	out = append(out, Replay{Kind: "e2e", E2E: &E2ECase{Stream: "dropwrite", Ops: []E2EOp{
		{K: "batch", Ts: rep(100, 300)}, {K: "drop"}, {K: "batch", Ts: rep(200, 10)},
		{K: "read", O1: i64p(100), O2: i64p(150)}, {K: "serve"}, {K: "read", O1: i64p(100), O2: i64p(150)}}}})
	// (g) the smallest timestamp in the hull: the lower bound (asked as t1-1 since the repair of (a)) must not be asked
	// as MinInt64-1; an open lower bound is MinInt64 since the repair of (d). The answer is complete either way; a
	// wrapped request shows as a rebuild request in the queue (K).
	const minI64 = -9223372036854775808
	out = append(out, Replay{Kind: "e2e", E2E: &E2ECase{Stream: "extreme", Ops: []E2EOp{
		{K: "batch", Ts: append(rep(minI64, 249), minI64+1)}, {K: "batch", Ts: append(rep(minI64+1, 249), -5)},
		{K: "read", O2: i64p(0)}, {K: "read", O1: i64p(minI64), O2: i64p(0)}, {K: "read", O1: i64p(minI64 + 1), O2: i64p(-5)},
		{K: "read", O2: i64p(minI64)}}}})
	// (h) an index REBUILT by scanning non-monotone data is still exact: 520 events stamped 1000+10*pos, except that the
	// last record of the first 250-record segment (position 249) is stamped 500 ahead of the stream; index lost, a query
	// asks for the rebuild, the rebuilder scans the chunk: the second segment overlaps the first one's maximum and must
	// be merged into a covering interval. RANGE [ts(245):ts(255)] has the 10 events 245..255 without 249.
	{
		ts := make([]int64, 520)
		for i := range ts {
			ts[i] = 1000 + 10*int64(i)
		}
		ts[249] += 500
		out = append(out, Replay{Kind: "e2e", E2E: &E2ECase{Stream: "spiky", Ops: []E2EOp{
			{K: "batch", Ts: ts[:260]}, {K: "batch", Ts: ts[260:]}, {K: "drop"},
			{K: "read", O1: i64p(ts[100]), O2: i64p(ts[100])}, {K: "serve"},
			{K: "read", O1: i64p(ts[245]), O2: i64p(ts[255])}, {K: "read", O2: i64p(ts[251])}, {K: "read", O1: i64p(ts[249] - 5)}}}})
	}
	// (i) the healing side of (f): 300 x 100, the index files are lost, and the first thing after the restart is a write
	// of 10 x 200: the write finds the chunk new to the index with a notification that is not its first, reports the index
	// corrupted, and the rebuilder scans the chunk while the 10 records are still in the chunk writer's buffer. The scan's
	// hull [100,100] must WIDEN the hull [200,200] the write has set, not replace it: RANGE ["200":"200"] has 10 events.
	out = append(out, Replay{Kind: "e2e", E2E: &E2ECase{Stream: "dropwrite", Ops: []E2EOp{
		{K: "batch", Ts: rep(100, 300)}, {K: "drop", Slow: true}, {K: "batchserve", Ts: rep(200, 10)},
		{K: "read", O1: i64p(200), O2: i64p(200)}, {K: "read", O1: i64p(150), O2: i64p(250)}, {K: "read", O1: i64p(100), O2: i64p(150)},
		{K: "batch", Ts: rep(300, 5)}, {K: "read", O1: i64p(200), O2: i64p(300)}}}})
	// (k) the life cycle: 520 events; clean restart (index saved and loaded); a write on the loaded index; the index files
	// survive a "crash" without cindex.dat and must be discarded; a describe asks for the rebuild of every chunk (forced);
	// the rebuilder serves; another restart; ranges at the old index points must still be exact.
	{
		ts := make([]int64, 520)
		for i := range ts {
			ts[i] = 5000 + 3*int64(i/2)
		}
		out = append(out, Replay{Kind: "e2e", E2E: &E2ECase{Stream: "lifecycle", ChunkRecs: 260, Ops: []E2EOp{
			{K: "batch", Ts: ts[:250]}, {K: "batch", Ts: ts[250:400]}, {K: "restart"}, {K: "read", O1: i64p(ts[249]), O2: i64p(ts[251])},
			{K: "batch", Ts: ts[400:]}, {K: "read", O1: i64p(ts[390]), O2: i64p(ts[410])},
			{K: "drop", Keep: true}, {K: "describe"}, {K: "serve"}, {K: "read", O1: i64p(ts[100]), O2: i64p(ts[300])},
			{K: "restart"}, {K: "read", O1: i64p(ts[249]), O2: i64p(ts[249])}, {K: "read", O2: i64p(ts[259])}, {K: "read", O1: i64p(ts[500])}}}})
	}
	// (m) the rebuilder running freely with more requests than workers: 13 chunks of 50 events, the index files are lost, a
	// describe asks for the rebuild of all 13 chunks at once (10 workers start, 3 requests wait and are picked up by workers
	// that have finished); when the rebuilder is idle every chunk has its index again and ranges are exact
	{
		ts := make([]int64, 650)
		for i := range ts {
			ts[i] = 9000 + 2*int64(i)
		}
		out = append(out, Replay{Kind: "e2e", E2E: &E2ECase{Stream: "freerb", ChunkRecs: 50, FreeRb: true, Ops: []E2EOp{
			{K: "batch", Ts: ts[:300]}, {K: "batch", Ts: ts[300:]}, {K: "drop", Keep: true}, {K: "sync"}, {K: "describe"},
			{K: "read", O1: i64p(ts[120]), O2: i64p(ts[130])}, {K: "read", O1: i64p(ts[49]), O2: i64p(ts[50])}, {K: "read", O2: i64p(ts[610])},
			{K: "drop"}, {K: "read", O1: i64p(ts[10]), O2: i64p(ts[640])}, {K: "read", O1: i64p(ts[10]), O2: i64p(ts[640])}}}})
	}
	// (o) the repaired (f) with a clean restart inside the window: 300 x 100, index files lost, the first operation is a
	// write of 10 x 200 (the info it creates is marked partial: RANGE ["100":"150"] has 300 events at once), clean restart
	// (the mark is saved, the loaded info is corrupted again), another write (asks for the rebuild), the rebuilder runs
	out = append(out, Replay{Kind: "e2e", E2E: &E2ECase{Stream: "lifecycle", Ops: []E2EOp{
		{K: "batch", Ts: rep(100, 300)}, {K: "drop"}, {K: "batch", Ts: rep(200, 10)}, {K: "read", O1: i64p(100), O2: i64p(150)},
		{K: "restart"}, {K: "read", O1: i64p(100), O2: i64p(150)}, {K: "batch", Ts: rep(300, 10)},
		{K: "read", O1: i64p(100), O2: i64p(150)}, {K: "read", O1: i64p(200), O2: i64p(300)}, {K: "sync"}, {K: "read", O1: i64p(50), O2: i64p(1000)},
		{K: "serve"}, {K: "read", O1: i64p(100), O2: i64p(150)}, {K: "read", O1: i64p(150), O2: i64p(250)}}}})
	// (p) ONE chunk whose index tree is two levels high: 46 batches of 250 events ts 100000+pos (46 index intervals; a leaf
	// block holds 40), further intervals are added to the second leaf; lower bounds beyond the second leaf's first interval
	{
		ts := make([]int64, 11500)
		for i := range ts {
			ts[i] = 100000 + int64(i)
		}
		var ops []E2EOp
		for b := 0; b < 46; b++ {
			ops = append(ops, E2EOp{K: "batch", Ts: ts[250*b : 250*b+250]})
			if b == 41 || b == 43 {
				ops = append(ops, E2EOp{K: "read", O1: i64p(ts[10300]), O2: i64p(ts[10400])})
			}
		}
		ops = append(ops, E2EOp{K: "read", O1: i64p(ts[11000])}, E2EOp{K: "read", O1: i64p(ts[10300]), O2: i64p(ts[10400])},
			E2EOp{K: "read", O2: i64p(ts[10260])}, E2EOp{K: "read", O1: i64p(ts[9990]), O2: i64p(ts[10010])})
		out = append(out, Replay{Kind: "e2e", E2E: &E2ECase{Stream: "mono", Ops: ops}})
	}
	// (q) a query continued from a saved position whose chunk was TRUNCATEd away: 1500 events in chunks of 300, the index
	// files are lost and a read asks for the rebuild of chunk 1 (held); the range query is read 120 records into chunk 1
	// and its position saved; TRUNCATE removes chunk 1; the rebuilder finds its chunk gone; the query is continued from the
	// saved position by a new cursor: exactly the in-range events of chunks 2.. (the position denotes the first record of
	// the next existing chunk); a second position inside an existing chunk; a position in a chunk BEFORE the removed one
	{
		ts := make([]int64, 1500)
		for i := range ts {
			ts[i] = 1000 + int64(i)
		}
		out = append(out, Replay{Kind: "e2e", E2E: &E2ECase{Stream: "cursor", ChunkRecs: 300, Ops: []E2EOp{
			{K: "batch", Ts: ts[:600]}, {K: "batch", Ts: ts[600:1200]}, {K: "batch", Ts: ts[1200:]}, {K: "drop"},
			{K: "read", O1: i64p(ts[10]), O2: i64p(ts[10])},
			{K: "pread", Cur: 1, N: 120, O1: i64p(1000), O2: i64p(5000)}, {K: "pread", Cur: 2, N: 700, O1: i64p(1000), O2: i64p(5000)},
			{K: "cread", Cur: 1, O1: i64p(1100), O2: i64p(5000)},
			{K: "truncate", N: 1}, {K: "serve"}, {K: "pcont", Cur: 1}, {K: "pcont", Cur: 2}, {K: "cread", Cur: 1},
			{K: "read", O1: i64p(1000), O2: i64p(5000)},
			{K: "truncate", N: 2}, {K: "pcont", Cur: 1}, {K: "pcont", Cur: 2}, {K: "read", O1: i64p(ts[900]), O2: i64p(ts[1000])}}}})
	}
	// (r) repeated and idempotent operations, and a chunk list that changes while its LENGTH stays (one chunk removed, one
	// added between two reads of a kept selector, whose cache is keyed by chunk id and refreshed by the list's length)
	{
		ts := make([]int64, 1300)
		for i := range ts {
			ts[i] = 1577836800000000000 + 1000000000*int64(i/3)
		}
		out = append(out, Replay{Kind: "e2e", E2E: &E2ECase{Stream: "lifecycle", ChunkRecs: 200, Ops: []E2EOp{
			// (no cached cursor here: chunks that TRUNCATE removes while a cached cursor holds them are deleted late, and a
			// restart in between brings them back - TRUNCATE's business, C09)
			{K: "batch", Ts: ts[:700]}, {K: "selopen", O1: i64p(ts[150]), O2: i64p(ts[900])},
			{K: "truncate", N: 1}, {K: "batch", Ts: ts[700:900]}, {K: "selagain"}, {K: "truncate", N: 1}, {K: "truncate", N: 1},
			{K: "selagain"}, {K: "sync"}, {K: "sync"}, {K: "describe"}, {K: "describe"}, {K: "serve"}, {K: "serve"},
			{K: "restart"}, {K: "restart"}, {K: "read", O1: i64p(ts[150]), O2: i64p(ts[900])},
			{K: "drop"}, {K: "drop", Keep: true}, {K: "read", O1: i64p(ts[600]), O2: i64p(ts[600])}, {K: "read", O1: i64p(ts[600]), O2: i64p(ts[600])},
			{K: "serve"}, {K: "serve"}, {K: "batch", Ts: ts[900:]}, {K: "read", O1: i64p(ts[899]), O2: i64p(ts[901])},
			{K: "read", O1: i64p(ts[1299]), O2: i64p(ts[0])}, {K: "read", O1: i64p(ts[1299]), O2: i64p(ts[1299])}}}})
	}
	// (s) the largest timestamp: an omitted upper bound is MaxInt64 itself (events stamped MaxInt64 are in range), and the
	// bounds MaxInt64-1 / MaxInt64 written out
	{
		const maxI64 = 9223372036854775807
		out = append(out, Replay{Kind: "e2e", E2E: &E2ECase{Stream: "extreme", Ops: []E2EOp{
			{K: "batch", Ts: append(rep(maxI64-2, 249), maxI64-1)}, {K: "batch", Ts: append(rep(maxI64-1, 248), maxI64, maxI64)},
			{K: "read", O1: i64p(maxI64 - 1)}, {K: "read", O1: i64p(maxI64)}, {K: "read", O1: i64p(maxI64), O2: i64p(maxI64)},
			{K: "read", O1: i64p(maxI64 - 1), O2: i64p(maxI64 - 1)}, {K: "read", O2: i64p(maxI64)}, {K: "read", O2: i64p(maxI64 - 1)}}}})
	}
	// (t) (f) with ONE record before the index loss: the write notification that creates the info starts at record 1
	out = append(out, Replay{Kind: "e2e", E2E: &E2ECase{Stream: "dropwrite", Ops: []E2EOp{
		{K: "batch", Ts: rep(100, 1)}, {K: "drop"}, {K: "batch", Ts: rep(200, 10)}, {K: "read", O1: i64p(100), O2: i64p(100)},
		{K: "read", O1: i64p(50), O2: i64p(150)}, {K: "serve"}, {K: "read", O1: i64p(100), O2: i64p(100)}}}})
	// (u) a CRASH after a clean restart and more writes into the same chunk: 300 x 100, clean restart (snapshot written,
	// loaded and consumed), 10 x 200 into the same chunk, crash (no close(): whatever snapshot was on disk stays), start:
	// the events of the second run must be found (C02_snapshot_used_once / C02_kept_snapshot_refuted)
	out = append(out, Replay{Kind: "e2e", E2E: &E2ECase{Stream: "lifecycle", Ops: []E2EOp{
		{K: "batch", Ts: rep(100, 300)}, {K: "restart"}, {K: "batch", Ts: rep(200, 10)}, {K: "drop", Keep: true},
		{K: "read", O1: i64p(200), O2: i64p(200)}, {K: "read", O1: i64p(150), O2: i64p(250)}, {K: "read", O1: i64p(100), O2: i64p(100)},
		{K: "batch", Ts: rep(300, 5)}, {K: "restart"}, {K: "batch", Ts: rep(400, 5)}, {K: "drop", Keep: true}, {K: "drop", Keep: true},
		{K: "read", O1: i64p(350), O2: i64p(450)}, {K: "serve"}, {K: "read", O1: i64p(400)}}}})
	// (v) a chunk whose FIRST record is newer than its last one (500, 499, ... 400), learnt by SyncChunks after an index
	// loss: lightFill swaps the two ends, the hull is [400,500]; ranges around the corrected hull
	{
		ts := make([]int64, 101)
		for i := range ts {
			ts[i] = 500 - int64(i)
		}
		out = append(out, Replay{Kind: "e2e", E2E: &E2ECase{Stream: "jitter", Ops: []E2EOp{
			{K: "batch", Ts: ts}, {K: "drop", Keep: true}, {K: "sync"},
			{K: "read", O1: i64p(450), O2: i64p(500)}, {K: "read", O1: i64p(401), O2: i64p(600)}, {K: "read", O1: i64p(500), O2: i64p(500)},
			{K: "read", O1: i64p(300), O2: i64p(400)}, {K: "read", O1: i64p(501), O2: i64p(600)}}}})
	}
	// (n) a RANGE query over two partitions (cursor.newCursor mixes one range iterator per partition)
	{
		var a, b []int64
		for i := 0; i < 300; i++ {
			a = append(a, 100+2*int64(i))
			b = append(b, 101+3*int64(i))
		}
		out = append(out, Replay{Kind: "e2e", E2E: &E2ECase{Stream: "mono", Ops: []E2EOp{
			{K: "batch", Ts: a}, {K: "aux", Ts: b}, {K: "read2", O1: i64p(200), O2: i64p(400)}, {K: "read2", O1: i64p(598), O2: i64p(598)},
			{K: "read2", O1: i64p(0), O2: i64p(5000)}, {K: "read2", O1: i64p(700), O2: i64p(2000)}, {K: "read", O1: i64p(200), O2: i64p(400)}}}})
	}
	// (l) damaged index files at load (oracle only after the damage): 600 events in two chunks, clean shutdown, the .tidx
	// files are removed / cut short / zeroed while cindex.dat still refers to their trees; every range must stay exact,
	// before and after the next write, and after the rebuilder has run.
	for _, dmg := range []string{"tidx", "short", "zero"} {
		ts := make([]int64, 640)
		for i := range ts {
			ts[i] = 7000 + int64(i)
		}
		out = append(out, Replay{Kind: "e2e", E2E: &E2ECase{Stream: "lifecycle", ChunkRecs: 300, Ops: []E2EOp{
			{K: "batch", Ts: ts[:260]}, {K: "batch", Ts: ts[260:600]}, {K: "read", O1: i64p(ts[250]), O2: i64p(ts[350])},
			{K: "restart", Lose: dmg},
			{K: "read", O1: i64p(ts[250]), O2: i64p(ts[350])}, {K: "read", O1: i64p(ts[10]), O2: i64p(ts[20])}, {K: "read", O2: i64p(ts[300])},
			{K: "batch", Ts: ts[600:620]}, {K: "read", O1: i64p(ts[590]), O2: i64p(ts[610])}, {K: "read", O1: i64p(ts[100]), O2: i64p(ts[500])},
			{K: "batch", Ts: ts[620:]}, {K: "serve"}, {K: "read", O1: i64p(ts[250]), O2: i64p(ts[350])}, {K: "read", O1: i64p(ts[600])},
			{K: "read", O1: i64p(ts[299]), O2: i64p(ts[300])}}}})
	}
	// (j) a selector that lives across reads (a cached RANGE cursor that is continued): events ts 1..10, a kept selector
	// and a cached cursor for RANGE ["100":"200"] see the chunk while it is wholly older than the range (window
	// [MaxUint32..MaxUint32]); then ts 50..150 and 151..300 are appended to the SAME chunk: the window must be recomputed,
	// the continued cursor must deliver the 101 events ts 100..200 (props/C02.v C02_continued_selector).
	{
		seq := func(a, b int64) []int64 {
			var o []int64
			for t := a; t <= b; t++ {
				o = append(o, t)
			}
			return o
		}
		out = append(out, Replay{Kind: "e2e", E2E: &E2ECase{Stream: "cursor", Ops: []E2EOp{
			{K: "batch", Ts: seq(1, 10)}, {K: "selopen", O1: i64p(100), O2: i64p(200)}, {K: "cread", Cur: 1, O1: i64p(100), O2: i64p(200)},
			{K: "batch", Ts: seq(50, 150)}, {K: "selagain"}, {K: "batch", Ts: seq(151, 300)}, {K: "selagain"}, {K: "cread", Cur: 1},
			{K: "read", O1: i64p(100), O2: i64p(200)}, {K: "batch", Ts: seq(300, 310)}, {K: "selagain"}, {K: "cread", Cur: 1}}}})
	}
	return out
}

type e2eRun struct {
	dir      string
	srv      *Server
	src      string
	ctx      context.Context
	cids     []chunk.Id // chunk ids in journal order; ordinal = index+1
	cnts     []int      // records per chunk
	all      []int64    // timestamps in stored order
	total    int
	slow     bool // the chunk writers flush on chunk.Sync only (see E2EOp.Slow)
	free     bool // the rebuilder is not held (E2ECase.FreeRb)
	sel      *partition.VC02Selector
	selRange [2]int64
	aux      []int64 // timestamps written to the second partition c02=aux (op aux)
	// TRUNCATE has removed the first `gone` chunks (goneEv events). cids/cnts/all keep their entries, so that chunk
	// ordinals and the sequence numbers of events stay what they were
	gone, goneEv int
	saved        map[int]*e2eSaved
	curs         map[int]*e2eCursor
}

// e2eSaved is the position a partly read query was left at (op pread), to be continued by a NEW cursor (op pcont)
type e2eSaved struct {
	q       string
	pos     string
	o1, o2  *int64
	lastSeq int // sequence number of the last event the first page delivered (-1: none)
}

// e2eCursor is a cached cursor of the server that the harness continues: the request for the next page and what
// it has delivered so far
type e2eCursor struct {
	req    api.QueryRequest
	o1, o2 *int64
	got    map[int]bool
}

func (e *e2eRun) start(chunkRecs int) error {
	o := ServerOpts{Dir: e.dir, NoRPC: true, WriteFlushMs: 5}
	if e.slow {
		o.WriteFlushMs = 60000
	}
	if chunkRecs > 0 {
		o.MaxChunkSize = int64(chunkRecs * recBytes)
	}
	srv, err := StartServer(o)
	if err != nil {
		return err
	}
	e.srv = srv
	if !e.free {
		srv.Partitions.VC02HoldRebuilder()
	}
	return nil
}

func (e *e2eRun) journal() (journal.Journal, error) {
	if e.src == "" {
		src, _, err := e.srv.TIndex.GetOrCreateJournal(e2eTags)
		if err != nil {
			return nil, err
		}
		e.srv.TIndex.Release(src)
		e.src = src
	}
	return e.srv.Partitions.Journals.GetOrCreate(e.ctx, e.src)
}

func (e *e2eRun) chunks() (chunk.Chunks, error) {
	j, err := e.journal()
	if err != nil {
		return nil, err
	}
	return j.Chunks().Chunks(e.ctx)
}

func (e *e2eRun) ordinal(c chunk.Id) int64 {
	for i, x := range e.cids {
		if x == c {
			return int64(i + 1)
		}
	}
	return -1
}

func msgOf(seq int) string {
	s := strconv.Itoa(seq)
	return s + strings.Repeat("x", msgLen-len(s))
}

func seqOf(msg string) (int, error) {
	return strconv.Atoi(strings.TrimRight(msg, "x"))
}

// writeBatch writes the batch through partition.Service.Write, waits until it is readable and returns
// how the journal split it into chunks: (ordinal, count) per chunk touched.
// With serveFirst (after a Slow drop) the rebuilder serves its queue after Service.Write has returned (onWriteCIndex has
// accounted for the batch) and BEFORE the chunk writer flushes it; `seen` is then the number of readable records per
// chunk ordinal at that moment (what the rebuild scan can see) and `served` the chunks served.
func (e *e2eRun) writeBatch(tss []int64, serveFirst bool) (segs [][2]int, seen [][2]int, served []chunk.Id, err error) {
	it := &sliceIt{}
	for k, ts := range tss {
		it.evs = append(it.evs, model.LogEvent{Timestamp: ts, Msg: []byte(msgOf(e.total + k))})
	}
	if err := e.srv.Partitions.Write(e.ctx, e2eTags, it, true); err != nil {
		return nil, nil, nil, fmt.Errorf("write: %v", err)
	}
	if serveFirst {
		cks, err := e.chunks()
		if err != nil {
			return nil, nil, nil, err
		}
		for i, c := range cks {
			seen = append(seen, [2]int{i + 1 + e.gone, int(c.Count())})
		}
		served = e.srv.Partitions.VC02ServeQueued()
	}
	if e.slow {
		cks, err := e.chunks()
		if err != nil {
			return nil, nil, nil, err
		}
		for _, c := range cks {
			c.Sync()
		}
	}
	want := e.total + len(tss)
	var cks chunk.Chunks
	ok := WaitFor(30*time.Second, func() bool {
		var err error
		cks, err = e.chunks()
		if err != nil {
			return false
		}
		n := 0
		for _, c := range cks {
			n += int(c.Count())
		}
		return n == want-e.goneEv
	})
	if !ok {
		return nil, nil, nil, fmt.Errorf("the batch of %d events did not become readable within 30s", len(tss))
	}
	for i, c := range cks {
		i += e.gone
		if i < len(e.cids) {
			if e.cids[i] != c.Id() {
				return nil, nil, nil, fmt.Errorf("chunk list changed unexpectedly")
			}
			if d := int(c.Count()) - e.cnts[i]; d > 0 {
				segs = append(segs, [2]int{i + 1, d})
				e.cnts[i] += d
			}
		} else {
			e.cids = append(e.cids, c.Id())
			e.cnts = append(e.cnts, int(c.Count()))
			if c.Count() > 0 {
				segs = append(segs, [2]int{i + 1, int(c.Count())})
			}
		}
	}
	e.all = append(e.all, tss...)
	e.total = want
	return segs, seen, served, nil
}

// view: per chunk the hull and the index records the TsIndexer reports; plus the rebuilder queue
func (e *e2eRun) view() (string, string, int, error) {
	var vs []string
	maxPts := 0
	for i, c := range e.cids {
		if i < e.gone {
			continue
		}
		h := GNone
		if ri, err := e.srv.TsIndexer.GetRecordsInfo(e.src, c); err == nil {
			h = GSome(GPair(GZ(ri.MinTs), GZ(ri.MaxTs)))
		}
		d := GNone
		if recs, err := e.srv.TsIndexer.ReadData(e.src, c); err == nil {
			d = GSome(gRecs(recs))
			if len(recs) > maxPts {
				maxPts = len(recs)
			}
		}
		vs = append(vs, GTuple(GZ(int64(i+1)), h, d))
	}
	var q []int64
	for _, c := range e.srv.Partitions.VC02Queued() {
		o := e.ordinal(c)
		if o < 0 {
			if len(e.aux) > 0 {
				continue // a chunk of the second partition
			}
			return "", "", 0, fmt.Errorf("rebuild queued for an unknown chunk %v", c)
		}
		q = append(q, o)
	}
	return GList(vs), GListZ(q), maxPts, nil
}

type evt struct {
	seq int
	ts  int64
}

func (e *e2eRun) query(q string) ([]evt, error) { return e.queryFrom(q, "") }

// queryFrom reads the query to the end, starting at the position pos ("" = head), in pages of 9000 events (every page
// after the first is a new cursor created at the position the page before was left at)
func (e *e2eRun) queryFrom(q, pos string) ([]evt, error) {
	var out []evt
	for {
		res, err := e.srv.Querier.Query(e.ctx, &api.QueryRequest{Query: q, Pos: pos, Limit: 9000})
		if res == nil {
			return nil, fmt.Errorf("query failed: %v", err)
		}
		for _, le := range res.Events {
			s, err := seqOf(le.Message)
			if err != nil {
				return nil, fmt.Errorf("unexpected message %q", le.Message)
			}
			out = append(out, evt{s, le.Timestamp})
		}
		if len(res.Events) < 9000 {
			return out, nil
		}
		pos = res.NextQueryRequest.Pos
	}
}

func seenOf(seen [][2]int, o, dflt int) int {
	for _, sn := range seen {
		if sn[0] == o {
			return sn[1]
		}
	}
	return dflt
}

func optZ(p *int64) string {
	if p == nil {
		return GNone
	}
	return GSome(GZ(*p))
}

func runE2E(rp Replay) (*Case, error) {
	ec := rp.E2E
	e := &e2eRun{dir: TempDir("c02e2e"), ctx: context.Background(), free: ec.FreeRb}
	defer func() {
		if e.srv != nil {
			e.srv.Stop()
		}
		RemoveAll(e.dir)
	}()
	if err := e.start(ec.ChunkRecs); err != nil {
		return nil, err
	}
	var hist []string
	var viol *Violation
	// the first failure of the case is reported, except that the recorded class gives way to any other failure later
	// in the same case
	recorded := map[string]bool{"range-incomplete-non-monotone-timestamps": true}
	fail := func(class, detail string) {
		if viol == nil || (recorded[viol.Class] && !recorded[class]) {
			viol = &Violation{Class: class, Detail: detail}
		}
	}
	// a finding about the index itself; reported unless a RANGE query of the same case fails (the query is the
	// better witness)
	var idxViol *Violation
	sortedAll := true
	zeroFirst := false
	negRebuild := false
	pendingDropWrite := false
	kStopped := false               // the correspondence part of the case has ended (E2EOp.Lose)
	staleRoots := false             // the index files were cut short or zeroed while cindex.dat kept its roots into them
	restartInWindow := false        // a clean restart happened while such a chunk was waiting for its rebuild
	pendingChunks := map[int]bool{} // the chunks (ordinals) written to between an index loss and the next sync
	syncedSinceDrop := true
	// chunks (by ordinal) whose index was built by the rebuilder scanning the chunk and that were not written to since
	rebuiltClean := map[int]bool{}
	// chunks (by ordinal) the rebuilder served while their last written records were not flushed yet
	servedUnflushed := map[int]bool{}
	// the timestamps of chunk ordinal o in stored order
	chunkData := func(o int) []int64 {
		lo := 0
		for k := 0; k < o-1; k++ {
			lo += e.cnts[k]
		}
		return e.all[lo : lo+e.cnts[o-1]]
	}
	// A hull the index reports always contains the chunk's FIRST and LAST record, whatever the order of the timestamps:
	// it comes from write notifications (exact min/max of every batch), from a rebuild scan, from lightFill (first and
	// last record, swapped when the first is the newer one), or it is unlimited (partial mark). "" = holds for every chunk.
	hullMissesEnds := func() string {
		for o := e.gone + 1; o <= len(e.cids); o++ {
			data := chunkData(o)
			if len(data) == 0 {
				continue
			}
			ri, err := e.srv.TsIndexer.GetRecordsInfo(e.src, e.cids[o-1])
			if err != nil {
				continue
			}
			for _, ts := range []int64{data[0], data[len(data)-1]} {
				if ts < ri.MinTs || ts > ri.MaxTs {
					return fmt.Sprintf("chunk %d: the hull [%d,%d] does not contain the timestamp %d of its first/last record (first %d, last %d)", o, ri.MinTs, ri.MaxTs, ts, data[0], data[len(data)-1])
				}
			}
		}
		return ""
	}
	// does the TsIndexer's current view of the chunk (hull, index records if any) bound the chunk's timestamps
	// the way the selector relies on ("" = yes)
	chunkConsistent := func(o int) string {
		data := chunkData(o)
		if len(data) == 0 {
			return ""
		}
		mn, mx := minmax(data)
		ri, err := e.srv.TsIndexer.GetRecordsInfo(e.src, e.cids[o-1])
		if err != nil {
			return "no hull: " + err.Error()
		}
		if ri.MinTs > mn || ri.MaxTs < mx {
			return fmt.Sprintf("hull [%d,%d] does not contain the timestamps [%d,%d]", ri.MinTs, ri.MaxTs, mn, mx)
		}
		if recs, err := e.srv.TsIndexer.ReadData(e.src, e.cids[o-1]); err == nil {
			return indexBounds(recs, data)
		}
		return ""
	}
	maxPts := 0
	cutInside := false
	nreads, nbatches := 0, 0
	var tags []string
	for _, op := range ec.Ops {
		var gop string
		gEvents, gWindows := "[]", GNone
		switch op.K {
		case "batch", "batchserve":
			if len(op.Ts) == 0 {
				continue
			}
			serveFirst := op.K == "batchserve" && e.slow
			for k, ts := range op.Ts {
				if (k > 0 && ts < op.Ts[k-1]) || (k == 0 && len(e.all) > 0 && ts < e.all[len(e.all)-1]) {
					sortedAll = false
				}
				if op.Ts[0] == 0 && ts != 0 {
					zeroFirst = true
				}
			}
			segs, seen, served, err := e.writeBatch(op.Ts, serveFirst)
			if err != nil {
				return nil, err
			}
			if !syncedSinceDrop {
				pendingDropWrite = true
				for _, sg := range segs {
					pendingChunks[sg[0]] = true
				}
			}
			for _, sg := range segs {
				delete(rebuiltClean, sg[0])
			}
			var gs []string
			off := 0
			for _, sg := range segs {
				gs = append(gs, fmt.Sprintf("(mkeseg %s %s)", GZ(int64(sg[0])), gRle(op.Ts[off:off+sg[1]])))
				off += sg[1]
			}
			if off != len(op.Ts) {
				return nil, fmt.Errorf("batch of %d split into %v", len(op.Ts), segs)
			}
			gop = GApp("EBatch", GList(gs))
			if serveFirst {
				var gseen []string
				for _, sn := range seen {
					gseen = append(gseen, GPair(GZ(int64(sn[0])), GZ(int64(sn[1]))))
				}
				gop = GApp("EBatchServe", GList(gs), GList(gseen))
				tags = append(tags, "e2e-serve-before-flush")
				// The rebuilder has served the chunks the write reported as corrupted, scanning only what was readable. The
				// hull of a served chunk must still contain everything the writes have announced for it (oracle on the
				// index itself; a failing RANGE query of the same case is reported instead).
				for _, c := range served {
					if o := e.ordinal(c); o > 0 {
						partial := false
						for _, sn := range seen {
							if sn[0] == int(o) && sn[1] < e.cnts[o-1] {
								partial = true
							}
						}
						if partial {
							tags = append(tags, "e2e-partial-scan")
							servedUnflushed[int(o)] = true
						}
						data := chunkData(int(o))
						if ri, err := e.srv.TsIndexer.GetRecordsInfo(e.src, c); err == nil && len(data) > 0 && idxViol == nil {
							if mn, mx := minmax(data); ri.MinTs > mn || ri.MaxTs < mx {
								idxViol = &Violation{Class: "rebuilt-index-hull", Detail: fmt.Sprintf("chunk %d rebuilt while its last %d of %d records were not flushed yet: hull [%d,%d] does not contain the written timestamps [%d,%d]", o, e.cnts[o-1]-seenOf(seen, int(o), e.cnts[o-1]), e.cnts[o-1], ri.MinTs, ri.MaxTs, mn, mx)}
							}
						}
					}
				}
				// the transient of the recorded finding (hull = the first batch after the index loss) ends when the
				// rebuilder has served the chunk
				for _, c := range served {
					delete(pendingChunks, int(e.ordinal(c)))
				}
				pendingDropWrite = len(pendingChunks) > 0
			}
			nbatches++
		case "serve":
			if e.src != "" {
				noIndex := map[chunk.Id]bool{}
				for _, c := range e.cids {
					_, err := e.srv.TsIndexer.ReadData(e.src, c)
					noIndex[c] = err != nil
				}
				served := e.srv.Partitions.VC02ServeQueued()
				for _, c := range served {
					o := e.ordinal(c)
					if o > 0 && noIndex[c] {
						// oracle: an index that was just built by scanning the chunk bounds the chunk's timestamps whatever
						// their order, and the hull contains them
						if _, err := e.srv.TsIndexer.ReadData(e.src, c); err == nil {
							rebuiltClean[int(o)] = true
							tags = append(tags, "e2e-scanned-rebuild")
							if msg := chunkConsistent(int(o)); msg != "" {
								if idxViol == nil {
									idxViol = &Violation{Class: "rebuilt-index-bounds", Detail: fmt.Sprintf("chunk %d (%d records) rebuilt by scanning: %s", o, e.cnts[o-1], msg)}
								}
							}
						}
					}
					if o > 0 {
						lo := 0
						for k := 0; k < int(o-1); k++ {
							lo += e.cnts[k]
						}
						for _, ts := range e.all[lo : lo+e.cnts[o-1]] {
							if ts < 0 {
								negRebuild = true
							}
						}
					}
				}
				for _, c := range served {
					delete(pendingChunks, int(e.ordinal(c)))
				}
				pendingDropWrite = len(pendingChunks) > 0
			}
			gop = "EServe"
		case "sync":
			if e.src == "" {
				continue
			}
			cks, err := e.chunks()
			if err != nil {
				return nil, err
			}
			e.srv.TsIndexer.SyncChunks(e.ctx, e.src, cks)
			if msg := hullMissesEnds(); msg != "" && idxViol == nil {
				idxViol = &Violation{Class: "hull-misses-end-records", Detail: "after SyncChunks: " + msg}
			}
			syncedSinceDrop = true
			gop = "ESync"
		case "drop":
			if e.src == "" {
				continue
			}
			// Keep = a CRASH: what the kill of the process leaves behind. cindex.dat is as it was on disk while the server ran
			// (init() removes the snapshot once it is loaded, so there is none; a server that kept it would find the snapshot
			// of the last clean shutdown again), the .tidx files stay. The clean Stop below writes a new snapshot, which is
			// replaced by what was there before.
			var oldSnap []byte
			hadSnap := false
			if op.Keep {
				if b, err := ioutil.ReadFile(filepath.Join(e.dir, "cindex", "cindex.dat")); err == nil {
					oldSnap, hadSnap = b, true
				}
			}
			e.srv.Stop()
			e.srv = nil
			if op.Keep && hadSnap {
				if err := ioutil.WriteFile(filepath.Join(e.dir, "cindex", "cindex.dat"), oldSnap, 0640); err != nil {
					return nil, err
				}
				tags = append(tags, "e2e-crash-finds-old-snapshot")
			} else if op.Garble {
				if err := ioutil.WriteFile(filepath.Join(e.dir, "cindex", "cindex.dat"), []byte("{\"p\": [ {\"Id\": 12, \"MinTs\""), 0640); err != nil {
					return nil, err
				}
				tags = append(tags, "e2e-cindex-dat-garbled")
			} else if op.Keep {
				if err := os.Remove(filepath.Join(e.dir, "cindex", "cindex.dat")); err != nil {
					return nil, fmt.Errorf("the clean shutdown has not written cindex.dat: %v", err)
				}
				tags = append(tags, "e2e-crash-keeps-tidx")
			} else if err := os.RemoveAll(filepath.Join(e.dir, "cindex")); err != nil {
				return nil, err
			}
			e.slow = op.Slow
			e.sel, e.curs = nil, nil
			if err := e.start(ec.ChunkRecs); err != nil {
				return nil, fmt.Errorf("restart: %v", err)
			}
			syncedSinceDrop = false
			rebuiltClean = map[int]bool{}
			servedUnflushed = map[int]bool{}
			pendingChunks, pendingDropWrite = map[int]bool{}, false
			gop = "EDrop"
		case "restart":
			if e.src == "" {
				continue
			}
			e.srv.Stop()
			e.srv = nil
			e.slow = false
			e.sel, e.curs = nil, nil
			if op.Lose != "" {
				fis, err := ioutil.ReadDir(filepath.Join(e.dir, "cindex"))
				if err != nil {
					return nil, err
				}
				for _, fi := range fis {
					fn := filepath.Join(e.dir, "cindex", fi.Name())
					if filepath.Ext(fn) != ".tidx" {
						continue
					}
					switch op.Lose {
					case "tidx":
						err = os.Remove(fn)
					case "short":
						err = os.Truncate(fn, fi.Size()/2)
					case "zero":
						err = ioutil.WriteFile(fn, make([]byte, fi.Size()), 0640)
					default:
						err = fmt.Errorf("unknown damage %q", op.Lose)
					}
					if err != nil {
						return nil, err
					}
				}
				kStopped = true
				staleRoots = staleRoots || op.Lose == "short" || op.Lose == "zero"
				rebuiltClean = map[int]bool{}
				tags = append(tags, "e2e-index-files-damaged:"+op.Lose)
			}
			if err := e.start(ec.ChunkRecs); err != nil {
				return nil, fmt.Errorf("restart: %v", err)
			}
			tags = append(tags, "e2e-clean-restart")
			if len(pendingChunks) > 0 {
				restartInWindow = true
				tags = append(tags, "e2e-restart-inside-index-loss-window")
			}
			gop = "ERestart"
		case "describe":
			if e.src == "" {
				continue
			}
			if _, err := e.srv.Partitions.GetParitionInfo(e2eTags); err != nil {
				return nil, fmt.Errorf("GetParitionInfo: %v", err)
			}
			syncedSinceDrop = true
			tags = append(tags, "e2e-describe")
			gop = "EDescribe"
			if e.free {
				if !WaitFor(30*time.Second, func() bool { return len(e.srv.Partitions.VC02Queued()) == 0 }) {
					return nil, fmt.Errorf("the index rebuilder did not become idle within 30s")
				}
				gop = "EDescribeServed"
				pendingChunks, pendingDropWrite = map[int]bool{}, false
			}
		case "read":
			if e.src == "" {
				continue
			}
			rng := ""
			switch {
			case op.O1 != nil && op.O2 != nil:
				rng = fmt.Sprintf(` RANGE ["%d":"%d"]`, *op.O1, *op.O2)
			case op.O1 != nil:
				rng = fmt.Sprintf(` RANGE "%d"`, *op.O1)
			case op.O2 != nil:
				rng = fmt.Sprintf(` RANGE [:"%d"]`, *op.O2)
			default:
				continue
			}
			q := "SELECT FROM " + e2eTags + rng
			// the bounds the server understands (how a literal denotes an instant is C20's business)
			l, err := lql.ParseLql(q)
			if err != nil || l.Select == nil || l.Select.Range == nil {
				return nil, fmt.Errorf("query %q does not parse: %v", q, err)
			}
			var o1, o2 *int64
			if l.Select.Range.TmPoint1 != nil {
				o1 = i64p(int64(*l.Select.Range.TmPoint1))
			}
			if l.Select.Range.TmPoint2 != nil {
				o2 = i64p(int64(*l.Select.Range.TmPoint2))
			}
			if (o1 == nil) != (op.O1 == nil) || (o2 == nil) != (op.O2 == nil) || (o1 != nil && *o1 != *op.O1) || (o2 != nil && *o2 != *op.O2) {
				tags = append(tags, "e2e-literal-reinterpreted")
			}
			// selector windows (a fresh chkSelector, exactly what the query's iterator builds)
			t1, t2 := int64(0), int64(9223372036854775807)
			if o1 != nil {
				t1 = *o1
			}
			if o2 != nil {
				t2 = *o2
			}
			j, err := e.journal()
			if err != nil {
				return nil, err
			}
			if o1 != nil && !e.free {
				ws, err := partition.VC02Windows(e.ctx, model.TimeRange{MinTs: t1, MaxTs: t2}, j, e.srv.Partitions.TsIndexer, e.srv.Partitions.GetTmIndexRebuilder())
				if err != nil {
					return nil, err
				}
				var gw []string
				for _, w := range ws {
					gw = append(gw, GTuple(GZ(int64(w.MinPos)), GZ(int64(w.MaxPos)), GZ(int64(w.Count))))
				}
				gWindows = GSome(GList(gw))
			}
			syncedSinceDrop = true
			got, err := e.query(q)
			if err != nil {
				return nil, fmt.Errorf("query %q: %v", q, err)
			}
			full, err := e.query("SELECT FROM " + e2eTags)
			if err != nil {
				return nil, err
			}
			nreads++
			// sanity of the full scan (C01's business, but everything below relies on it)
			if len(full) != e.total-e.goneEv {
				fail("full-scan-incomplete", fmt.Sprintf("full scan returned %d of %d events", len(full), e.total-e.goneEv))
			}
			for k, ev := range full {
				k += e.goneEv
				if k < e.total && (ev.seq != k || ev.ts != e.all[k]) {
					fail("full-scan-content", fmt.Sprintf("event %d of the full scan is (seq %d, ts %d), written (seq %d, ts %d)", k, ev.seq, ev.ts, k, e.all[k]))
					break
				}
			}
			// ---- the oracle: RANGE result = full scan filtered by the bounds
			var want []evt
			for _, ev := range full {
				if (o1 == nil || ev.ts >= *o1) && (o2 == nil || ev.ts <= *o2) {
					want = append(want, ev)
				}
			}
			if len(want) > 0 && len(want) < len(full) {
				cutInside = true
			}
			wantSet := map[int]bool{}
			for _, ev := range want {
				wantSet[ev.seq] = true
			}
			gotSet := map[int]bool{}
			unsound := ""
			for k, ev := range got {
				if !wantSet[ev.seq] {
					unsound = fmt.Sprintf("delivered event seq %d ts %d is not in the filtered full scan", ev.seq, ev.ts)
				}
				if gotSet[ev.seq] {
					unsound = fmt.Sprintf("event seq %d delivered twice", ev.seq)
				}
				if k > 0 && got[k-1].seq >= ev.seq {
					unsound = fmt.Sprintf("events out of stored order: seq %d after %d", ev.seq, got[k-1].seq)
				}
				gotSet[ev.seq] = true
			}
			if unsound != "" {
				fail("range-unsound", fmt.Sprintf("%s: %s", q, unsound))
			}
			var missing []evt
			for _, ev := range want {
				if !gotSet[ev.seq] {
					missing = append(missing, ev)
				}
			}
			// the same range read from its END (POSITION tail, negative offset: the selector's backward walk
			// getPosBackward / checkPosOrReduce over the same windows): the last k in-range events, in stored order. Only
			// the oracle judges it (backward iteration is modelled by C16); on a partition in time order whose forward read
			// was complete.
			if len(missing) == 0 && unsound == "" && sortedAll && len(want) > 0 && nreads%3 == 0 {
				k := len(want)
				if k > 7 {
					k = 7
				}
				res, err := e.srv.Querier.Query(e.ctx, &api.QueryRequest{Query: q, Pos: "tail", Offset: -k, Limit: k})
				if res == nil {
					return nil, fmt.Errorf("query %q from the tail failed: %v", q, err)
				}
				okTail := len(res.Events) == k
				for i := 0; okTail && i < k; i++ {
					sq, err := seqOf(res.Events[i].Message)
					okTail = err == nil && sq == want[len(want)-k+i].seq
				}
				tags = append(tags, "e2e-range-from-tail")
				if !okTail {
					var gotSeq []int
					for _, le := range res.Events {
						sq, _ := seqOf(le.Message)
						gotSeq = append(gotSeq, sq)
					}
					fail("range-tail", fmt.Sprintf("%s POSITION tail OFFSET -%d LIMIT %d returned the events seq %v, the last %d in-range events are seq %d..%d",
						q, k, k, gotSeq, k, want[len(want)-k].seq, want[len(want)-1].seq))
				}
			}
			if len(missing) > 0 {
				// With an open lower bound the negative events lost are explained by the open-lower-bound defect;
				// what else is lost is classified with respect to the bound the server substitutes (0).
				rest, wantRest := missing, want
				lostNeg := false
				if o1 == nil {
					rest, wantRest = nil, nil
					for _, ev := range missing {
						if ev.ts < 0 {
							lostNeg = true
						} else {
							rest = append(rest, ev)
						}
					}
					for _, ev := range want {
						if ev.ts >= 0 {
							wantRest = append(wantRest, ev)
						}
					}
				}
				allNeg, allZero, allT1 := true, true, true
				for _, ev := range rest {
					if ev.ts >= 0 {
						allNeg = false
					}
					if ev.ts != 0 {
						allZero = false
					}
					if ev.ts != t1 {
						allT1 = false
					}
				}
				// the lower-bound defect loses the EARLIEST in-range events of a chunk: within every chunk the lost
				// events are a prefix of the expected ones
				lostPrefix := true
				{
					st := make([]int, len(e.cnts)+1)
					for k, c := range e.cnts {
						st[k+1] = st[k] + c
					}
					chunkOf := func(seq int) int { return sort.Search(len(e.cnts), func(k int) bool { return st[k+1] > seq }) }
					seenKept := map[int]bool{}
					for _, ev := range wantRest {
						c := chunkOf(ev.seq)
						if gotSet[ev.seq] {
							seenKept[c] = true
						} else if seenKept[c] {
							lostPrefix = false
						}
					}
				}
				lostServedUnflushed := false
				{
					st := make([]int, len(e.cnts)+1)
					for k, c := range e.cnts {
						st[k+1] = st[k] + c
					}
					for _, ev := range missing {
						if servedUnflushed[sort.Search(len(e.cnts), func(k int) bool { return st[k+1] > ev.seq })+1] {
							lostServedUnflushed = true
						}
					}
				}
				cls := "range-incomplete"
				switch {
				case staleRoots:
					// recorded finding: cindex.dat's index roots are trusted although the index file they point into was
					// re-created empty at the start (the blocks of the old trees are free and get allocated again)
					cls = "range-incomplete-stale-index-root-after-index-file-loss"
				case !sortedAll:
					cls = "range-incomplete-non-monotone-timestamps"
				case pendingDropWrite && restartInWindow:
					// (repaired) the same made permanent by a clean restart before the rebuilder has served the chunk: the
					// mark "hull partial" must be saved and re-armed
					cls = "range-incomplete-restart-inside-index-loss-window"
				case pendingDropWrite:
					// (repaired) the info a write creates for a chunk the index did not know has the hull of that batch only
					cls = "range-incomplete-write-after-index-loss-before-rebuild"
				case lostServedUnflushed:
					// the transient of the recorded class above ends when the rebuilder has served the chunk, also when its
					// scan could not see the records of the write that asked for it
					cls = "range-incomplete-after-rebuild-of-unflushed-write"
				case len(rest) == 0 && lostNeg:
					cls = "range-incomplete-open-lower-bound-negative-ts"
				case zeroFirst && allZero:
					cls = "range-incomplete-batch-first-ts-zero"
				case negRebuild && allNeg:
					cls = "range-incomplete-rebuilt-index-negative-ts"
				case allT1 && lostPrefix:
					cls = "range-incomplete-lower-bound-equal-ts-run"
				}
				// The recorded class is about a hull or an index that does not bound the chunk's timestamps (index points
				// taken from write notifications, hull from the first/last record). It does not
				// explain events lost from a chunk whose index the rebuilder has just built by scanning it, nor from a
				// chunk whose hull and index, as the TsIndexer reports them now, do bound its timestamps.
				if cls == "range-incomplete-non-monotone-timestamps" && hullMissesEnds() != "" {
					// the recorded class does not cover a hull that misses the chunk's own first or last record
					cls = "range-incomplete-hull-misses-end-records"
				}
				if cls == "range-incomplete-non-monotone-timestamps" {
					st := make([]int, len(e.cnts)+1)
					for k, c := range e.cnts {
						st[k+1] = st[k] + c
					}
					seen := map[int]bool{}
					for _, ev := range missing {
						o := sort.Search(len(e.cnts), func(k int) bool { return st[k+1] > ev.seq }) + 1
						if seen[o] || o > len(e.cnts) {
							continue
						}
						seen[o] = true
						if rebuiltClean[o] {
							cls = "range-incomplete-rebuilt-index"
							break
						}
						if chunkConsistent(o) == "" {
							cls = "range-incomplete-consistent-index"
							break
						}
					}
				}
				fail(cls, fmt.Sprintf("%s lost %d of %d in-range events, first lost: seq %d ts %d (stream %s, %d events in %d chunks)",
					q, len(missing), len(want), missing[0].seq, missing[0].ts, ec.Stream, e.total, len(e.cids)))
			}
			// delivered events as (chunk ordinal, first pos, last pos) runs
			var runs []string
			starts := make([]int, len(e.cnts)+1)
			for k, c := range e.cnts {
				starts[k+1] = starts[k] + c
			}
			locate := func(seq int) (int, int) {
				k := sort.Search(len(e.cnts), func(k int) bool { return starts[k+1] > seq })
				return k + 1, seq - starts[k]
			}
			for k := 0; k < len(got); {
				c, p := locate(got[k].seq)
				m := k
				for m+1 < len(got) {
					c2, p2 := locate(got[m+1].seq)
					if c2 != c || p2 != p+(m+1-k) {
						break
					}
					m++
				}
				runs = append(runs, GTuple(GZ(int64(c)), GZ(int64(p)), GZ(int64(p+m-k))))
				k = m + 1
			}
			gEvents = GList(runs)
			gop = GApp("ERead", optZ(o1), optZ(o2))
			if e.free {
				// the rebuilder's workers were started by this read's requests; the state is observed when it is idle again
				if !WaitFor(30*time.Second, func() bool { return len(e.srv.Partitions.VC02Queued()) == 0 }) {
					return nil, fmt.Errorf("the index rebuilder did not become idle within 30s")
				}
				gop = GApp("EReadServed", optZ(o1), optZ(o2))
				tags = append(tags, "e2e-free-rebuilder")
				pendingChunks, pendingDropWrite = map[int]bool{}, false
			}
		case "truncate":
			if e.src == "" {
				continue
			}
			cks, err := e.chunks()
			if err != nil {
				return nil, err
			}
			n := op.N
			if n >= len(cks) {
				n = len(cks) - 1
			}
			if n <= 0 {
				continue
			}
			var total, cut int64
			ids := make([]chunk.Id, len(cks)) // a removed chunk's wrapper must not be asked for its id afterwards
			for i, c := range cks {
				ids[i] = c.Id()
				total += c.Size()
				if i < n {
					cut += c.Size()
				}
			}
			if _, err := e.srv.Exec(fmt.Sprintf("TRUNCATE c02=e2e MAXSIZE %d", total-cut)); err != nil {
				return nil, fmt.Errorf("TRUNCATE: %v", err)
			}
			after, err := e.chunks()
			if err != nil {
				return nil, err
			}
			removed := len(cks) - len(after)
			if removed < 0 || (len(after) > 0 && after[0].Id() != ids[removed]) {
				return nil, fmt.Errorf("TRUNCATE did not remove a prefix of the chunk list")
			}
			// The journal removes the files of a deleted chunk in a goroutine of its own (after it has got the chunk's
			// lock); a shutdown before that brings the chunk back at the next start. What TRUNCATE promises there is C09's
			// business: here the case goes on when the files are gone.
			if j, err := e.journal(); err == nil {
				dir := j.Chunks().LocalFolder()
				for k := 0; k < removed; k++ {
					fn := chunkfs.SetChunkDataFileExt(chunkfs.MakeChunkFileName(dir, ids[k]))
					if !WaitFor(30*time.Second, func() bool { _, err := os.Stat(fn); return os.IsNotExist(err) }) {
						return nil, fmt.Errorf("the file %s of a truncated chunk is still there after 30s", fn)
					}
				}
			}
			for k := 0; k < removed; k++ {
				e.goneEv += e.cnts[e.gone+k]
			}
			e.gone += removed
			tags = append(tags, fmt.Sprintf("e2e-truncated:%d", removed))
			gop = GApp("ETruncate", GNat(removed))
		case "pread", "pcont":
			if e.src == "" || op.Cur <= 0 {
				continue
			}
			if e.saved == nil {
				e.saved = map[int]*e2eSaved{}
			}
			full, err := e.query("SELECT FROM " + e2eTags)
			if err != nil {
				return nil, err
			}
			if op.K == "pread" {
				if op.O1 == nil || op.O2 == nil || op.N <= 0 {
					continue
				}
				sv := &e2eSaved{o1: op.O1, o2: op.O2, lastSeq: -1, q: fmt.Sprintf(`SELECT FROM %s RANGE ["%d":"%d"]`, e2eTags, *op.O1, *op.O2)}
				res, err := e.srv.Querier.Query(e.ctx, &api.QueryRequest{Query: sv.q, Limit: op.N})
				if res == nil {
					return nil, fmt.Errorf("query %q failed: %v", sv.q, err)
				}
				sv.pos = res.NextQueryRequest.Pos
				// oracle: the page is the first N in-range events
				k := 0
				for _, ev := range full {
					if ev.ts < *op.O1 || ev.ts > *op.O2 || k >= op.N {
						continue
					}
					if sortedAll && (k >= len(res.Events) || msgOf(ev.seq) != res.Events[k].Message) {
						fail("range-page", fmt.Sprintf("%s LIMIT %d: result %d is not the in-range event seq %d", sv.q, op.N, k, ev.seq))
					}
					k++
				}
				if sortedAll && k != len(res.Events) {
					fail("range-page", fmt.Sprintf("%s LIMIT %d returned %d events, the first page has %d", sv.q, op.N, len(res.Events), k))
				}
				if len(res.Events) > 0 {
					sv.lastSeq, _ = seqOf(res.Events[len(res.Events)-1].Message)
				}
				e.saved[op.Cur] = sv
				syncedSinceDrop = true
				gop = GApp("ECRead", optZ(op.O1), optZ(op.O2))
				break
			}
			sv := e.saved[op.Cur]
			if sv == nil {
				continue
			}
			// the saved position: <partition>=<chunk id, 16 hex digits><record index, 8 hex digits>
			kv := strings.Split(sv.pos, "=")
			if len(kv) != 2 {
				return nil, fmt.Errorf("unexpected position %q", sv.pos)
			}
			jp, err := journal.ParsePos(kv[1])
			if err != nil {
				return nil, err
			}
			pc := e.ordinal(jp.CId)
			if pc < 0 {
				return nil, fmt.Errorf("the position %q names an unknown chunk", sv.pos)
			}
			got, err := e.queryFrom(sv.q, sv.pos)
			if err != nil {
				return nil, err
			}
			syncedSinceDrop = true
			tags = append(tags, "e2e-continued-from-position")
			if int(pc) <= e.gone {
				tags = append(tags, "e2e-position-in-removed-chunk")
			}
			// oracle: exactly the in-range events stored after the last delivered one that still exist
			if sortedAll {
				var want []evt
				for _, ev := range full {
					if ev.ts >= *sv.o1 && ev.ts <= *sv.o2 && ev.seq > sv.lastSeq {
						want = append(want, ev)
					}
				}
				bad := len(want) != len(got)
				for k := 0; !bad && k < len(want); k++ {
					bad = want[k].seq != got[k].seq
				}
				if bad {
					first := -1
					if len(got) > 0 {
						first = got[0].seq
					}
					wfirst := -1
					if len(want) > 0 {
						wfirst = want[0].seq
					}
					fail("range-continued-position", fmt.Sprintf("%s continued from the position %s (chunk %d, record %d; %d chunk(s) removed since) returned %d events starting at seq %d; the in-range events after seq %d that still exist are %d, starting at seq %d",
						sv.q, sv.pos, pc, jp.Idx, e.gone, len(got), first, sv.lastSeq, len(want), wfirst))
				}
			}
			// delivered events as (chunk ordinal, first pos, last pos) runs
			{
				starts := make([]int, len(e.cnts)+1)
				for k, c := range e.cnts {
					starts[k+1] = starts[k] + c
				}
				var runs []string
				for k := 0; k < len(got); {
					c := sort.Search(len(e.cnts), func(i int) bool { return starts[i+1] > got[k].seq })
					p := got[k].seq - starts[c]
					m := k
					for m+1 < len(got) && got[m+1].seq == got[m].seq+1 && got[m+1].seq < starts[c+1] {
						m++
					}
					runs = append(runs, GTuple(GZ(int64(c+1)), GZ(int64(p)), GZ(int64(p+m-k))))
					k = m + 1
				}
				gEvents = GList(runs)
			}
			gop = GApp("EPosRead", optZ(sv.o1), optZ(sv.o2), GZ(pc), GZ(int64(jp.Idx)))
		case "aux":
			// events for a second partition; what a RANGE query over both partitions delivers is judged by the oracle (read2)
			it := &sliceIt{}
			for k, ts := range op.Ts {
				it.evs = append(it.evs, model.LogEvent{Timestamp: ts, Msg: []byte(msgOf(1000000 + len(e.aux) + k))})
			}
			if err := e.srv.Partitions.Write(e.ctx, "c02=aux", it, true); err != nil {
				return nil, fmt.Errorf("write: %v", err)
			}
			e.aux = append(e.aux, op.Ts...)
			if !WaitFor(30*time.Second, func() bool {
				got, err := e.query(`SELECT FROM c02="aux"`)
				return err == nil && len(got) == len(e.aux)
			}) {
				return nil, fmt.Errorf("the events of the second partition did not become readable within 30s")
			}
			continue
		case "read2":
			if e.src == "" || op.O1 == nil || op.O2 == nil {
				continue
			}
			q := fmt.Sprintf(`SELECT FROM c02="e2e" OR c02="aux" RANGE ["%d":"%d"]`, *op.O1, *op.O2)
			got, err := e.query(q)
			if err != nil {
				return nil, fmt.Errorf("query %q: %v", q, err)
			}
			syncedSinceDrop = true
			tags = append(tags, "e2e-two-partitions")
			// oracle: the merged RANGE read has exactly the in-range events of both partitions, in time order
			gotSet := map[int]int{}
			for k, ev := range got {
				gotSet[ev.seq]++
				if k > 0 && got[k-1].ts > ev.ts {
					fail("range-two-partitions", fmt.Sprintf("%s: not in time order at result %d (ts %d after %d)", q, k, ev.ts, got[k-1].ts))
				}
			}
			nwant := 0
			check := func(seq int, ts int64) {
				if ts >= *op.O1 && ts <= *op.O2 {
					nwant++
					if gotSet[seq] != 1 {
						fail("range-two-partitions", fmt.Sprintf("%s: the in-range event seq %d ts %d was delivered %d times", q, seq, ts, gotSet[seq]))
					}
				}
			}
			if sortedAll {
				for k, ts := range e.all {
					if k >= e.goneEv {
						check(k, ts)
					}
				}
				for k, ts := range e.aux {
					check(1000000+k, ts)
				}
				if nwant != len(got) {
					fail("range-two-partitions", fmt.Sprintf("%s returned %d events, %d are in range", q, len(got), nwant))
				}
			}
			gop = GApp("ECRead", optZ(op.O1), optZ(op.O2))
		case "selopen", "selagain":
			if e.src == "" || (op.K == "selagain" && e.sel == nil) || (op.K == "selopen" && (op.O1 == nil || op.O2 == nil)) {
				continue
			}
			if op.K == "selopen" {
				j, err := e.journal()
				if err != nil {
					return nil, err
				}
				e.sel = partition.VC02NewSelector(model.TimeRange{MinTs: *op.O1, MaxTs: *op.O2}, j, e.srv.Partitions.TsIndexer, e.srv.Partitions.GetTmIndexRebuilder())
				e.selRange = [2]int64{*op.O1, *op.O2}
				gop = GApp("ESelOpen", GZ(*op.O1), GZ(*op.O2))
			} else {
				gop = "ESelAgain"
			}
			ws, err := e.sel.Windows(e.ctx)
			if err != nil {
				return nil, err
			}
			var gw []string
			for _, w := range ws {
				gw = append(gw, GTuple(GZ(int64(w.MinPos)), GZ(int64(w.MaxPos)), GZ(int64(w.Count))))
			}
			gWindows = GSome(GList(gw))
			syncedSinceDrop = true
			tags = append(tags, "e2e-kept-selector")
			// oracle (C02_continued_selector_complete): on a partition in time order, outside the window of the recorded
			// finding (f), the window the kept selector answers with contains every position of the chunk whose timestamp
			// is in its range - also when the index was rebuilt, synchronised or reloaded since the window was computed
			if sortedAll && len(ws) == len(e.cids)-e.gone {
				for k, w := range ws {
					k += e.gone
					for i, ts := range chunkData(k + 1) {
						if ts < e.selRange[0] || ts > e.selRange[1] {
							continue
						}
						if uint32(i) < w.MinPos || uint32(i) > w.MaxPos || uint32(i) >= w.Count {
							fail("kept-selector-window-incomplete", fmt.Sprintf("a selector for [%d,%d] kept across %d operations answers [%d..%d] of %d for chunk %d, whose position %d has the timestamp %d",
								e.selRange[0], e.selRange[1], len(hist), w.MinPos, w.MaxPos, w.Count, k+1, i, ts))
							break
						}
					}
				}
			}
		case "cread":
			if e.src == "" || op.Cur <= 0 {
				continue
			}
			if e.curs == nil {
				e.curs = map[int]*e2eCursor{}
			}
			cu := e.curs[op.Cur]
			if cu == nil {
				if op.O1 == nil || op.O2 == nil {
					continue
				}
				// Limit above the server's page maximum makes the Querier keep the cursor in its cache without waiting
				cu = &e2eCursor{o1: op.O1, o2: op.O2, got: map[int]bool{}}
				cu.req = api.QueryRequest{ReqId: uint64(7000 + op.Cur), Limit: 20000,
					Query: fmt.Sprintf(`SELECT FROM %s RANGE ["%d":"%d"]`, e2eTags, *op.O1, *op.O2)}
				e.curs[op.Cur] = cu
			}
			res, err := e.srv.Querier.Query(e.ctx, &cu.req)
			if res == nil {
				return nil, fmt.Errorf("continued query %v failed: %v", cu.req, err)
			}
			syncedSinceDrop = true
			unsound := ""
			for _, le := range res.Events {
				sq, err := seqOf(le.Message)
				if err != nil {
					return nil, fmt.Errorf("unexpected message %q", le.Message)
				}
				if cu.got[sq] {
					unsound = fmt.Sprintf("event seq %d delivered twice", sq)
				}
				if le.Timestamp < *cu.o1 || le.Timestamp > *cu.o2 {
					unsound = fmt.Sprintf("event seq %d ts %d is out of the range", sq, le.Timestamp)
				}
				cu.got[sq] = true
			}
			cu.req = res.NextQueryRequest
			cu.req.Limit = 20000
			tags = append(tags, "e2e-continued-cursor")
			if unsound != "" {
				fail("range-continued-cursor-unsound", fmt.Sprintf("%s continued: %s", cu.req.Query, unsound))
			}
			// oracle: everything the continued cursor has delivered so far = the unbounded read filtered by the range
			// (on a partition stored in time order and outside the window of the recorded finding (f), where a fresh RANGE
			// read is complete)
			if sortedAll {
				full, err := e.query("SELECT FROM " + e2eTags)
				if err != nil {
					return nil, err
				}
				nwant, lost := 0, -1
				var lostTs int64
				for _, ev := range full {
					if ev.ts >= *cu.o1 && ev.ts <= *cu.o2 {
						nwant++
						if !cu.got[ev.seq] && lost < 0 {
							lost, lostTs = ev.seq, ev.ts
						}
					}
				}
				if lost >= 0 {
					fresh, err := e.query(cu.req.Query)
					if err != nil {
						return nil, err
					}
					fail("range-continued-cursor-incomplete", fmt.Sprintf("%s through a continued cursor (ReqId %d) has delivered %d of %d in-range events so far, first lost: seq %d ts %d; the same query on a new cursor returns %d (%d events in %d chunks)",
						cu.req.Query, cu.req.ReqId, len(cu.got), nwant, lost, lostTs, len(fresh), e.total, len(e.cids)))
				}
			}
			gop = GApp("ECRead", optZ(cu.o1), optZ(cu.o2))
		default:
			return nil, fmt.Errorf("e2e: unknown op %q", op.K)
		}
		views, queue, pts, err := e.view()
		if err != nil {
			return nil, err
		}
		if pts > maxPts {
			maxPts = pts
		}
		if !kStopped {
			hist = append(hist, GPair(gop, fmt.Sprintf("(mkeobs %s %s %s %s)", views, queue, gEvents, gWindows)))
		}
	}
	tags = append(tags, "e2e:"+ec.Stream, fmt.Sprintf("e2e-chunks:%d", len(e.cids)), fmt.Sprintf("e2e-sorted:%v", sortedAll))
	if idxViol != nil && (viol == nil || recorded[viol.Class]) {
		viol = idxViol
		if staleRoots {
			viol.Class = "range-incomplete-stale-index-root-after-index-file-loss"
		}
	}
	return &Case{
		Coq:        GApp("KE2E", GList(hist)),
		Replay:     rp,
		NonTrivial: maxPts >= 3 && cutInside,
		Oracle:     viol,
		Stream:     "e2e",
		Tags:       tags,
	}, nil
}
