// C02 harness: time-range queries return exactly the events whose timestamp is in range.
//
// Four correspondence streams, all from one seeded PRNG:
//
//	tree : the real ckindex (in-memory blocks, via pkg/tmindex/export_c02_verif.go) fed interval by interval
//	iw   : the real iwrapper min/max (pkg/partition/export_c02_verif.go)
//	ci   : a real TsIndexer on files driven call by call (OnWrite, GetPosFor..., ReadData, RebuildIndex, SyncChunks)
//	e2e  : an in-process server per case: batches, index loss, rebuilds, RANGE queries vs the full scan
//
// The oracle O (independent of the Coq model): RANGE result == full scan filtered by the parsed bounds (e2e);
// structural sanity of the tree (tree).
package main

import (
	"fmt"

	. "verifharness/common"
)

const rule = "tree: random interval sequences (append, equal runs, out-of-order merges; deep append-only trees up to 3 levels); " +
	"iw: timestamp batches with zeros and sign changes; ci: call sequences against a TsIndexer on files incl. rebuild and sync; " +
	"e2e: per case one in-process server, 1-6 chunks, batches of 1/10/249/250/251/600 events, timestamp processes " +
	"(monotone with equal runs, zero/negative, jittered, int64 extremes, spiky = growing with out-of-order events at the 250-record borders of the rebuild scan), index loss and rebuild, 10-25 RANGE queries with bounds at stored values +-{0,1} and open ends; " +
	"half of the dropwrite cases: index loss, restart, a write that the rebuilder serves before the chunk writer has flushed it, ranges over the new records; " +
	"streams lifecycle/freerb: clean restarts, index losses (directory, cindex.dat only, garbled), describes, the rebuilder held or running freely, a selector kept across rebuilder runs; every third complete forward read is repeated from the tail; " +
	"stream cursor: one kept chkSelector and two cached cursors continued across write batches (ranges ahead of the data and cutting it); " +
	"ci: every third case rebuilds an index by scanning non-monotone chunks or a chunk whose last announced records are not readable yet. " +
	"non-trivial iff (tree) the tree has >= 3 records and a merge or a second level happened, (ci) an index with >= 2 intervals was queried strictly inside its hull, " +
	"(e2e) some chunk has >= 2 index points and some range cuts strictly inside the hull of a chunk, (iw) the batch has >= 2 distinct timestamps"

type Replay struct {
	Kind string    `json:"kind"` // tree | iw | ci | e2e
	Tree *TreeCase `json:"tree,omitempty"`
	Iw   []int64   `json:"iw,omitempty"`
	Adv  []uint32  `json:"adv,omitempty"` // minPos maxPos count pos
	Ci   *CiCase   `json:"ci,omitempty"`
	E2E  *E2ECase  `json:"e2e,omitempty"`
}

func mkCase(rp Replay) (*Case, error) {
	switch rp.Kind {
	case "tree":
		return runTree(rp)
	case "iw":
		return runIw(rp)
	case "ci":
		return runCi(rp)
	case "e2e":
		return runE2E(rp)
	case "adv":
		return runAdv(rp)
	}
	return nil, fmt.Errorf("unknown case kind %q", rp.Kind)
}

// addCase registers a case. The driver does not count a model/implementation disagreement on a case whose
// oracle verdict is set (it is "already reported through O"), and a recorded known finding is such a verdict.
// So that the correspondence still bites on those cases (the model predicts the defective behaviour exactly),
// a case with an oracle verdict is registered a second time as a pure correspondence case.
func addCase(c *Ctx, cs *Case) {
	c.Add(*cs)
	if cs.Oracle != nil {
		twin := *cs
		twin.Oracle = nil
		twin.NonTrivial = false
		twin.Key = "k-twin:" + cs.Coq
		twin.Stream = cs.Stream + "-ktwin"
		twin.Tags = nil
		c.Add(twin)
	}
}

func main() {
	Main("C02", "C02K", func(c *Ctx) error {
		c.ShardSize = 60
		if c.Replay != nil {
			var rp Replay
			if err := FromJSON(c.Replay, &rp); err != nil {
				return err
			}
			cs, err := mkCase(rp)
			if err != nil {
				return err
			}
			addCase(c, cs)
			return c.Finish(rule)
		}
		var jobs []Replay
		// deterministic corpus: the witnesses of the _refuted theorems, replayed on the implementation first
		jobs = append(jobs, corpus()...)
		jobs = append(jobs, Replay{Kind: "ci", Ci: ciGrowthCase()})
		ne2e := c.N(48)
		for i := 0; i < ne2e; i++ {
			jobs = append(jobs, Replay{Kind: "e2e", E2E: genE2E(c.Rng.Fork(), i)})
		}
		for i := 0; i < c.N(90); i++ {
			jobs = append(jobs, Replay{Kind: "tree", Tree: genTree(c.Rng.Fork(), i)})
		}
		for i := 0; i < c.N(60); i++ {
			jobs = append(jobs, Replay{Kind: "ci", Ci: genCi(c.Rng.Fork(), i)})
		}
		for i := 0; i < c.N(80); i++ {
			jobs = append(jobs, Replay{Kind: "iw", Iw: genIw(c.Rng.Fork())})
		}
		for i := 0; i < c.N(80); i++ {
			r := c.Rng
			pick := func() uint32 {
				return uint32(r.PickInt(0, 0, 1, 2, 5, 249, 250, 251, 4294967295, 4294967294, r.Range(0, 20)))
			}
			jobs = append(jobs, Replay{Kind: "adv", Adv: []uint32{pick(), pick(), pick(), pick()}})
		}
		res := make([]*Case, len(jobs))
		errs := make([]error, len(jobs))
		Parallel(len(jobs), 8, func(i int) {
			res[i], errs[i] = mkCase(jobs[i])
		})
		for i := range jobs {
			if errs[i] != nil {
				return fmt.Errorf("case %d (%s): %v", i, jobs[i].Kind, errs[i])
			}
			addCase(c, res[i])
		}
		return c.Finish(rule)
	})
}
