package main

import (
	"context"
	"fmt"
	"io"
	"sort"

	"github.com/logrange/logrange/pkg/model"
	"github.com/logrange/logrange/pkg/model/tag"
	"github.com/logrange/logrange/pkg/partition"
	"github.com/logrange/logrange/pkg/tmindex"
	"github.com/logrange/range/pkg/records"
	. "verifharness/common"
)

// ---------------------------------------------------------------- tree stream

type TreeCase struct {
	Kind string     `json:"kind"`
	Adds [][4]int64 `json:"adds"` // p0.ts p0.idx p1.ts p1.idx
	Qs   []int64    `json:"qs"`
}

func genTree(r *Rng, i int) *TreeCase {
	tc := &TreeCase{}
	kind := "small"
	n := r.Range(1, 40)
	switch {
	case i%40 == 7:
		kind, n = "deep", r.PickInt(1685, 1700, 1760)
	case i%10 == 3:
		kind, n = "deep", r.PickInt(40, 41, 42, 43, 81, 82, 100, 300, 500)
	case i%10 == 5 || i%10 == 8:
		// a tree of 2-3 levels, then out-of-order intervals that collapse parts of it (only the tree model applies)
		kind, n = "deepmerge", r.PickInt(45, 60, 83, 130, 400, 900)
		if i%40 == 5 {
			n = r.PickInt(1690, 1750)
		}
	}
	tc.Kind = kind
	ts := int64(r.Range(-20, 1000))
	if r.Chance(1, 10) {
		ts = r.I64() / 2
	}
	idx := int64(0)
	var seen []int64
	for k := 0; k < n; k++ {
		step := int64(0)
		if !r.Chance(1, 3) {
			step = int64(r.Range(1, 9))
		}
		p0ts, p1ts := ts, ts+step
		p0idx, p1idx := idx, idx+int64(r.PickInt(1, 10, 249, 250, 251))
		if k > 0 {
			p0idx = idx + 1
			p1idx = p0idx + int64(r.PickInt(0, 9, 249, 250))
		}
		if kind == "small" || (kind == "deepmerge" && k > n*2/3 && r.Chance(1, 4)) {
			x := r.Intn(100)
			if kind == "deepmerge" && x >= 16 {
				x = r.Intn(16)
			}
			switch {
			case x < 12 && len(seen) > 0: // out of order: start at an earlier timestamp
				p0ts = seen[r.Intn(len(seen))] + int64(r.Range(-1, 1))
				p1ts = p0ts + int64(r.Range(0, 30))
			case x < 16 && len(seen) > 0: // before everything
				p0ts = seen[0] - int64(r.Range(0, 5))
				p1ts = p0ts + int64(r.Range(0, 40))
			case x < 19: // malformed: p0.ts > p1.ts
				p0ts, p1ts = p1ts+int64(r.Range(1, 5)), p0ts
			case x < 22: // malformed: index going backwards
				p1idx = p0idx - int64(r.Range(0, 3))
				if p1idx < 0 {
					p1idx = 0
				}
			}
		}
		tc.Adds = append(tc.Adds, [4]int64{p0ts, p0idx, p1ts, p1idx})
		seen = append(seen, p0ts, p1ts)
		if p1ts > ts {
			ts = p1ts
		}
		if p1idx > idx {
			idx = p1idx
		}
	}
	sort.Slice(seen, func(a, b int) bool { return seen[a] < seen[b] })
	qs := map[int64]bool{}
	nq := 24
	for k := 0; k < nq && len(seen) > 0; k++ {
		v := seen[r.Intn(len(seen))]
		qs[v+int64(r.Range(-1, 1))] = true
	}
	if len(seen) > 0 {
		qs[seen[0]-3] = true
		qs[seen[len(seen)-1]+3] = true
		qs[seen[0]] = true
		qs[seen[len(seen)-1]] = true
	}
	for q := range qs {
		tc.Qs = append(tc.Qs, q)
	}
	sort.Slice(tc.Qs, func(a, b int) bool { return tc.Qs[a] < tc.Qs[b] })
	return tc
}

func gRec(ts int64, idx int64) string { return fmt.Sprintf("(mkrec %s %s)", GZ(ts), GZ(idx)) }

func gAns(r tmindex.VC02Rec, code int) string {
	switch code {
	case tmindex.VC02AnsRecord:
		return GApp("ARec", gRec(r.Ts, int64(r.Idx)))
	case tmindex.VC02AnsAllMatches:
		return "AAll"
	}
	return "AErr"
}

func runTree(rp Replay) (*Case, error) {
	tc := rp.Tree
	if tc.Kind == "deepmerge" {
		return runTreeSteps(rp)
	}
	t, err := tmindex.VC02NewTree(2)
	if err != nil {
		return nil, err
	}
	defer t.Close()
	var adds []string
	for _, a := range tc.Adds {
		if a[1] < 0 || a[3] < 0 || a[1] > 4294967295 || a[3] > 4294967295 {
			return nil, fmt.Errorf("tree: idx out of uint32 range")
		}
		if err := t.Add(tmindex.VC02Rec{Ts: a[0], Idx: uint32(a[1])}, tmindex.VC02Rec{Ts: a[2], Idx: uint32(a[3])}); err != nil {
			return nil, fmt.Errorf("tree add: %v", err)
		}
		adds = append(adds, GPair(gRec(a[0], a[1]), gRec(a[2], a[3])))
	}
	trav, err := t.Traversal()
	if err != nil {
		return nil, err
	}
	var viol *Violation
	var travS []string
	for i, iv := range trav {
		travS = append(travS, GPair(gRec(iv[0].Ts, int64(iv[0].Idx)), gRec(iv[1].Ts, int64(iv[1].Idx))))
		if i > 0 && trav[i-1][1] != iv[0] && viol == nil {
			viol = &Violation{Class: "tree-intervals-not-contiguous", Detail: fmt.Sprintf("interval %d starts at %v, previous ends at %v", i, iv[0], trav[i-1][1])}
		}
	}
	if cnt, err := t.Count(); (err != nil || cnt != len(trav)) && viol == nil {
		viol = &Violation{Class: "tree-count", Detail: fmt.Sprintf("count=%d err=%v traversal=%d", cnt, err, len(trav))}
	}
	// the records of the tree as its own traversal shows them; when they are ordered by timestamp (always for the
	// append-only deep trees) the answers have a specification that does not need the model: grEq(q) is the LAST record
	// with ts <= q ("all" when there is none), less(q) the FIRST record with ts > q ("all" when there is none)
	var recs []tmindex.VC02Rec
	ordered := len(trav) > 0 && tc.Kind == "deep"
	for i, iv := range trav {
		if i == 0 {
			recs = append(recs, iv[0])
		}
		recs = append(recs, iv[1])
	}
	for i := 1; i < len(recs); i++ {
		if recs[i-1].Ts > recs[i].Ts {
			ordered = false
		}
	}
	var ge, lt []string
	for _, q := range tc.Qs {
		r, c := t.GrEq(q)
		ge = append(ge, gAns(r, c))
		r2, c2 := t.Less(q)
		lt = append(lt, gAns(r2, c2))
		if ordered && viol == nil {
			n := sort.Search(len(recs), func(i int) bool { return recs[i].Ts > q }) // number of records with ts <= q
			wantGe, wantLt := "AAll", "AAll"
			if n > 0 {
				wantGe = gAns(recs[n-1], tmindex.VC02AnsRecord)
			}
			if n < len(recs) {
				wantLt = gAns(recs[n], tmindex.VC02AnsRecord)
			}
			if gAns(r, c) != wantGe {
				viol = &Violation{Class: "tree-greq-answer", Detail: fmt.Sprintf("a tree of %d in-order intervals (level %d): grEq(%d) = %s, the last record with ts <= %d is %s", len(trav), t.Level(), q, gAns(r, c), q, wantGe)}
			} else if gAns(r2, c2) != wantLt {
				viol = &Violation{Class: "tree-less-answer", Detail: fmt.Sprintf("a tree of %d in-order intervals (level %d): less(%d) = %s, the first record with ts > %d is %s", len(trav), t.Level(), q, gAns(r2, c2), q, wantLt)}
			}
		}
	}
	lvl := t.Level()
	merged := len(trav) < len(tc.Adds)
	return &Case{
		Coq:        GApp(map[bool]string{true: "KTreeML", false: "KTree"}[tc.Kind == "deepmerge"], GList(adds), GListZ(tc.Qs), GList(travS), GList(ge), GList(lt)),
		Replay:     rp,
		NonTrivial: len(trav) >= 2 && (merged || lvl >= 1),
		Oracle:     viol,
		Stream:     "tree",
		Tags:       []string{"tree:" + tc.Kind, fmt.Sprintf("tree-level:%d", lvl), fmt.Sprintf("tree-merged:%v", merged)},
	}, nil
}

// ---------------------------------------------------------------- iwrapper stream

type sliceIt struct {
	evs []model.LogEvent
	i   int
}

func (s *sliceIt) Next(ctx context.Context) { s.i++ }
func (s *sliceIt) Get(ctx context.Context) (model.LogEvent, tag.Line, error) {
	if s.i >= len(s.evs) {
		return model.LogEvent{}, "", io.EOF
	}
	return s.evs[s.i], "", nil
}
func (s *sliceIt) Release()                        {}
func (s *sliceIt) SetBackward(bool)                {}
func (s *sliceIt) CurrentPos() records.IteratorPos { return s.i }

func genIw(r *Rng) []int64 {
	n := r.PickInt(1, 2, 3, 5, 8)
	pool := []int64{0, 0, 0, 1, -1, 5, 7, -5, -3, 100, -100}
	if r.Chance(1, 6) {
		pool = append(pool, 9223372036854775807, -9223372036854775808, r.I64())
	}
	tss := make([]int64, n)
	for i := range tss {
		tss[i] = pool[r.Intn(len(pool))]
	}
	if r.Chance(1, 2) {
		sort.Slice(tss, func(a, b int) bool { return tss[a] < tss[b] })
	}
	return tss
}

func runIw(rp Replay) (*Case, error) {
	it := &sliceIt{}
	distinct := map[int64]bool{}
	for _, ts := range rp.Iw {
		it.evs = append(it.evs, model.LogEvent{Timestamp: ts, Msg: []byte("m")})
		distinct[ts] = true
	}
	mn, mx, n := partition.VC02IWrapperHull(it)
	if n != len(rp.Iw) {
		return nil, fmt.Errorf("iwrapper saw %d of %d events", n, len(rp.Iw))
	}
	// oracle: the hull must be the true min/max of the batch
	tmn, tmx := rp.Iw[0], rp.Iw[0]
	sorted, zero := true, false
	for i, ts := range rp.Iw {
		if ts < tmn {
			tmn = ts
		}
		if ts > tmx {
			tmx = ts
		}
		if i > 0 && ts < rp.Iw[i-1] {
			sorted = false
		}
		if ts == 0 {
			zero = true
		}
	}
	var viol *Violation
	if mn != tmn || mx != tmx {
		cls := "iwrapper-hull"
		if zero {
			cls = "iwrapper-hull-ts-zero"
		}
		viol = &Violation{Class: cls, Detail: fmt.Sprintf("batch %v: iwrapper min/max = %d/%d, true %d/%d (sorted=%v)", rp.Iw, mn, mx, tmn, tmx, sorted)}
	}
	return &Case{
		Coq:        GApp("KIw", GListZ(rp.Iw), GZ(mn), GZ(mx)),
		Replay:     rp,
		NonTrivial: len(distinct) >= 2,
		Oracle:     viol,
		Stream:     "iw",
	}, nil
}

// ---------------------------------------------------------------- checkPosOrAdvance stream

func runAdv(rp Replay) (*Case, error) {
	a := rp.Adv
	if len(a) != 4 {
		return nil, fmt.Errorf("adv: need 4 numbers")
	}
	np, ok := partition.VC02CheckPosOrAdvance(a[0], a[1], a[2], a[3])
	// oracle: the answer is a position of the chunk inside the window and not before pos, or "none" exactly when there is none
	var viol *Violation
	want := a[3]
	if want < a[0] {
		want = a[0]
	}
	exists := want < a[2] && want <= a[1]
	if ok != exists || (ok && np != want) || (!ok && np != a[2]) {
		viol = &Violation{Class: "check-pos-or-advance", Detail: fmt.Sprintf("window [%d..%d] count %d pos %d: got (%d,%v), want (%d,%v)", a[0], a[1], a[2], a[3], np, ok, want, exists)}
	}
	return &Case{
		Coq:        GApp("KAdv", GZ(int64(a[0])), GZ(int64(a[1])), GZ(int64(a[2])), GZ(int64(a[3])), GZ(int64(np)), GBool(ok)),
		Replay:     rp,
		NonTrivial: a[0] <= a[1] && a[0] < a[2],
		Oracle:     viol,
		Stream:     "adv",
	}, nil
}

// runTreeSteps: a deep tree with collapsing adds is observed at checkpoints (after each of the first out-of-order
// adds and at the end), because later collapses can make different intermediate trees converge
func runTreeSteps(rp Replay) (*Case, error) {
	tc := rp.Tree
	t, err := tmindex.VC02NewTree(2)
	if err != nil {
		return nil, err
	}
	defer t.Close()
	var steps []string
	var pend []string
	mx := int64(-9223372036854775808)
	checkpoints := 0
	maxLvl := 0
	merged := false
	emit := func() error {
		trav, err := t.Traversal()
		if err != nil {
			return err
		}
		lo := len(trav) - 45
		if lo < 0 {
			lo = 0
		}
		var tail []string
		for _, iv := range trav[lo:] {
			tail = append(tail, GPair(gRec(iv[0].Ts, int64(iv[0].Idx)), gRec(iv[1].Ts, int64(iv[1].Idx))))
		}
		var ge, lt []string
		for _, q := range tc.Qs {
			r, c := t.GrEq(q)
			ge = append(ge, gAns(r, c))
			r, c = t.Less(q)
			lt = append(lt, gAns(r, c))
		}
		steps = append(steps, GTuple(GList(pend), GListZ(tc.Qs), GPair(GZ(int64(len(trav))), GList(tail)), GPair(GList(ge), GList(lt))))
		pend = nil
		return nil
	}
	for i, a := range tc.Adds {
		if a[1] < 0 || a[3] < 0 || a[1] > 4294967295 || a[3] > 4294967295 {
			return nil, fmt.Errorf("tree: idx out of uint32 range")
		}
		lvlBefore := t.Level()
		if i == 0 {
			lvlBefore = 0
		}
		if err := t.Add(tmindex.VC02Rec{Ts: a[0], Idx: uint32(a[1])}, tmindex.VC02Rec{Ts: a[2], Idx: uint32(a[3])}); err != nil {
			return nil, fmt.Errorf("tree add: %v", err)
		}
		pend = append(pend, GPair(gRec(a[0], a[1]), gRec(a[2], a[3])))
		if lvlBefore > maxLvl {
			maxLvl = lvlBefore
		}
		if a[0] < mx && lvlBefore >= 1 {
			merged = true
			if checkpoints < 5 {
				checkpoints++
				if err := emit(); err != nil {
					return nil, err
				}
			}
		}
		if a[0] > mx {
			mx = a[0]
		}
		if a[2] > mx {
			mx = a[2]
		}
	}
	if err := emit(); err != nil {
		return nil, err
	}
	return &Case{
		Coq:        GApp("KTreeSteps", GList(steps)),
		Replay:     rp,
		NonTrivial: merged,
		Stream:     "tree",
		Tags:       []string{"tree:" + tc.Kind, fmt.Sprintf("tree-maxlevel:%d", maxLvl), fmt.Sprintf("tree-merged-deep:%v", merged)},
	}, nil
}
