package main

import (
	"context"
	"fmt"
	"io"
	"sort"
	"strings"
	"sync"

	"github.com/logrange/logrange/pkg/model"
	"github.com/logrange/logrange/pkg/tmindex"
	"github.com/logrange/range/pkg/records"
	"github.com/logrange/range/pkg/records/chunk"
	rerrors "github.com/logrange/range/pkg/utils/errors"
	. "verifharness/common"
)

// ---------------------------------------------------------------- cindex stream

type CiOp struct {
	K string `json:"k"` // write | ge | lt | data | info | rebuild | rbwrite | sync
	// rbwrite: RebuildIndex of the chunk over Data is started; while its scan is under way (it holds the chunk's lock) the
	// write notification First..Last/Mn/Mx arrives; then the scan goes on
	Cid   int64     `json:"c,omitempty"`
	First int64     `json:"f,omitempty"`
	Last  int64     `json:"l,omitempty"`
	Mn    int64     `json:"mn,omitempty"`
	Mx    int64     `json:"mx,omitempty"`
	Ts    int64     `json:"ts,omitempty"`
	Data  []int64   `json:"d,omitempty"`   // rebuild: the chunk's (readable) timestamps
	Ann   []int64   `json:"ann,omitempty"` // rebuild: min and max of everything OnWrite has announced for the chunk so far
	Cks   []CiChunk `json:"cks,omitempty"` // sync
}
type CiChunk struct {
	Cid  int64   `json:"c"`
	Data []int64 `json:"d"`
}
type CiCase struct {
	Ops []CiOp `json:"ops"`
}

// gatedChunk is a memChunk whose first record is delivered to its reader only when the gate is opened: a rebuild
// scanning it stays inside the scan (holding the chunk info's lock) until then
type gatedChunk struct {
	*memChunk
	entered chan struct{}
	release chan struct{}
	once    sync.Once
}
type gatedIt struct {
	memIt
	g *gatedChunk
}

func newGatedChunk(id int64, tss []int64) *gatedChunk {
	return &gatedChunk{memChunk: newMemChunk(id, tss), entered: make(chan struct{}), release: make(chan struct{})}
}
func (g *gatedChunk) Iterator() (chunk.Iterator, error) {
	return &gatedIt{memIt{m: g.memChunk}, g}, nil
}
func (i *gatedIt) Get(ctx context.Context) (records.Record, error) {
	i.g.once.Do(func() { close(i.g.entered); <-i.g.release })
	return i.memIt.Get(ctx)
}

// memChunk is a chunk.Chunk over timestamps held in memory (marshalled LogEvents)
type memChunk struct {
	id   chunk.Id
	recs [][]byte
}

func newMemChunk(id int64, tss []int64) *memChunk {
	mc := &memChunk{id: chunk.Id(id)}
	for _, ts := range tss {
		le := model.LogEvent{Timestamp: ts, Msg: []byte("x")}
		buf := make([]byte, le.WritableSize())
		le.Marshal(buf)
		mc.recs = append(mc.recs, buf)
	}
	return mc
}
func (m *memChunk) Close() error { return nil }
func (m *memChunk) Id() chunk.Id { return m.id }
func (m *memChunk) Write(ctx context.Context, it records.Iterator) (int, uint32, error) {
	return 0, 0, fmt.Errorf("read only")
}
func (m *memChunk) Sync()                             {}
func (m *memChunk) Iterator() (chunk.Iterator, error) { return &memIt{m: m}, nil }
func (m *memChunk) Size() int64                       { return int64(len(m.recs)) * 16 }
func (m *memChunk) Count() uint32                     { return uint32(len(m.recs)) }
func (m *memChunk) AddListener(chunk.Listener)        {}

type memIt struct {
	m   *memChunk
	pos int64
}

func (i *memIt) Close() error             { return nil }
func (i *memIt) Next(ctx context.Context) { i.pos++ }
func (i *memIt) Get(ctx context.Context) (records.Record, error) {
	if i.pos < 0 || i.pos >= int64(len(i.m.recs)) {
		return nil, io.EOF
	}
	return i.m.recs[i.pos], nil
}
func (i *memIt) Release()                        {}
func (i *memIt) SetBackward(bool)                {}
func (i *memIt) CurrentPos() records.IteratorPos { return i.pos }
func (i *memIt) Pos() int64                      { return i.pos }
func (i *memIt) SetPos(p int64) error            { i.pos = p; return nil }

// tsProcess produces n timestamps of the given kind starting at *cur
func tsProcess(r *Rng, kind string, n int, cur *int64) []int64 {
	out := make([]int64, n)
	run := 0
	for i := range out {
		switch kind {
		case "mono", "zero", "extreme":
			if run > 0 {
				run--
			} else if r.Chance(1, 12) {
				run = r.PickInt(1, 3, 20, 249, 250, 251, 300, 600)
			} else if r.Chance(2, 3) {
				*cur += int64(r.Range(1, 4))
			}
			out[i] = *cur
		case "jitter":
			*cur += int64(r.Range(0, 3))
			out[i] = *cur + int64(r.Range(-40, 40))
		case "random":
			out[i] = int64(r.Range(-500, 500))
		}
	}
	return out
}

func min64(a, b int64) int64 {
	if a < b {
		return a
	}
	return b
}
func max64(a, b int64) int64 {
	if a > b {
		return a
	}
	return b
}

func minmax(v []int64) (int64, int64) {
	mn, mx := v[0], v[0]
	for _, x := range v {
		if x < mn {
			mn = x
		}
		if x > mx {
			mx = x
		}
	}
	return mn, mx
}

// spikyData: a growing stream (every record a new maximum) with events stamped ahead of or behind the stream,
// placed mostly at the borders of the 250-record segments the index rebuild scans (position base+i in the chunk):
// what a partition looks like when a few sources have a wrong clock. Non-monotone on purpose.
func spikyData(r *Rng, n int, cur *int64, base int) []int64 {
	out := make([]int64, n)
	for i := range out {
		*cur += int64(r.Range(1, 3))
		out[i] = *cur
		m := (base + i) % 250
		border := m == 249 || m == 248 || m == 0 || m == 1
		if (border && r.Chance(2, 5)) || r.Chance(1, 200) {
			d := int64(r.PickInt(1, 2, 5, 30, 200, 700, 1500))
			if r.Chance(3, 4) {
				out[i] = *cur + d // ahead of the stream
			} else {
				out[i] = *cur - d // late
			}
		}
	}
	return out
}

// blockData: segments of the rebuild that are growing, falling or flat, stepping up or down between segments
func blockData(r *Rng, n int, cur *int64, base int) []int64 {
	out := make([]int64, n)
	dir := int64(1)
	for i := range out {
		if (base+i)%250 == 0 || r.Chance(1, 400) {
			dir = int64(r.PickInt(1, 1, 1, -1, 0))
			*cur += int64(r.PickInt(-400, -30, -1, 0, 1, 30, 400))
		}
		*cur += dir * int64(r.Range(0, 2))
		out[i] = *cur
	}
	return out
}

// indexBounds is the meaning of a chunk's index that the range selector relies on, evaluated on the records the
// TsIndexer reports against the chunk's timestamps: records ordered by timestamp; for a record (T, p) every
// position before p has a timestamp <= T and every position after p a timestamp >= T. "" = holds.
func indexBounds(recs []tmindex.IdxRecord, data []int64) string {
	if len(recs) < 2 || len(data) == 0 {
		return ""
	}
	n := len(data)
	pmax := make([]int64, n+1) // pmax[i] = max data[0:i]
	smin := make([]int64, n+2) // smin[i] = min data[i:]
	pmax[0] = -9223372036854775808
	for i, v := range data {
		pmax[i+1] = pmax[i]
		if v > pmax[i+1] {
			pmax[i+1] = v
		}
	}
	smin[n], smin[n+1] = 9223372036854775807, 9223372036854775807
	for i := n - 1; i >= 0; i-- {
		smin[i] = smin[i+1]
		if data[i] < smin[i] {
			smin[i] = data[i]
		}
	}
	for k, rc := range recs {
		if k > 0 && recs[k-1].Ts > rc.Ts {
			return fmt.Sprintf("index records not ordered by timestamp: (%d,%d) before (%d,%d)", recs[k-1].Ts, recs[k-1].Val, rc.Ts, rc.Val)
		}
		p := int(rc.Val)
		if p > n {
			p = n
		}
		if pmax[p] > rc.Ts {
			return fmt.Sprintf("index record (%d,%d): a record before position %d has the greater timestamp %d", rc.Ts, rc.Val, rc.Val, pmax[p])
		}
		if p+1 <= n && smin[p+1] < rc.Ts {
			return fmt.Sprintf("index record (%d,%d): a record after position %d has the smaller timestamp %d", rc.Ts, rc.Val, rc.Val, smin[p+1])
		}
	}
	return ""
}

// ciGrowthCase: 3300 chunks get an index root each (one 512-byte block per root, 4097 blocks per storage segment), so
// the index file is more than 80% full and the next interval added to a tree makes the controller extend the storage
// (ckiCtrlr.extend: Grow to two segments under exclusive access, new Blocks over the grown file); every tree must be
// intact afterwards.
func ciGrowthCase() *CiCase {
	cc := &CiCase{}
	const n = 3300
	probe := func(c int64) {
		cc.Ops = append(cc.Ops, CiOp{K: "data", Cid: c}, CiOp{K: "info", Cid: c},
			CiOp{K: "ge", Cid: c, Ts: c*1000 + 5}, CiOp{K: "lt", Cid: c, Ts: c*1000 + 5}, CiOp{K: "ge", Cid: c, Ts: c*1000 + 700})
	}
	for c := int64(1); c <= n; c++ {
		cc.Ops = append(cc.Ops, CiOp{K: "write", Cid: c, First: 0, Last: 9, Mn: c * 1000, Mx: c*1000 + 9})
	}
	probe(1)
	probe(n / 2)
	probe(n)
	// the last chunk goes on: every write is far enough from the last index point to add an interval
	pos := int64(10)
	for k := int64(0); k < 3; k++ {
		cc.Ops = append(cc.Ops, CiOp{K: "write", Cid: n, First: pos, Last: pos + 299, Mn: n*1000 + 10 + 300*k, Mx: n*1000 + 309 + 300*k})
		pos += 300
	}
	probe(1)
	probe(2)
	probe(n / 2)
	probe(n - 1)
	probe(n)
	for c := int64(n + 1); c <= n+5; c++ {
		cc.Ops = append(cc.Ops, CiOp{K: "write", Cid: c, First: 0, Last: 299, Mn: c * 1000, Mx: c*1000 + 299})
		probe(c)
	}
	probe(n)
	return cc
}

// genCiRebuild: chunks the index learns by SyncChunks (hull from the first and last record, no index), rebuilt by
// scanning non-monotone data, then questioned; optionally written to afterwards
func genCiRebuild(r *Rng) *CiCase {
	cc := &CiCase{}
	cur := int64(r.Range(-300, 5000))
	if r.Chance(1, 3) {
		// restart-shaped: the index knows nothing (its files are gone), the chunk has n0 records, and the first thing that
		// happens is a write notification for records n0.. : reported corrupted; the rebuild scans the chunk while the
		// new records are not readable yet (still in the chunk writer's buffer), so it sees the first n0 records only
		n0 := r.PickInt(1, 10, 249, 250, 251, 600)
		old := tsProcess(r, "mono", n0, &cur)
		cur += int64(r.Range(0, 30))
		k := r.PickInt(1, 10, 50, 251)
		nw := tsProcess(r, "mono", k, &cur)
		mn, mx := minmax(nw)
		omn, omx := minmax(old)
		cc.Ops = append(cc.Ops, CiOp{K: "write", Cid: 1, First: int64(n0), Last: int64(n0 + k - 1), Mn: mn, Mx: mx},
			CiOp{K: "info", Cid: 1},
			CiOp{K: "rebuild", Cid: 1, Data: old, Ann: []int64{min64(mn, omn), max64(mx, omx)}},
			CiOp{K: "info", Cid: 1}, CiOp{K: "data", Cid: 1})
		full := append(append([]int64{}, old...), nw...)
		for j := 0; j < 6; j++ {
			t := full[r.Intn(len(full))] + int64(r.Range(-1, 1))
			cc.Ops = append(cc.Ops, CiOp{K: "ge", Cid: 1, Ts: t}, CiOp{K: "lt", Cid: 1, Ts: t})
		}
		cc.Ops = append(cc.Ops, CiOp{K: "ge", Cid: 1, Ts: mn}, CiOp{K: "lt", Cid: 1, Ts: mx}, CiOp{K: "ge", Cid: 1, Ts: mx}, CiOp{K: "lt", Cid: 1, Ts: omx})
		cc.Ops = append(cc.Ops, CiOp{K: "sync", Cks: []CiChunk{{Cid: 1, Data: full}}}, CiOp{K: "info", Cid: 1})
		pos := int64(len(full))
		for w := r.Range(0, 2); w > 0; w-- {
			n := r.PickInt(1, 10, 250, 251)
			tss := tsProcess(r, "mono", n, &cur)
			a, b := minmax(tss)
			cc.Ops = append(cc.Ops, CiOp{K: "write", Cid: 1, First: pos, Last: pos + int64(n) - 1, Mn: a, Mx: b},
				CiOp{K: "data", Cid: 1}, CiOp{K: "info", Cid: 1}, CiOp{K: "ge", Cid: 1, Ts: a}, CiOp{K: "lt", Cid: 1, Ts: b})
			pos += int64(n)
		}
		return cc
	}
	var cks []CiChunk
	nck := r.PickInt(1, 1, 2)
	for c := 1; c <= nck; c++ {
		n := r.PickInt(1, 10, 249, 250, 251, 499, 500, 501, 760, 1000, 1300)
		var d []int64
		switch r.PickStr("spiky", "spiky", "spiky", "block", "block", "jitter", "random", "mono") {
		case "spiky":
			d = spikyData(r, n, &cur, 0)
		case "block":
			d = blockData(r, n, &cur, 0)
		case "jitter":
			d = tsProcess(r, "jitter", n, &cur)
		case "random":
			d = tsProcess(r, "random", n, &cur)
		default:
			d = tsProcess(r, "mono", n, &cur)
		}
		cks = append(cks, CiChunk{Cid: int64(c), Data: d})
	}
	cc.Ops = append(cc.Ops, CiOp{K: "sync", Cks: cks})
	extra := int64(0)
	for ci, ck := range cks {
		pickTs := func() int64 {
			if r.Chance(1, 12) {
				return int64(r.Range(-600, 6000))
			}
			p := r.Intn(len(ck.Data))
			if r.Chance(1, 2) { // near a segment border of the rebuild
				p = (r.Intn(len(ck.Data)/250+1))*250 + r.Range(-3, 3)
				if p < 0 {
					p = 0
				}
				if p >= len(ck.Data) {
					p = len(ck.Data) - 1
				}
			}
			return ck.Data[p] + int64(r.Range(-1, 1))
		}
		if r.Chance(1, 3) {
			cc.Ops = append(cc.Ops, CiOp{K: "ge", Cid: ck.Cid, Ts: pickTs()}, CiOp{K: "data", Cid: ck.Cid})
		}
		if ci == len(cks)-1 && r.Chance(1, 2) {
			// a write notification for the chunk arrives while the rebuild scans it (and holds its lock): the TryLock of
			// onWrite fails, only the hull is extended
			n := r.PickInt(1, 10, 251)
			tss := spikyData(r, n, &cur, len(ck.Data))
			mn, mx := minmax(tss)
			cc.Ops = append(cc.Ops, CiOp{K: "rbwrite", Cid: ck.Cid, Data: append([]int64{}, ck.Data...),
				First: int64(len(ck.Data)), Last: int64(len(ck.Data) + n - 1), Mn: mn, Mx: mx})
			extra = int64(n)
		} else {
			cc.Ops = append(cc.Ops, CiOp{K: "rebuild", Cid: ck.Cid, Data: append([]int64{}, ck.Data...)})
		}
		cc.Ops = append(cc.Ops, CiOp{K: "data", Cid: ck.Cid}, CiOp{K: "info", Cid: ck.Cid})
		for j := 0; j < 8; j++ {
			cc.Ops = append(cc.Ops, CiOp{K: "ge", Cid: ck.Cid, Ts: pickTs()}, CiOp{K: "lt", Cid: ck.Cid, Ts: pickTs()})
		}
	}
	// the last chunk goes on being written after its rebuild
	last := cks[len(cks)-1]
	pos := int64(len(last.Data)) + extra
	for k := r.Range(0, 3); k > 0; k-- {
		n := r.PickInt(1, 10, 250, 251)
		tss := spikyData(r, n, &cur, int(pos))
		mn, mx := minmax(tss)
		cc.Ops = append(cc.Ops, CiOp{K: "write", Cid: last.Cid, First: pos, Last: pos + int64(n) - 1, Mn: mn, Mx: mx})
		pos += int64(n)
		cc.Ops = append(cc.Ops, CiOp{K: "data", Cid: last.Cid}, CiOp{K: "ge", Cid: last.Cid, Ts: mn}, CiOp{K: "lt", Cid: last.Cid, Ts: mx})
	}
	return cc
}

func genCi(r *Rng, i int) *CiCase {
	if i%3 == 2 {
		return genCiRebuild(r)
	}
	cc := &CiCase{}
	kind := r.PickStr("mono", "mono", "mono", "zero", "jitter", "random")
	cur := int64(r.Range(1, 2000))
	if kind == "zero" {
		cur = int64(r.Range(-400, 0))
	}
	data := map[int64][]int64{} // chunk -> timestamps
	var order []int64
	cid := int64(1)
	adds := map[int64]int{}
	nops := r.Range(8, 45)
	var allTs []int64
	pickTs := func() int64 {
		if len(allTs) == 0 || r.Chance(1, 10) {
			return int64(r.Range(-600, 3000))
		}
		return allTs[r.Intn(len(allTs))] + int64(r.Range(-1, 1))
	}
	for k := 0; k < nops; k++ {
		x := r.Intn(100)
		switch {
		case x < 45: // write
			if len(data[cid]) > 2500 || adds[cid] > 16 || (len(data[cid]) > 0 && r.Chance(1, 9)) {
				cid++
			}
			n := r.PickInt(1, 10, 100, 249, 250, 251, 600)
			tss := tsProcess(r, kind, n, &cur)
			mn, mx := minmax(tss)
			first := int64(len(data[cid]))
			if _, ok := data[cid]; !ok {
				order = append(order, cid)
			}
			op := CiOp{K: "write", Cid: cid, First: first, Last: first + int64(n) - 1, Mn: mn, Mx: mx}
			if r.Chance(1, 25) { // malformed: a notification that is not the next one for the chunk
				// forward (also around the "big gap" limit of 20 x 250 positions since the last index point) or backward
				// (the uint32 difference of the positions wraps)
				op.First += int64(r.PickInt(1, 300, 5500, 4750, 4999, 5000, 5001, -1, -10, -300))
				if op.First < 0 {
					op.First = 0
				}
				op.Last = op.First + int64(n) - 1
			}
			data[cid] = append(data[cid], tss...)
			if int64(len(data[cid])) <= op.Last { // keep the data consistent with the claimed positions
				pad := make([]int64, op.Last+1-int64(len(data[cid])))
				for j := range pad {
					pad[j] = cur
				}
				data[cid] = append(data[cid], pad...)
			}
			allTs = append(allTs, mn, mx)
			adds[cid]++
			cc.Ops = append(cc.Ops, op)
		case x < 62:
			cc.Ops = append(cc.Ops, CiOp{K: "ge", Cid: pickCid(r, order), Ts: pickTs()})
		case x < 79:
			cc.Ops = append(cc.Ops, CiOp{K: "lt", Cid: pickCid(r, order), Ts: pickTs()})
		case x < 86:
			cc.Ops = append(cc.Ops, CiOp{K: "data", Cid: pickCid(r, order)})
		case x < 90:
			cc.Ops = append(cc.Ops, CiOp{K: "info", Cid: pickCid(r, order)})
		case x < 95:
			c := pickCid(r, order)
			cc.Ops = append(cc.Ops, CiOp{K: "rebuild", Cid: c, Data: append([]int64{}, data[c]...)})
		default:
			var cks []CiChunk
			lo := 0
			if len(order) > 1 && r.Chance(1, 3) {
				lo = 1 // the oldest chunk was truncated
			}
			for _, c := range order[lo:] {
				cks = append(cks, CiChunk{Cid: c, Data: append([]int64{}, data[c]...)})
			}
			if r.Chance(1, 3) { // a chunk the index has never heard of
				cid++
				n := r.PickInt(0, 1, 5, 300)
				tss := tsProcess(r, kind, n, &cur)
				data[cid] = tss
				order = append(order, cid)
				cks = append(cks, CiChunk{Cid: cid, Data: append([]int64{}, tss...)})
			}
			order = order[lo:]
			cc.Ops = append(cc.Ops, CiOp{K: "sync", Cks: cks})
		}
	}
	// a final sweep of queries over every chunk
	for _, c := range order {
		cc.Ops = append(cc.Ops, CiOp{K: "data", Cid: c}, CiOp{K: "info", Cid: c})
		for j := 0; j < 6; j++ {
			cc.Ops = append(cc.Ops, CiOp{K: "ge", Cid: c, Ts: pickTs()}, CiOp{K: "lt", Cid: c, Ts: pickTs()})
		}
	}
	return cc
}

func pickCid(r *Rng, order []int64) int64 {
	if len(order) == 0 || r.Chance(1, 20) {
		return int64(r.Range(1, 9))
	}
	return order[r.Intn(len(order))]
}

func gRle(v []int64) string {
	var it []string
	for i := 0; i < len(v); {
		j := i
		for j < len(v) && v[j] == v[i] {
			j++
		}
		it = append(it, GPair(GZ(v[i]), GNat(j-i)))
		i = j
	}
	return GList(it)
}

func gPres(p uint32, err error) string {
	switch err {
	case nil:
		return GApp("PPos", GZ(int64(p)))
	case rerrors.NotFound:
		return "PNotFound"
	case tmindex.ErrOutOfRange:
		return "POutOfRange"
	case tmindex.ErrTmIndexCorrupted:
		return "PCorrupted"
	}
	return "PCorrupted (* " + strings.Replace(err.Error(), "*)", "", -1) + " *)"
}

func gRecs(d []tmindex.IdxRecord) string {
	it := make([]string, len(d))
	for i, x := range d {
		it[i] = gRec(x.Ts, int64(x.Val))
	}
	return GList(it)
}

func runCi(rp Replay) (*Case, error) {
	dir := TempDir("c02ci")
	defer RemoveAll(dir)
	ti, stop, err := tmindex.VC02NewTsIndexer(dir)
	if err != nil {
		return nil, err
	}
	defer stop()
	ctx := context.Background()
	const src = "p"
	var ops, obs []string
	nontriv := false
	hull := map[int64][2]int64{}
	var viol *Violation
	rebuilds := 0
	lockedWrites := 0
	for _, op := range rp.Ci.Ops {
		switch op.K {
		case "write":
			e := ti.OnWrite(src, uint32(op.First), uint32(op.Last), tmindex.RecordsInfo{Id: chunk.Id(op.Cid), MinTs: op.Mn, MaxTs: op.Mx})
			ops = append(ops, GApp("COnWrite", GZ(op.First), GZ(op.Last), GZ(op.Cid), GZ(op.Mn), GZ(op.Mx)))
			switch e {
			case nil:
				obs = append(obs, "(BWrite WOk)")
			case tmindex.ErrTmIndexCorrupted:
				obs = append(obs, "(BWrite WCorrupted)")
			default:
				return nil, fmt.Errorf("OnWrite: unexpected error %v", e)
			}
		case "ge":
			p, e := ti.GetPosForGreaterOrEqualTime(src, chunk.Id(op.Cid), op.Ts)
			ops = append(ops, GApp("CPosGE", GZ(op.Cid), GZ(op.Ts)))
			obs = append(obs, GApp("BPos", gPres(p, e)))
			if h, ok := hull[op.Cid]; ok && e == nil && p > 0 && h[0] < op.Ts && op.Ts < h[1] {
				nontriv = true
			}
		case "lt":
			p, e := ti.GetPosForLessTime(src, chunk.Id(op.Cid), op.Ts)
			ops = append(ops, GApp("CPosLT", GZ(op.Cid), GZ(op.Ts)))
			obs = append(obs, GApp("BPos", gPres(p, e)))
		case "data":
			d, e := ti.ReadData(src, chunk.Id(op.Cid))
			ops = append(ops, GApp("CReadData", GZ(op.Cid)))
			if e != nil {
				obs = append(obs, "(BData None)")
			} else {
				obs = append(obs, GApp("BData", GSome(gRecs(d))))
			}
		case "info":
			ri, e := ti.GetRecordsInfo(src, chunk.Id(op.Cid))
			ops = append(ops, GApp("CInfo", GZ(op.Cid)))
			if e != nil {
				obs = append(obs, "(BInfo None)")
			} else {
				obs = append(obs, GApp("BInfo", GSome(GPair(GZ(ri.MinTs), GZ(ri.MaxTs)))))
				hull[op.Cid] = [2]int64{ri.MinTs, ri.MaxTs}
			}
		case "rebuild":
			_, e0 := ti.ReadData(src, chunk.Id(op.Cid))
			ti.RebuildIndex(ctx, src, newMemChunk(op.Cid, op.Data), false)
			ops = append(ops, GApp("CRebuild", GZ(op.Cid), gRle(op.Data)))
			obs = append(obs, "BUnit")
			// oracle: an index that was just built by scanning the chunk (there was none before) bounds the chunk's
			// timestamps, whatever their order, and the hull contains them
			if d1, e1 := ti.ReadData(src, chunk.Id(op.Cid)); e0 != nil && e1 == nil && len(op.Data) > 0 {
				rebuilds++
				if msg := indexBounds(d1, op.Data); msg != "" && viol == nil {
					viol = &Violation{Class: "rebuilt-index-bounds", Detail: fmt.Sprintf("chunk %d (%d records) rebuilt by scanning: %s", op.Cid, len(op.Data), msg)}
				}
				mn, mx := minmax(op.Data)
				if len(op.Ann) == 2 {
					// ... and everything OnWrite has announced for the chunk, readable yet or not
					mn, mx = min64(mn, op.Ann[0]), max64(mx, op.Ann[1])
				}
				if ri, e := ti.GetRecordsInfo(src, chunk.Id(op.Cid)); e == nil && (ri.MinTs > mn || ri.MaxTs < mx) && viol == nil {
					viol = &Violation{Class: "rebuilt-index-hull", Detail: fmt.Sprintf("chunk %d rebuilt by scanning: hull [%d,%d] does not contain the timestamps [%d,%d] scanned or announced by OnWrite", op.Cid, ri.MinTs, ri.MaxTs, mn, mx)}
				}
			}
		case "rbwrite":
			g := newGatedChunk(op.Cid, op.Data)
			done := make(chan struct{})
			go func() { ti.RebuildIndex(ctx, src, g, false); close(done) }()
			scanning := false
			select {
			case <-g.entered:
				scanning = true
			case <-done: // nothing to scan (the index is alive, the chunk unknown or empty)
			}
			e := ti.OnWrite(src, uint32(op.First), uint32(op.Last), tmindex.RecordsInfo{Id: chunk.Id(op.Cid), MinTs: op.Mn, MaxTs: op.Mx})
			var wobs string
			switch e {
			case nil:
				wobs = "(BWrite WOk)"
			case tmindex.ErrTmIndexCorrupted:
				wobs = "(BWrite WCorrupted)"
			default:
				return nil, fmt.Errorf("OnWrite: unexpected error %v", e)
			}
			if scanning {
				close(g.release)
				<-done
				ops = append(ops, GApp("COnWriteSkip", GZ(op.First), GZ(op.Last), GZ(op.Cid), GZ(op.Mn), GZ(op.Mx)), GApp("CRebuild", GZ(op.Cid), gRle(op.Data)))
				obs = append(obs, wobs, "BUnit")
				lockedWrites++
			} else {
				ops = append(ops, GApp("CRebuild", GZ(op.Cid), gRle(op.Data)), GApp("COnWrite", GZ(op.First), GZ(op.Last), GZ(op.Cid), GZ(op.Mn), GZ(op.Mx)))
				obs = append(obs, "BUnit", wobs)
			}
		case "sync":
			var cks chunk.Chunks
			var its []string
			sort.Slice(op.Cks, func(a, b int) bool { return op.Cks[a].Cid < op.Cks[b].Cid })
			for _, ck := range op.Cks {
				cks = append(cks, newMemChunk(ck.Cid, ck.Data))
				its = append(its, GPair(GZ(ck.Cid), gRle(ck.Data)))
			}
			ti.SyncChunks(ctx, src, cks)
			ops = append(ops, GApp("CSync", GList(its)))
			obs = append(obs, "BUnit")
		default:
			return nil, fmt.Errorf("ci: unknown op %q", op.K)
		}
	}
	return &Case{
		Coq:        GApp("KCi", GList(ops), GList(obs)),
		Replay:     rp,
		NonTrivial: nontriv,
		Oracle:     viol,
		Stream:     "ci",
		Tags:       []string{fmt.Sprintf("ci-scanned-rebuilds:%v", rebuilds > 0), fmt.Sprintf("ci-write-during-rebuild:%v", lockedWrites > 0)},
	}, nil
}
