// C06 harness: drives the real tindex service (GetOrCreateJournal / Visit), lql.ParseSource +
// BuildTagsExpFuncBySource, and an in-process server (writes, SHOW PARTITIONS, SELECT FROM) with generated
// spellings of tag sets and generated source conditions; records the observations as cases of kcheck/C06K.v and
// evaluates the property (identity = equality of the denoted maps; selection = reference meaning) as an oracle.
package main

import (
	"bytes"
	"context"
	"encoding/json"
	"fmt"
	"io/ioutil"
	"os"
	"path"
	"reflect"
	"regexp"
	"sort"
	"strconv"
	"strings"
	"sync"
	"time"
	"unicode/utf8"

	"github.com/logrange/logrange/api"
	"github.com/logrange/logrange/api/rpc"
	"github.com/logrange/logrange/pkg/lql"
	"github.com/logrange/logrange/pkg/model/tag"
	"github.com/logrange/logrange/pkg/tindex"
	"github.com/logrange/logrange/pkg/utils/kvstring"
	"github.com/logrange/range/pkg/records/journal"
	"github.com/logrange/range/pkg/transport"
	errors2 "github.com/logrange/range/pkg/utils/errors"
	. "verifharness/common"
)

type Replay struct {
	Kind    string   `json:"kind"` // hist | eval | e2e | race
	Texts   [][]byte `json:"texts,omitempty"`
	Faults  []bool   `json:"faults,omitempty"` // per text: the tindex working directory is taken away during the call (the index cannot be saved)
	Sources []string `json:"sources,omitempty"`
	Sets    [][]byte `json:"sets,omitempty"` // tag texts (proper spellings) of the sets an expression is applied to
	Show    []string `json:"show,omitempty"`
	Restart bool     `json:"restart,omitempty"` // hist: after the history the index is read back from its file by a new service
	Ops     []Op     `json:"ops,omitempty"`     // ops: GetOrCreateJournal / GetJournal / Delete in this order
	AST     int      `json:"ast,omitempty"`     // eval: 1-based index into astCorpus() (sources the parser cannot produce)
	Writers int      `json:"writers,omitempty"` // wrace: goroutines per set
}

// Op is one operation of an ops history
type Op struct {
	K     string `json:"k"`           // call | get | del
	T     []byte `json:"t,omitempty"` // call, get: the tag text
	Fault bool   `json:"f,omitempty"` // call: the index cannot be saved during the call
	I     int    `json:"i,omitempty"` // del: the partition answered by the operation with this index
}

const rule = "histories of GetOrCreateJournal over spellings (order, blanks, braces, quoted/raw values, the printed line of an earlier answer, malformed texts) of 2-4 tag sets whose values come from an alphabet rich in quote, back-quote, comma, equals, braces, blank and non-ASCII bytes, followed by Visit with {tags} (also pairs with the empty value for names a partition lacks) and expression sources and, for a third of them, a restart (a new service loads the index file: tags and answers must be as before); neighbour histories: the partition of a set with a value the quoting rule of line() is about (blank at an end, quote characters, closing brace) is created before the raw text of that set, a spelling of a neighbouring set, is written; expression sources from a grammar over all ten operators in both cases, UPPER/LOWER nesting, NOT, AND, OR, parentheses, valid and malformed LIKE patterns, applied to 4 tag sets; in-process server histories with SHOW PARTITIONS, SELECT FROM and DESCRIBE PARTITION; histories of GetOrCreateJournal / GetJournal / Delete with a restart; sources built as ASTs the parser cannot produce; queries over 49/50/51 partitions; races of 2-8 first writes at the index and of 3-6 writers per set through the RPC write path with a concurrent reader; a case is non-trivial iff a history has >= 2 distinct partitions and >= 1 text that is not the canonical line of its set, an expression has >= 2 conditions or a function, a race has >= 2 spellings"

var special = []byte{'"', '\\', ',', '=', '{', '}', '`', ' ', 0xc3, 0xa9, 0xff, '\n'}
var letters = []byte("abcxyz01AZ._-")

func genStr(r *Rng, maxLen int, pSpecial int) []byte {
	n := r.Intn(maxLen + 1)
	b := make([]byte, n)
	for i := range b {
		if r.Intn(100) < pSpecial {
			b[i] = special[r.Intn(len(special))]
		} else {
			b[i] = letters[r.Intn(len(letters))]
		}
	}
	return b
}

var namePool = []string{"name", "ip", "zone", "a", "B", "k.x", "n-1", "A", "Name"} // names that differ only in case are different names

type kv struct{ k, v string }

func genSet(r *Rng, pSpecial int) []kv {
	n := r.Range(1, 3)
	var ps []kv
	seen := map[string]bool{}
	for i := 0; i < n; i++ {
		k := namePool[r.Intn(len(namePool))]
		if seen[k] {
			continue
		}
		seen[k] = true
		v := string(genStr(r, 5, pSpecial))
		if pSpecial > 0 && r.Chance(1, 6) {
			v = edgy(r)
		}
		ps = append(ps, kv{k, v})
	}
	return ps
}

// edgy: a value the quoting rule of tagMap.line() is about: printed raw it would be a spelling of another set
// (blanks at an end are trimmed, a quoted literal is unquoted, a closing brace at the end of the line closes it)
func edgy(r *Rng) string {
	w := r.PickStr("app", "x", "a1", "eu", "0")
	switch r.Intn(10) {
	case 0:
		return " " + w
	case 1:
		return w + " "
	case 2:
		return " " + w + "  "
	case 3:
		return "\"" + w + "\""
	case 4:
		return "`" + w + "`"
	case 5:
		return w + "}"
	case 6:
		return "\"\""
	case 7:
		return w + " }"
	case 8:
		return "new\n" + w // a line feed: written as a quoted literal (a line is one line)
	}
	return " "
}

// rawText: the pairs sorted by name and written without any quoting: what a line() that does not quote would print
func rawText(ps []kv) string {
	m := toMap(ps)
	var sb strings.Builder
	for i, k := range sortedKeys(m) {
		if i > 0 {
			sb.WriteByte(',')
		}
		sb.WriteString(k + "=" + m[k])
	}
	return sb.String()
}

// genNeighbours: a history that first creates the partition of a set with an edgy value (spelled with quoted
// literals), then writes the raw text of that set (a spelling of a NEIGHBOURING set, or no tag text at all), then
// proper spellings of the neighbour and of the first set again; sometimes the neighbour comes first
func genNeighbours(r *Rng) Replay {
	k := namePool[r.Intn(len(namePool))]
	ps := []kv{{k, edgy(r)}}
	if r.Chance(1, 2) {
		k2 := namePool[r.Intn(len(namePool))]
		if k2 != k {
			ps = append(ps, kv{k2, r.PickStr("eu", "1", "b c", "x,y")})
		}
	}
	raw := rawText(ps)
	var nb []kv // what the raw text denotes, if anything
	var m map[string]string
	err := fmt.Errorf("not parsed")
	quiet(func() { m, err = rToMap(raw) })
	if err == nil {
		for _, kk := range sortedKeys(m) {
			nb = append(nb, kv{kk, m[kk]})
		}
	}
	var texts [][]byte
	add := func(t string) { texts = append(texts, []byte(t)) }
	if len(nb) > 0 && r.Chance(1, 4) {
		add(spell(r, nb, true))
	}
	add(setText(ps))
	if r.Chance(1, 3) {
		add(spell(r, ps, true))
	}
	add(raw)
	if len(nb) > 0 {
		add(rawText(nb))
		add(spell(r, nb, true))
	}
	add(spell(r, ps, true))
	if r.Chance(1, 2) {
		add(raw + blanks(r))
	}
	srcs := []string{"", "{" + setText(ps) + "}"}
	if len(nb) > 0 {
		srcs = append(srcs, "{"+setText(nb)+"}")
	}
	sets := [][]kv{ps}
	if len(nb) > 0 {
		sets = append(sets, nb)
	}
	srcs = append(srcs, genSource(r, sets))
	return Replay{Kind: "hist", Texts: texts, Sources: srcs, Restart: r.Chance(2, 3)}
}

func blanks(r *Rng) string {
	if r.Chance(1, 4) {
		return "  "[:r.Range(1, 2)]
	}
	return ""
}

func plain(v string) bool {
	if v == "" {
		return false
	}
	for i := 0; i < len(v); i++ {
		if bytes.IndexByte(letters, v[i]) < 0 {
			return false
		}
	}
	return true
}

// spell: a spelling of the set; proper = every value is given as strconv.Quote(v) or, if it is made of plain letters, raw
func spell(r *Rng, ps []kv, proper bool) string {
	perm := r.Perm(len(ps))
	var sb strings.Builder
	for i, j := range perm {
		p := ps[j]
		if i > 0 {
			sb.WriteByte(',')
		}
		sb.WriteString(blanks(r) + p.k + blanks(r) + "=" + blanks(r))
		switch {
		case plain(p.v) && r.Chance(1, 2):
			sb.WriteString(p.v)
		case proper || r.Chance(2, 3):
			sb.WriteString(strconv.Quote(p.v))
		default:
			sb.WriteString(p.v)
			if r.Chance(1, 4) {
				sb.WriteByte('\\') // an unquoted value ending in a backslash, before a separator or at the end of the text
			}
		}
		if !proper || !r.Chance(1, 2) {
			sb.WriteString(blanks(r))
		}
	}
	s := sb.String()
	if r.Chance(1, 3) {
		s = blanks(r) + "{" + blanks(r) + s + blanks(r) + "}" + blanks(r)
	}
	return s
}

func setText(ps []kv) string {
	var sb strings.Builder
	for i, p := range ps {
		if i > 0 {
			sb.WriteByte(',')
		}
		sb.WriteString(p.k + "=" + strconv.Quote(p.v))
	}
	return sb.String()
}

// ---------- calls into /repo: a panic becomes an observation ----------

// callPanic is what a wrapped call into the implementation re-panics with; mkCaseSafe turns it into a case
type callPanic struct {
	fn, in, val string
}

func guard(fn, in string) {
	if r := recover(); r != nil {
		if cp, ok := r.(callPanic); ok {
			panic(cp)
		}
		panic(callPanic{fn: fn, in: in, val: fmt.Sprint(r)})
	}
}

func rToMap(s string) (m map[string]string, err error) {
	defer guard("kvstring.ToMap", s)
	return kvstring.ToMap(s)
}
func rCurly(s string) (r string, err error) {
	defer guard("kvstring.RemoveCurlyBraces", s)
	return kvstring.RemoveCurlyBraces(s)
}
func rSplit(s string) (r []string, err error) {
	defer guard("kvstring.SplitString", s)
	return kvstring.SplitString(s, '=', ',', nil)
}
func rTrim(s string) string {
	defer guard("kvstring.TrimSpaces", s)
	return kvstring.TrimSpaces(s)
}
func rGoc(svc tindex.Service, s string) (src string, set tag.Set, err error) {
	defer guard("tindex.GetOrCreateJournal", s)
	return svc.GetOrCreateJournal(s)
}
func rParseSource(q string) (src *lql.Source, err error) {
	defer guard("lql.ParseSource", q)
	return lql.ParseSource(q)
}
func rBuild(q string, src *lql.Source) (tef lql.TagsExpFunc, err error) {
	defer guard("lql.BuildTagsExpFuncBySource", q)
	return lql.BuildTagsExpFuncBySource(src)
}

// quiet runs f and swallows a panic (generator-side uses only: the case that follows reports it)
func quiet(f func()) {
	defer func() { recover() }()
	f()
}

// ---------- Gallina rendering ----------

func sortedKeys(m map[string]string) []string {
	ks := make([]string, 0, len(m))
	for k := range m {
		ks = append(ks, k)
	}
	sort.Strings(ks)
	return ks
}

func gMap(m map[string]string) string {
	var it []string
	for _, k := range sortedKeys(m) {
		it = append(it, GPair(GStr(k), GStr(m[k])))
	}
	return GList(it)
}

func mapKey(m map[string]string) string {
	var sb strings.Builder
	for _, k := range sortedKeys(m) {
		fmt.Fprintf(&sb, "%d:%s=%d:%s;", len(k), k, len(m[k]), m[k])
	}
	return sb.String()
}

func show(s string) string { return strconv.QuoteToASCII(s) }

// oracle tables
type tables struct {
	unq   map[string]bool
	unqIt []string
	q     map[string]bool
	qIt   []string
	strs  map[string]bool // strings ToUpper/ToLower may be applied to
	pats  map[string]bool
}

func newTables() *tables {
	return &tables{unq: map[string]bool{}, q: map[string]bool{}, strs: map[string]bool{"": true}, pats: map[string]bool{}}
}

// addText records the Unquote answers for the pieces of a tag text and the Quote answers for the values of its map
func (t *tables) addText(s string) {
	fine, err := rCurly(s)
	if err == nil && len(fine) > 0 {
		if res, err := rSplit(fine); err == nil {
			for _, p := range res {
				v := rTrim(p)
				if len(v) > 0 && (v[0] == '"' || v[0] == '`') && !t.unq[v] {
					t.unq[v] = true
					u, e := strconv.Unquote(v)
					o := GNone
					if e == nil {
						o = GSome(GStr(u))
					}
					t.unqIt = append(t.unqIt, GPair(GStr(v), o))
				}
			}
		}
	}
	if m, err := rToMap(s); err == nil {
		t.addMap(m)
	}
}

func (t *tables) addMap(m map[string]string) {
	for _, v := range m {
		t.strs[v] = true
		if !t.q[v] {
			t.q[v] = true
			t.qIt = append(t.qIt, GPair(GStr(v), GStr(strconv.Quote(v))))
		}
	}
}

func (t *tables) render() string {
	// close the string set under ToUpper/ToLower (three rounds: function nesting depth of the generator is 2)
	for round := 0; round < 3; round++ {
		var add []string
		for s := range t.strs {
			add = append(add, strings.ToUpper(s), strings.ToLower(s))
		}
		for _, s := range add {
			t.strs[s] = true
		}
	}
	var ss []string
	for s := range t.strs {
		ss = append(ss, s)
	}
	sort.Strings(ss)
	var up, lo []string
	for _, s := range ss {
		up = append(up, GPair(GStr(s), GStr(strings.ToUpper(s))))
		lo = append(lo, GPair(GStr(s), GStr(strings.ToLower(s))))
	}
	var pats []string
	for p := range t.pats {
		pats = append(pats, p)
	}
	sort.Strings(pats)
	var pm []string
	for _, p := range pats {
		var row []string
		for _, s := range append([]string{"abc"}, ss...) {
			ok, err := path.Match(p, s)
			o := GNone
			if err == nil {
				o = GSome(GBool(ok))
			}
			row = append(row, GPair(GStr(s), o))
		}
		pm = append(pm, GPair(GStr(p), GList(row)))
	}
	sort.Strings(t.unqIt)
	sort.Strings(t.qIt)
	return fmt.Sprintf("{| o_unq := %s; o_q := %s; o_up := %s; o_lo := %s; o_pm := %s |}", GList(t.unqIt), GList(t.qIt), GList(up), GList(lo), GList(pm))
}

// ---------- AST -> Gallina, and the reference evaluator (oracle) ----------

func gIdent(id *lql.Identifier, t *tables) string {
	t.strs[id.Operand] = true
	var ps []string
	for _, p := range id.Params {
		ps = append(ps, gIdent(p, t))
	}
	return GApp("Ident", GStr(id.Operand), GList(ps))
}

func gExpr(e *lql.Expression, t *tables) string {
	var ors []string
	for _, oc := range e.Or {
		var ands []string
		for _, xc := range oc.And {
			body := ""
			if xc.Expr != nil {
				body = GApp("BExpr", gExpr(xc.Expr, t))
			} else {
				t.strs[xc.Cond.Op] = true
				if strings.ToUpper(xc.Cond.Op) == "LIKE" {
					t.pats[xc.Cond.Value] = true
				}
				body = GApp("BCond", fmt.Sprintf("{| c_ident := %s; c_op := %s; c_value := %s |}", gIdent(xc.Cond.Ident, t), GStr(xc.Cond.Op), GStr(xc.Cond.Value)))
			}
			ands = append(ands, GApp("XC", GBool(xc.Not), body))
		}
		ors = append(ors, GList(ands))
	}
	return GList(ors)
}

func gSource(src *lql.Source, t *tables) string {
	switch {
	case src == nil:
		return "(SExpr None)"
	case src.Tags != nil:
		m := tag.VC08TagMap(src.Tags.Tags)
		return GApp("STags", gMap(m))
	case src.Expr == nil:
		return "(SExpr None)"
	default:
		return GApp("SExpr", GSome(gExpr(src.Expr, t)))
	}
}

type refErr struct{ bad bool } // bad: the source must be rejected

func refIdent(id *lql.Identifier, m map[string]string, re *refErr) string {
	if len(id.Params) == 0 {
		return m[id.Operand]
	}
	if len(id.Params) != 1 {
		re.bad = true
		return ""
	}
	in := refIdent(id.Params[0], m, re)
	switch strings.ToUpper(id.Operand) {
	case "UPPER":
		return strings.ToUpper(in)
	case "LOWER":
		return strings.ToLower(in)
	}
	re.bad = true
	return ""
}

func refCond(c *lql.Condition, m map[string]string, re *refErr) bool {
	x := refIdent(c.Ident, m, re)
	v := c.Value
	switch strings.ToUpper(c.Op) {
	case "<":
		return x < v
	case ">":
		return x > v
	case "<=":
		return x <= v
	case ">=":
		return x >= v
	case "!=":
		return x != v
	case "=":
		return x == v
	case "LIKE":
		ok, err := path.Match(v, x)
		if _, e2 := path.Match(v, "abc"); e2 != nil || err != nil {
			re.bad = true
		}
		return ok
	case "CONTAINS":
		return strings.Contains(x, v)
	case "PREFIX":
		return strings.HasPrefix(x, v)
	case "SUFFIX":
		return strings.HasSuffix(x, v)
	}
	re.bad = true
	return false
}

func refExpr(e *lql.Expression, m map[string]string, re *refErr) bool {
	if e == nil || len(e.Or) == 0 {
		return true
	}
	res := false
	for _, oc := range e.Or {
		all := true
		for _, xc := range oc.And {
			var b bool
			if xc.Expr != nil {
				b = refExpr(xc.Expr, m, re)
			} else {
				b = refCond(xc.Cond, m, re)
			}
			if xc.Not {
				b = !b
			}
			all = all && b
		}
		res = res || all
	}
	return res
}

func refSource(src *lql.Source, m map[string]string, re *refErr) bool {
	switch {
	case src == nil:
		return true
	case src.Tags != nil:
		// the reference meaning of {tags}: every given pair is a pair of the partition's set (the name must be there:
		// a missing tag is not a tag with the empty value). Written out here, not kvstring.MapSubset: the oracle must
		// not share the code under test
		for k, v := range tag.VC08TagMap(src.Tags.Tags) {
			pv, ok := m[k]
			if !ok || pv != v {
				return false
			}
		}
		return true
	}
	return refExpr(src.Expr, m, re)
}

func countConds(e *lql.Expression) (n int, fn bool) {
	if e == nil {
		return
	}
	for _, oc := range e.Or {
		for _, xc := range oc.And {
			if xc.Expr != nil {
				k, f := countConds(xc.Expr)
				n += k
				fn = fn || f
			} else {
				n++
				if len(xc.Cond.Ident.Params) > 0 {
					fn = true
				}
			}
		}
	}
	return
}

// ---------- generators of source conditions ----------

var ops = []string{"=", "!=", "<", ">", "<=", ">=", "LIKE", "like", "Like", "CONTAINS", "contains", "PREFIX", "prefix", "SUFFIX", "suffix"}
var likePats = []string{"a*", "*", "?b*", "[a-c]*", "*x", "a?c", "\"[\"", "\"a[\"", "\"[]a\"", "\"[a-\"", "\"\\\\\"", "\"*[\"", "'['",
	// path.Match: `*` and `?` do not cross a '/', a backslash escapes, a class can hold a '/'
	"\"/var/log/*\"", "\"/var/*/x\"", "\"*/access.log\"", "\"a/*\"", "\"/var/log/*/*\"", "\"a/?/c\"", "\"a\\\\*\"", "\"a[/]b*\"", "\"*/*\"", "\"/*\""}
var valPool = []string{"a", "abc", "b", "ab", "x", "A", "\"\"", "\"a b\"", "1", "10", "\"A\"", "bc", "'a'", "9", "2", "aB", "abd", "\"\\xff\""}

func genIdent(r *Rng, depth int) string {
	n := namePool[r.Intn(4)]
	if r.Chance(1, 8) {
		n = r.PickStr("A", "Name", "NAME", "B") // the case of a name matters
	}
	if depth < 2 && r.Chance(1, 4) {
		f := r.PickStr("upper", "UPPER", "lower", "Lower")
		if r.Chance(1, 20) {
			f = "trim" // unknown function: build error
		}
		return f + "(" + genIdent(r, depth+1) + ")"
	}
	return n
}

func genCond(r *Rng, vals []string) string {
	op := ops[r.Intn(len(ops))]
	v := ""
	switch {
	case strings.ToUpper(op) == "LIKE" && len(vals) > 0 && r.Chance(1, 3):
		// a proper prefix of a value of the sets and `*`: what a short cut for "prefix*" would get wrong when the
		// rest of the value holds a '/'
		x := vals[r.Intn(len(vals))]
		v = strconv.Quote(x[:r.Intn(len(x)+1)] + "*")
	case strings.ToUpper(op) == "LIKE":
		v = likePats[r.Intn(len(likePats))]
	case r.Chance(1, 2) && len(vals) > 0:
		v = strconv.Quote(vals[r.Intn(len(vals))])
	default:
		v = valPool[r.Intn(len(valPool))]
	}
	return genIdent(r, 0) + " " + op + " " + v
}

func genExpr(r *Rng, depth int, vals []string) string {
	n := r.Range(1, 3)
	var parts []string
	for i := 0; i < n; i++ {
		x := ""
		if depth < 2 && r.Chance(1, 4) {
			x = "(" + genExpr(r, depth+1, vals) + ")"
		} else {
			x = genCond(r, vals)
		}
		if r.Chance(1, 5) {
			x = "NOT " + x
		}
		parts = append(parts, x)
	}
	s := parts[0]
	for _, p := range parts[1:] {
		s += r.PickStr(" AND ", " OR ", " and ", " or ") + p
	}
	return s
}

func genSource(r *Rng, sets [][]kv) string {
	var vals []string
	for _, ps := range sets {
		for _, p := range ps {
			vals = append(vals, p.v)
		}
	}
	x := r.Intn(10)
	switch {
	case x < 3 && len(sets) > 0:
		// a {tags} source: a sub-set of one of the sets (sometimes with a changed value)
		ps := sets[r.Intn(len(sets))]
		var sub []kv
		for _, p := range ps {
			if r.Chance(2, 3) {
				if r.Chance(1, 6) {
					p.v = "zz"
				}
				sub = append(sub, p)
			}
		}
		if len(sub) == 0 {
			sub = ps[:1]
		}
		if r.Chance(1, 3) {
			// a pair with the empty value, for a name some partitions do not have at all (a missing tag is not the
			// empty tag) or have with another value
			k := namePool[r.Intn(len(namePool))]
			if r.Chance(1, 2) {
				sub = []kv{{k, ""}}
			} else {
				dup := false
				for _, p := range sub {
					dup = dup || p.k == k
				}
				if !dup {
					sub = append(sub, kv{k, ""})
				}
			}
		}
		return "{" + spell(r, sub, true) + "}"
	case x < 4:
		return ""
	}
	return genExpr(r, 0, vals)
}

// ---------- the cases ----------

type callRes struct {
	fault   bool // the index could not be saved during the call
	bySrc   bool // GetJournalTags(src) finds the partition with the same tags
	err     bool
	src     string
	retMap  map[string]string
	denoted map[string]string // the map the text denotes according to kvstring.ToMap (nil: rejected)
}

// identity oracle over the calls of one service
func identityOracle(texts []string, calls []callRes) *Violation {
	good := make([]bool, len(calls)) // answered with the partition of exactly the denoted set
	for i := range calls {
		if calls[i].err {
			if calls[i].denoted != nil && len(calls[i].denoted) > 0 {
				// a refusal is legitimate only when the index could not be saved for a set that has no partition yet
				exists := false
				for j := 0; j < i; j++ {
					if !calls[j].err && mapKey(calls[j].retMap) == mapKey(calls[i].denoted) {
						exists = true
					}
				}
				if !calls[i].fault {
					return &Violation{Class: "identity-accepted-text-refused", Detail: show(texts[i])}
				}
				if exists {
					return &Violation{Class: "fault-existing-set-refused", Detail: show(texts[i])}
				}
			}
			continue
		}
		if !calls[i].bySrc {
			return &Violation{Class: "identity-partition-missing-by-id", Detail: fmt.Sprintf("text %s is answered with a partition that GetJournalTags does not find (or finds with other tags)", show(texts[i]))}
		}
		if calls[i].denoted != nil && len(calls[i].denoted) == 0 {
			// "at least one tag value is expected to define the source": the empty set is no partition
			return &Violation{Class: "identity-empty-set-answered", Detail: fmt.Sprintf("text %s denotes the empty tag set and is answered with a partition", show(texts[i]))}
		}
		if calls[i].denoted != nil && mapKey(calls[i].retMap) == mapKey(calls[i].denoted) {
			good[i] = true
			continue
		}
		den := "nothing (the text is rejected by the parser)"
		if calls[i].denoted != nil {
			den = show(mapKey(calls[i].denoted))
		}
		cls := "identity-unclassified"
		switch {
		case lineOf(calls[i].retMap) == texts[i] && classifyTags(calls[i].retMap) != "":
			// the raw-text fast path: the text equals the stored line of a set whose line does not denote it (C08)
			cls = "identity-fastpath-line-of-other-set"
		case calls[i].denoted != nil && lineOf(calls[i].denoted) == lineOf(calls[i].retMap):
			// two different sets are printed as the same line (printing is not injective): cannot happen with the
			// line() of the code, which quotes the value of two quote characters (a regression of the C08 repair)
			cls = "identity-line-collision"
		}
		return &Violation{Class: cls, Detail: fmt.Sprintf("text %s denotes %s but is answered with the partition of %s", show(texts[i]), den, show(mapKey(calls[i].retMap)))}
	}
	for i := range calls {
		for j := i + 1; j < len(calls); j++ {
			if !good[i] || !good[j] {
				continue
			}
			same := mapKey(calls[i].denoted) == mapKey(calls[j].denoted)
			if same != (calls[i].src == calls[j].src) {
				cls := "identity-unclassified"
				return &Violation{Class: cls, Detail: fmt.Sprintf("texts %s and %s: same set=%v, same partition=%v", show(texts[i]), show(texts[j]), same, !same)}
			}
		}
	}
	return nil
}

// the C08 classifier restricted to what matters here: is the printed line of the map unsafe?
func scanBalanced(v string) bool {
	in := false
	for i := 0; i < len(v); i++ {
		c := v[i]
		switch {
		case c == '"':
			in = !in
		case c == '\\' && in:
			i++
			if i >= len(v) {
				return false
			}
		case (c == '=' || c == ',') && !in:
			return false
		}
	}
	return !in
}

// classifyTags: does the line the code prints for the map fail to denote it?  With valueNeedsQuote of the code a
// value is printed raw only if it is non-empty, has no '=' ',' no blank at an end, no leading quote character and
// (last pair) no trailing '}'; such a value is unsafe iff its double quotes do not balance (pinned by TestTagLine).
// Names are printed as they are: a first name starting with '{'.
func classifyTags(m map[string]string) string {
	ks := sortedKeys(m)
	for i, k := range ks {
		v := m[k]
		if v == "" || strings.ContainsAny(v, "=,") {
			continue
		}
		if v[0] == '"' || v[0] == '`' || v[0] == ' ' || v[len(v)-1] == ' ' || (i == len(ks)-1 && v[len(v)-1] == '}') || strings.IndexByte(v, '\n') >= 0 {
			continue
		}
		if !scanBalanced(v) {
			return "unsafe-value"
		}
	}
	if len(ks) > 0 && ks[0][0] == '{' {
		return "unsafe-first-brace"
	}
	return ""
}

type visitObs struct {
	kind string // err | panic | ok
	ids  []int
}

func doVisit(svc tindex.Service, src *lql.Source, ids map[string]int) (vo visitObs) {
	return doVisitF(svc, src, ids, 0)
}

// doVisitF: flags = tindex.VF_SKIP_IF_LOCKED takes the other visiting loop (what TRUNCATE uses); with no partition
// locked exclusively it must select the same partitions
func doVisitF(svc tindex.Service, src *lql.Source, ids map[string]int, flags int) (vo visitObs) {
	defer func() {
		if r := recover(); r != nil {
			vo = visitObs{kind: "panic"}
		}
	}()
	var got []int
	err := svc.Visit(src, func(ts tag.Set, jrnl string) bool {
		got = append(got, ids[jrnl])
		return true
	}, flags)
	if err != nil {
		return visitObs{kind: "err"}
	}
	sort.Ints(got)
	return visitObs{kind: "ok", ids: got}
}

func gVres(kind string, items []string) string {
	switch kind {
	case "err":
		return "VErr"
	case "panic":
		return "VPanic"
	}
	return GApp("VOk", GList(items))
}

func mkHist(rp Replay) (*Case, error) {
	dir := TempDir("c06-tindex")
	defer RemoveAll(dir)
	defer RemoveAll(dir + ".off")
	svc := tindex.NewInmemServiceWithConfig(tindex.InMemConfig{WorkingDir: dir})
	t := newTables()
	ids := map[string]int{}
	var obs []string
	var texts []string
	var gtexts []string
	var calls []callRes
	partMaps := map[int]map[string]string{}
	nonCanon := false
	nfault := 0
	for i, tb := range rp.Texts {
		s := string(tb)
		fault := i < len(rp.Faults) && rp.Faults[i]
		texts = append(texts, s)
		gtexts = append(gtexts, GPair(GStr(s), GBool(fault)))
		t.addText(s)
		if fault {
			// the index file cannot be written: its directory is gone (os.Stat says "not exist", WriteFile fails)
			if err := os.Rename(dir, dir+".off"); err != nil {
				return nil, err
			}
		}
		src, set, err := rGoc(svc, s)
		if fault {
			if e := os.Rename(dir+".off", dir); e != nil {
				return nil, e
			}
		}
		cr := callRes{err: err != nil, fault: fault}
		if dm, e := rToMap(s); e == nil {
			cr.denoted = dm
		}
		if err != nil {
			obs = append(obs, GNone)
			if fault {
				nfault++
			}
		} else {
			svc.Release(src)
			if _, ok := ids[src]; !ok {
				ids[src] = len(ids)
			}
			m := tag.VC08TagMap(set)
			t.addMap(m)
			t.addText(string(set.Line()))
			// the same partition through its id (smap)
			ts2, e2 := svc.GetJournalTags(src, false)
			cr.bySrc = e2 == nil && mapKey(tag.VC08TagMap(ts2)) == mapKey(m)
			cr.src, cr.retMap = src, m
			partMaps[ids[src]] = m
			obs = append(obs, GSome(GTuple(GNat(ids[src]), gMap(m), GBool(cr.bySrc))))
			if s != string(set.Line()) {
				nonCanon = true
			}
		}
		calls = append(calls, cr)
	}
	cs := &Case{Stream: "hist", Replay: rp}
	cs.Oracle = identityOracle(texts, calls)
	visitPanicked := false
	var visits []string
	for _, q := range rp.Sources {
		src, err := rParseSource(q)
		if err != nil {
			cs.Tags = append(cs.Tags, "source:unparsable")
			continue
		}
		vo := doVisitF(svc, src, ids, (len(visits)%2)*tindex.VF_SKIP_IF_LOCKED)
		var items []string
		for _, id := range vo.ids {
			items = append(items, GNat(id))
		}
		visits = append(visits, GPair(gSource(src, t), gVres(vo.kind, items)))
		cs.Tags = append(cs.Tags, "visit:"+vo.kind)
		// selection oracle: exactly the partitions whose tags satisfy the reference meaning
		if cs.Oracle == nil {
			cs.Oracle = selectionOracle(q, src, vo, partMaps)
		}
		if vo.kind == "panic" {
			visitPanicked = true
			break // the nil closure panicked under ims.lock, which stays locked: the service is unusable from here on
		}
	}
	cs.Coq = GApp("KHist", t.render(), GList(gtexts), GList(obs), GList(visits))
	if rp.Restart && !visitPanicked {
		cs.Tags = append(cs.Tags, restartOracle(cs, dir, texts, calls, ids, partMaps))
	}
	if nfault > 0 {
		cs.Tags = append(cs.Tags, "hist:with-failed-save")
	}
	cs.NonTrivial = len(ids) >= 2 && nonCanon
	cs.Tags = append(cs.Tags, fmt.Sprintf("partitions:%d", len(ids)))
	return cs, nil
}

// noJournals is a journal controller without journals: tindex.Init only asks it to visit them
type noJournals struct {
	journal.Controller
}

func (noJournals) Visit(ctx context.Context, cv journal.ControllerVisitorF) {}

// restartOracle: a new service reads the index file the history left behind (tindex.Init = loadState, which parses
// every stored line again). Every partition must still have the tag set it was created for, and every text that was
// answered with the partition of exactly the set it denotes must be answered with that partition again. Only for
// histories whose sets all have a line that denotes them by the quoting rule of the code (classifyTags): the line of a
// set with an unbalanced inner double quote does not parse back (C08 finding, pinned by TestTagLine) and loadState
// stops on it. Returns a tag for the input distribution; a violation goes to cs.Oracle (unless one is there already).
func restartOracle(cs *Case, dir string, texts []string, calls []callRes, ids map[string]int, partMaps map[int]map[string]string) string {
	if len(ids) == 0 {
		return "restart:nothing-stored"
	}
	for _, m := range partMaps {
		if classifyTags(m) != "" {
			return "restart:skipped-unsafe-line"
		}
	}
	// the index file is JSON with the lines as object keys: encoding/json replaces every byte that is not valid UTF-8 by
	// U+FFFD, so a line with such a byte in a name or a raw-printed value does not survive (recorded finding)
	badUtf8 := false
	for _, m := range partMaps {
		if !utf8.ValidString(lineOf(m)) {
			badUtf8 = true
		}
	}
	set := func(v *Violation) {
		if badUtf8 {
			v.Class = "identity-restart-invalid-utf8-line"
		}
		if cs.Oracle == nil {
			cs.Oracle = v
		}
	}
	// what is persisted: one record per partition, under the canonical line of its set, whatever spelling created it
	if data, e := ioutil.ReadFile(path.Join(dir, "tindex.dat")); e == nil {
		var recs map[string]json.RawMessage
		if json.Unmarshal(data, &recs) == nil {
			want := map[string]bool{}
			for _, m := range partMaps {
				want[lineOf(m)] = true
			}
			var bad []string
			for k := range recs {
				if !want[k] {
					bad = append(bad, show(k))
				}
			}
			sort.Strings(bad)
			if len(bad) > 0 || len(recs) != len(want) {
				set(&Violation{Class: "identity-index-record-not-canonical", Detail: fmt.Sprintf("history %s: %d partitions, the index file holds %d records; keys that are not the canonical line of a partition's set: %v", showTexts(texts), len(want), len(recs), bad)})
				return "restart:done"
			}
		}
	}
	svc := tindex.NewInmemServiceWithConfig(tindex.InMemConfig{WorkingDir: dir})
	reflect.ValueOf(svc).Elem().FieldByName("Journals").Set(reflect.ValueOf(noJournals{}))
	var ierr error
	func() {
		defer guard("tindex.Init", dir)
		ierr = svc.(interface{ Init(context.Context) error }).Init(context.Background())
	}()
	if ierr != nil {
		set(&Violation{Class: "identity-restart-failed", Detail: fmt.Sprintf("after the history %s the index file cannot be loaded: %v", showTexts(texts), ierr)})
		return "restart:failed"
	}
	for src, id := range ids {
		ts, err := svc.GetJournalTags(src, false)
		if err != nil || mapKey(tag.VC08TagMap(ts)) != mapKey(partMaps[id]) {
			got := "nothing"
			if err == nil {
				got = show(mapKey(tag.VC08TagMap(ts)))
			}
			set(&Violation{Class: "identity-tags-changed-by-restart", Detail: fmt.Sprintf("history %s: partition %d was created for %s, after a restart its tags are %s", showTexts(texts), id, show(mapKey(partMaps[id])), got)})
			return "restart:done"
		}
	}
	// every partition is visited exactly once
	if vo := doVisit(svc, nil, ids); vo.kind == "ok" {
		var all []int
		for _, id := range ids {
			all = append(all, id)
		}
		sort.Ints(all)
		if fmt.Sprint(vo.ids) != fmt.Sprint(all) {
			set(&Violation{Class: "identity-records-per-partition-after-restart", Detail: fmt.Sprintf("history %s: after a restart a visit without condition gives the partitions %v, there are %v", showTexts(texts), vo.ids, all)})
			return "restart:done"
		}
	}
	for i, c := range calls {
		if c.err || c.denoted == nil || mapKey(c.retMap) != mapKey(c.denoted) {
			continue
		}
		src, set2, err := rGoc(svc, texts[i])
		if err == nil {
			svc.Release(src)
		}
		if err != nil || src != c.src || mapKey(tag.VC08TagMap(set2)) != mapKey(c.denoted) {
			set(&Violation{Class: "identity-partition-changed-by-restart", Detail: fmt.Sprintf("history %s: text %s was answered with partition %d (%s); after a restart: err=%v, same partition=%v", showTexts(texts), show(texts[i]), ids[c.src], show(mapKey(c.retMap)), err, src == c.src)})
			return "restart:done"
		}
	}
	// once more: the first restart saved the index it had loaded (Init ends with saveStateUnsafe); loading that again
	// must give the same partitions
	svc3 := tindex.NewInmemServiceWithConfig(tindex.InMemConfig{WorkingDir: dir})
	reflect.ValueOf(svc3).Elem().FieldByName("Journals").Set(reflect.ValueOf(noJournals{}))
	var ierr3 error
	func() {
		defer guard("tindex.Init", dir)
		ierr3 = svc3.(interface{ Init(context.Context) error }).Init(context.Background())
	}()
	if ierr3 != nil {
		set(&Violation{Class: "identity-restart-failed", Detail: fmt.Sprintf("after the history %s and one restart the index file cannot be loaded again: %v", showTexts(texts), ierr3)})
		return "restart:done"
	}
	for src, id := range ids {
		ts, err := svc3.GetJournalTags(src, false)
		if err != nil || mapKey(tag.VC08TagMap(ts)) != mapKey(partMaps[id]) {
			set(&Violation{Class: "identity-tags-changed-by-restart", Detail: fmt.Sprintf("history %s: partition %d after a second restart (err %v)", showTexts(texts), id, err)})
			return "restart:done"
		}
	}
	return "restart:done"
}

func showTexts(texts []string) string {
	var q []string
	for _, t := range texts {
		q = append(q, show(t))
	}
	return "[" + strings.Join(q, " ") + "]"
}

func selectionOracle(q string, src *lql.Source, vo visitObs, partMaps map[int]map[string]string) *Violation {
	var want []int
	re := &refErr{}
	for id, m := range partMaps {
		if refSource(src, m, re) {
			want = append(want, id)
		}
	}
	// a malformed source is one the reference rejects whatever the partitions are
	refSource(src, map[string]string{}, re)
	sort.Ints(want)
	switch {
	case re.bad && vo.kind != "err":
		cls := "from-bad-source-accepted"
		if badLike(src) {
			cls = "from-like-bad-pattern-accepted"
		}
		return &Violation{Class: cls, Detail: fmt.Sprintf("source %s must be rejected, the visit gave %s %v", show(q), vo.kind, vo.ids)}
	case !re.bad && vo.kind != "ok":
		return &Violation{Class: "from-valid-source-failed", Detail: fmt.Sprintf("source %s: %s", show(q), vo.kind)}
	case !re.bad && fmt.Sprint(want) != fmt.Sprint(vo.ids):
		return &Violation{Class: "from-selection", Detail: fmt.Sprintf("source %s selected %v, the reference meaning selects %v", show(q), vo.ids, want)}
	}
	return nil
}

func badLike(src *lql.Source) bool {
	if src == nil || src.Expr == nil {
		return false
	}
	var walk func(e *lql.Expression) bool
	walk = func(e *lql.Expression) bool {
		for _, oc := range e.Or {
			for _, xc := range oc.And {
				if xc.Expr != nil {
					if walk(xc.Expr) {
						return true
					}
				} else if strings.ToUpper(xc.Cond.Op) == "LIKE" {
					if _, err := path.Match(xc.Cond.Value, "abc"); err != nil {
						return true
					}
				}
			}
		}
		return false
	}
	return walk(src.Expr)
}

func mkEval(rp Replay) (*Case, error) {
	t := newTables()
	var q string
	var src *lql.Source
	var err error
	if rp.AST > 0 {
		a := astCorpus()[rp.AST-1]
		q, src = "<"+a.name+">", a.src
	} else {
		q = rp.Sources[0]
		src, err = rParseSource(q)
		if err != nil {
			return nil, nil // not a sentence of the language: outside this model (C12)
		}
	}
	var sets []map[string]string
	var gsets []string
	for _, s := range rp.Sets {
		m, err := rToMap(string(s))
		if err != nil {
			return nil, fmt.Errorf("eval case: bad set text %q", s)
		}
		t.addMap(m)
		sets = append(sets, m)
		gsets = append(gsets, gMap(m))
	}
	cs := &Case{Stream: "eval", Replay: rp}
	gsrc := gSource(src, t)
	tef, err := rBuild(q, src)
	obs := GNone
	re := &refErr{}
	var viol *Violation
	if err == nil {
		var it []string
		for _, m := range sets {
			set := tag.MapToSet(m)
			res, panicked := false, false
			func() {
				defer func() {
					if r := recover(); r != nil {
						panicked = true
					}
				}()
				res = tef(set)
			}()
			want := refSource(src, m, re)
			if panicked {
				it = append(it, GNone)
			} else {
				it = append(it, GSome(GBool(res)))
			}
			if viol == nil && !re.bad && (panicked || res != want) {
				viol = &Violation{Class: "fromexpr-meaning", Detail: fmt.Sprintf("source %s on %s: got %v (panic=%v), reference %v", show(q), show(mapKey(m)), res, panicked, want)}
			}
		}
		obs = GSome(GList(it))
		cs.Tags = append(cs.Tags, "build:ok")
	} else {
		cs.Tags = append(cs.Tags, "build:error")
	}
	refSource(src, map[string]string{}, re)
	if re.bad && err == nil {
		cls := "from-bad-source-accepted"
		if badLike(src) {
			cls = "from-like-bad-pattern-accepted"
		}
		viol = &Violation{Class: cls, Detail: fmt.Sprintf("source %s must be rejected but BuildTagsExpFuncBySource returns no error (nil func: %v)", show(q), tef == nil)}
	} else if !re.bad && err != nil {
		viol = &Violation{Class: "from-valid-source-failed", Detail: fmt.Sprintf("source %s: %v", show(q), err)}
	}
	if viol == nil && rp.AST == 0 {
		// the entry point that takes the text (BuildTagsExpFunc = ParseSource + BuildTagsExpFuncBySource): same verdicts
		tef2, err2 := lql.BuildTagsExpFunc(q)
		same := (err2 == nil) == (err == nil)
		if same && err == nil {
			for _, m := range sets {
				a, b := false, false
				quiet(func() { a = tef(tag.MapToSet(m)); b = tef2(tag.MapToSet(m)) })
				same = same && a == b
			}
		}
		if !same {
			viol = &Violation{Class: "fromexpr-string-entry-differs", Detail: fmt.Sprintf("source %s: BuildTagsExpFunc (err %v) and BuildTagsExpFuncBySource (err %v) disagree", show(q), err2, err)}
		}
	}
	if viol == nil && rp.AST == 0 && err == nil && src != nil {
		// the printed source (what CREATE PIPE ... FROM stores and parses again) selects the same sets; a print that does
		// not parse is C12's business
		printed := ""
		quiet(func() { printed = src.String() })
		if src2, e := lql.ParseSource(printed); e == nil && printed != "" {
			if tef3, e3 := lql.BuildTagsExpFuncBySource(src2); e3 == nil {
				for _, m := range sets {
					a, b := false, false
					quiet(func() { a = tef(tag.MapToSet(m)); b = tef3(tag.MapToSet(m)) })
					if a != b && viol == nil {
						viol = &Violation{Class: "fromexpr-printed-source-selects-differently", Detail: fmt.Sprintf("source %s is printed as %s, which gives %v instead of %v on %s", show(q), show(printed), b, a, show(mapKey(m)))}
					}
				}
			}
		}
	}
	cs.Oracle = viol
	cs.Coq = GApp("KEval", t.render(), gsrc, GList(gsets), obs)
	if src != nil && src.Expr != nil {
		n, fn := countConds(src.Expr)
		cs.NonTrivial = n >= 2 || fn
	}
	return cs, nil
}

var showLine = regexp.MustCompile(`^ *[0-9.]+ [kMGT]?B +[0-9,]+  (.*)$`)

func mkE2E(rp Replay) (*Case, error) {
	srv, err := StartServer(ServerOpts{})
	if err != nil {
		return nil, err
	}
	defer srv.Stop()
	ctx := context.Background()
	t := newTables()
	var texts []string
	var wrote []string
	okWrites := 0
	denoted := map[string]map[string]string{}
	tdir := path.Join(srv.Dir, "tindex")
	var gtexts []string
	for i, tb := range rp.Texts {
		s := string(tb)
		fault := i < len(rp.Faults) && rp.Faults[i]
		texts = append(texts, s)
		gtexts = append(gtexts, GPair(GStr(s), GBool(fault)))
		t.addText(s)
		var res api.WriteResult
		ev := []*api.LogEvent{{Timestamp: int64(1000 + i), Message: fmt.Sprintf("m%d", i)}}
		if fault {
			if err := os.Rename(tdir, tdir+".off"); err != nil {
				return nil, err
			}
		}
		werr := srv.Client.Write(ctx, s, "", ev, &res)
		if fault {
			if err := os.Rename(tdir+".off", tdir); err != nil {
				return nil, err
			}
		}
		if werr != nil {
			return nil, fmt.Errorf("rpc write: %v", werr)
		}
		wrote = append(wrote, GBool(res.Err == nil))
		if res.Err == nil {
			okWrites++
			if m, e := rToMap(s); e == nil {
				denoted[mapKey(m)] = m
				t.addText(lineOf(m))
			}
		}
	}
	// writes become readable after the chunk flush: poll
	total := 0
	var flushViol *Violation
	if !WaitFor(30*time.Second, func() bool {
		var qres api.QueryResult
		if err := srv.Client.Query(ctx, &api.QueryRequest{Query: "SELECT LIMIT 10000", Limit: 10000}, &qres); err != nil || qres.Err != nil {
			return false
		}
		total = len(qres.Events)
		return total >= okWrites
	}) {
		// an empty FROM must select every partition, so every acknowledged event becomes readable through it
		flushViol = &Violation{Class: "e2e-acknowledged-not-selected-by-empty-from", Detail: fmt.Sprintf("%d writes acknowledged, %d events returned by SELECT without FROM after 30s", okWrites, total)}
	}
	cs := &Case{Stream: "e2e", Replay: rp, NonTrivial: len(denoted) >= 2, Oracle: flushViol}
	var visits []string
	for i, q := range rp.Sources {
		src, err := rParseSource(q)
		if err != nil || badLike(src) {
			continue // a malformed LIKE pattern, if accepted (a regression of tagseval.go), makes the server call a nil func outside any recover: not run in-process (hist/eval cases cover it)
		}
		useShow := i < len(rp.Show) && rp.Show[i] == "show"
		kind, lines := "ok", []string{}
		if useShow {
			out, err := srv.Exec("SHOW PARTITIONS " + q)
			if err != nil {
				kind = "err"
			} else {
				for _, l := range strings.Split(out, "\n") {
					if m := showLine.FindStringSubmatch(l); m != nil {
						lines = append(lines, m[1])
					}
				}
			}
		} else {
			var qres api.QueryResult
			stmt := "SELECT LIMIT 10000"
			if q != "" {
				stmt = "SELECT FROM " + q + " LIMIT 10000"
			}
			if err := srv.Client.Query(ctx, &api.QueryRequest{Query: stmt, Limit: 10000}, &qres); err != nil {
				return nil, fmt.Errorf("rpc query: %v", err)
			}
			if qres.Err != nil {
				kind = "err"
			} else {
				for _, e := range qres.Events {
					lines = append(lines, e.Tags)
				}
			}
		}
		sort.Strings(lines)
		var uniq []string
		for _, l := range lines {
			if len(uniq) == 0 || uniq[len(uniq)-1] != l {
				uniq = append(uniq, l)
			}
		}
		visits = append(visits, GPair(gSource(src, t), gVres(kind, strList(uniq))))
		// oracle: exactly the written sets that satisfy the reference meaning
		re := &refErr{}
		var want []string
		for _, m := range denoted {
			if refSource(src, m, re) {
				want = append(want, mapKey(m))
			}
		}
		sort.Strings(want)
		var got []string
		for _, l := range uniq {
			if m, e := rToMap(l); e == nil {
				got = append(got, mapKey(m))
			} else {
				got = append(got, "unparsable:"+l)
			}
		}
		sort.Strings(got)
		if cs.Oracle == nil && !re.bad && (kind != "ok" || strings.Join(got, "|") != strings.Join(want, "|")) {
			cs.Oracle = &Violation{Class: "e2e-selection", Detail: fmt.Sprintf("%s (show=%v): got %v %v, want %v", show(q), useShow, kind, uniq, want)}
		}
	}
	cs.Coq = GApp("KE2E", t.render(), GList(gtexts), GList(wrote), GList(visits))
	if cs.Oracle == nil {
		cs.Oracle = describeOracle(srv, denoted)
	}
	return cs, nil
}

var descLine = regexp.MustCompile(`(?s)\nPartition: (.*)\nId:        ([0-9A-Fa-f]+)\nRecords:   `)

func countShown(srv *Server) int {
	out, err := srv.Exec("SHOW PARTITIONS")
	if err != nil {
		return -1
	}
	n := 0
	for _, l := range strings.Split(out, "\n") {
		if showLine.MatchString(l) {
			n++
		}
	}
	return n
}

// describeOracle: DESCRIBE PARTITION {tags} is the look-up without creation (partition.GetParitionInfo ->
// tindex.GetJournal): every spelling of a written set names the same partition (same Id, the canonical line), a set
// that was never written is not found and is NOT created by asking for it
func describeOracle(srv *Server, denoted map[string]map[string]string) *Violation {
	before := countShown(srv)
	for _, k := range sortedKeys2(denoted) {
		m := denoted[k]
		ln := lineOf(m)
		if classifyTags(m) != "" || strings.ContainsAny(ln, "\n") || !utf8.ValidString(ln) {
			continue // the line does not denote the set / is not one LQL token
		}
		var ps []kv
		ks := sortedKeys(m)
		for i := len(ks) - 1; i >= 0; i-- {
			ps = append(ps, kv{ks[i], m[ks[i]]})
		}
		idOf := ""
		for _, lit := range []string{"{" + ln + "}", "{ " + setText(ps) + " }"} {
			if _, err := rParseSource(lit); err != nil {
				continue // not one {tags} token for the lexer (C12)
			}
			out, err := srv.Exec("DESCRIBE PARTITION " + lit)
			mm := descLine.FindStringSubmatch(out)
			switch {
			case err != nil || mm == nil:
				return &Violation{Class: "e2e-describe-written-set-not-found", Detail: fmt.Sprintf("DESCRIBE PARTITION %s: err %v, output %s", show(lit), err, show(out))}
			case mm[1] != ln:
				return &Violation{Class: "e2e-describe-other-partition", Detail: fmt.Sprintf("DESCRIBE PARTITION %s shows the partition %s", show(lit), show(mm[1]))}
			case idOf != "" && idOf != mm[2]:
				return &Violation{Class: "e2e-describe-other-partition", Detail: fmt.Sprintf("two spellings of %s name the partitions %s and %s", show(ln), idOf, mm[2])}
			}
			idOf = mm[2]
		}
	}
	// SHOW PARTITIONS pages: OFFSET o LIMIT l lists min(l, n-o) partitions (none from o = n on), each of them a written set
	if n := before; n > 0 {
		for _, pg := range [][3]int{{0, 1000, n}, {0, 1, 1}, {n - 1, 5, 1}, {n, 5, 0}, {n + 1, 5, 0}, {0, n, n}, {1, n, n - 1}} {
			out, err := srv.Exec(fmt.Sprintf("SHOW PARTITIONS OFFSET %d LIMIT %d", pg[0], pg[1]))
			got := 0
			for _, l := range strings.Split(out, "\n") {
				if showLine.MatchString(l) {
					got++
				}
			}
			if err != nil || got != pg[2] {
				return &Violation{Class: "e2e-show-partitions-page", Detail: fmt.Sprintf("%d partitions: SHOW PARTITIONS OFFSET %d LIMIT %d lists %d (err %v), expected %d", n, pg[0], pg[1], got, err, pg[2])}
			}
		}
	}
	if out, err := srv.Exec(`DESCRIBE PARTITION {zz9="never,written"}`); err == nil {
		return &Violation{Class: "e2e-describe-unwritten-set-found", Detail: show(out)}
	}
	if after := countShown(srv); after != before {
		return &Violation{Class: "e2e-describe-creates-partition", Detail: fmt.Sprintf("%d partitions before DESCRIBE PARTITION of a set never written, %d after", before, after)}
	}
	return nil
}

func sortedKeys2(m map[string]map[string]string) []string {
	ks := make([]string, 0, len(m))
	for k := range m {
		ks = append(ks, k)
	}
	sort.Strings(ks)
	return ks
}

// mkLimit: a query merges at most 50 partitions (cursor.newCursor -> partition.GetJournals(.., 50): the visit adds the
// journal and fails when len(res) > maxLimit). n partitions {lim=1, i=<k>}; SELECT FROM lim=1 must return one event of
// every one of them or fail -- never a silent subset: exactly 50 are served, 51 are refused (the earlier comparison
// len(res) == maxLimit refused exactly 50: class e2e-select-limit-off-by-one); SHOW PARTITIONS has no such limit
func mkLimit(rp Replay) (*Case, error) {
	srv, err := StartServer(ServerOpts{})
	if err != nil {
		return nil, err
	}
	defer srv.Stop()
	ctx := context.Background()
	n := rp.Writers
	for i := 0; i < n; i++ {
		var res api.WriteResult
		ev := []*api.LogEvent{{Timestamp: int64(1000 + i), Message: fmt.Sprintf("m%d", i)}}
		if err := srv.Client.Write(ctx, fmt.Sprintf("lim=1,i=%d", i), "", ev, &res); err != nil || res.Err != nil {
			return nil, fmt.Errorf("limit: write %d: %v %v", i, err, res.Err)
		}
	}
	cs := &Case{Stream: "limit", Replay: rp, NonTrivial: true, Coq: "(KPanicked [] [])"}
	cs.Coq = GApp("KRace", newTables().render(), "[]", GNat(0), GNat(0)) // no model behind this case: the oracle decides
	got, errs := 0, ""
	WaitFor(30*time.Second, func() bool {
		var qres api.QueryResult
		if err := srv.Client.Query(ctx, &api.QueryRequest{Query: "SELECT FROM lim=1 LIMIT 10000", Limit: 10000}, &qres); err != nil {
			return false
		}
		if qres.Err != nil {
			errs = qres.Err.Error()
			return true
		}
		got = len(qres.Events)
		return got >= n
	})
	shown := countShown(srv)
	switch {
	case shown != n:
		cs.Oracle = &Violation{Class: "e2e-show-partitions-count", Detail: fmt.Sprintf("%d partitions written, SHOW PARTITIONS lists %d", n, shown)}
	case errs == "" && got != n:
		cs.Oracle = &Violation{Class: "e2e-select-silent-subset", Detail: fmt.Sprintf("SELECT FROM lim=1 over %d partitions returns %d events and no error", n, got)}
	case errs != "" && n < 50:
		cs.Oracle = &Violation{Class: "e2e-select-refused-below-limit", Detail: fmt.Sprintf("%d partitions: %s", n, errs)}
	case errs != "" && n == 50:
		cs.Oracle = &Violation{Class: "e2e-select-limit-off-by-one", Detail: fmt.Sprintf("a query over exactly 50 partitions is refused: %s", errs)}
	case errs == "" && n > 50:
		cs.Oracle = &Violation{Class: "e2e-select-over-limit-accepted", Detail: fmt.Sprintf("%d partitions, no error", n)}
	}
	cs.Tags = append(cs.Tags, fmt.Sprintf("limit:%d", n))
	return cs, nil
}

// mkWRace: through the whole write path. For every set (texts i*W .. i*W+W-1 are spellings of set i) W goroutines write
// one event each at the same time, each through an RPC client of its own; a reader goroutine keeps visiting the index and
// querying meanwhile. Oracle: at no moment the index shows two partitions with one tag set; afterwards one partition
// per set, every spelling is answered with it (GetJournal), and every acknowledged event is readable under the
// canonical line of its set, exactly once.
func mkWRace(rp Replay) (*Case, error) {
	srv, err := StartServer(ServerOpts{})
	if err != nil {
		return nil, err
	}
	defer srv.Stop()
	ctx := context.Background()
	w := rp.Writers
	nsets := len(rp.Texts) / w
	t := newTables()
	var setKeys []string
	var setLines []string
	for i := 0; i < nsets; i++ {
		m, err := rToMap(string(rp.Texts[i*w]))
		if err != nil {
			return nil, fmt.Errorf("wrace: bad text %q", rp.Texts[i*w])
		}
		setKeys = append(setKeys, mapKey(m))
		setLines = append(setLines, lineOf(m))
	}
	for _, tb := range rp.Texts {
		t.addText(string(tb))
		if m, e := rToMap(string(tb)); e == nil {
			t.addText(lineOf(m))
		}
	}
	var wg sync.WaitGroup
	var mu sync.Mutex
	acked := map[int]bool{}
	var clientErr error
	start := make(chan struct{})
	for i, tb := range rp.Texts {
		wg.Add(1)
		go func(i int, s string) {
			defer wg.Done()
			cl, err := rpc.NewClient(transport.Config{ListenAddr: srv.Addr})
			if err != nil {
				mu.Lock()
				clientErr = err
				mu.Unlock()
				return
			}
			defer cl.Close()
			<-start
			var res api.WriteResult
			ev := []*api.LogEvent{{Timestamp: int64(1000 + i), Message: fmt.Sprintf("m%d", i)}}
			if err := cl.Write(ctx, s, "", ev, &res); err == nil && res.Err == nil {
				mu.Lock()
				acked[i] = true
				mu.Unlock()
			}
		}(i, string(tb))
	}
	// the reader
	stop := make(chan struct{})
	var rviol *Violation
	visitsDone := 0
	var rwg sync.WaitGroup
	rwg.Add(1)
	go func() {
		defer rwg.Done()
		for {
			select {
			case <-stop:
				return
			default:
			}
			seen := map[string]string{}
			srv.TIndex.Visit(nil, func(ts tag.Set, jrnl string) bool {
				k := mapKey(tag.VC08TagMap(ts))
				if other, ok := seen[k]; ok && rviol == nil {
					rviol = &Violation{Class: "wrace-reader-sees-set-twice", Detail: fmt.Sprintf("one visit shows the partitions %s and %s for the set %s", other, jrnl, show(string(ts.Line())))}
				}
				seen[k] = jrnl
				return true
			}, 0)
			visitsDone++
			var qres api.QueryResult
			srv.Client.Query(ctx, &api.QueryRequest{Query: "SELECT LIMIT 1000", Limit: 1000}, &qres)
		}
	}()
	close(start)
	wg.Wait()
	close(stop)
	rwg.Wait()
	if clientErr != nil {
		return nil, clientErr
	}
	cs := &Case{Stream: "wrace", Replay: rp, NonTrivial: w >= 2, Key: fmt.Sprintf("wrace-%p", &rp), Oracle: rviol}
	cs.Tags = append(cs.Tags, fmt.Sprintf("wrace:%dx%d", nsets, w))
	set := func(v *Violation) {
		if cs.Oracle == nil {
			cs.Oracle = v
		}
	}
	// one partition per set, every spelling answered with it
	parts := map[string][]string{}
	srv.TIndex.Visit(nil, func(ts tag.Set, jrnl string) bool {
		k := mapKey(tag.VC08TagMap(ts))
		parts[k] = append(parts[k], jrnl)
		return true
	}, 0)
	distinct, nparts := 0, 0
	for i := 0; i < nsets; i++ {
		ids := map[string]bool{}
		for j := 0; j < w; j++ {
			src, _, err := srv.TIndex.GetJournal(string(rp.Texts[i*w+j]))
			if err == nil {
				srv.TIndex.Release(src)
				ids[src] = true
			}
		}
		if len(ids) != 1 || len(parts[setKeys[i]]) != 1 {
			set(&Violation{Class: "race-duplicate-partition", Detail: fmt.Sprintf("%d racing writers of the set %s: its spellings are answered with %d partitions, the index holds %d for it", w, show(setLines[i]), len(ids), len(parts[setKeys[i]]))})
		}
		if i == 0 {
			distinct, nparts = len(ids), len(parts[setKeys[i]])
		}
	}
	if len(parts) != nsets {
		set(&Violation{Class: "race-duplicate-partition", Detail: fmt.Sprintf("%d sets written, %d different sets in the index", nsets, len(parts))})
	}
	// every acknowledged event is readable under the canonical line of its set, once
	for i := 0; i < nsets; i++ {
		want := 0
		for j := 0; j < w; j++ {
			if acked[i*w+j] {
				want++
			}
		}
		if want != w {
			set(&Violation{Class: "wrace-write-refused", Detail: fmt.Sprintf("%d of %d racing writes of %s were acknowledged", want, w, show(setLines[i]))})
		}
		lit := "{" + setLines[i] + "}"
		if _, err := rParseSource(lit); err != nil || cs.Oracle != nil {
			continue // (a verdict is there already: do not wait for events that may never show up)
		}
		cnt := map[string]int{}
		WaitFor(30*time.Second, func() bool {
			var qres api.QueryResult
			if err := srv.Client.Query(ctx, &api.QueryRequest{Query: "SELECT FROM " + lit + " LIMIT 10000", Limit: 10000}, &qres); err != nil || qres.Err != nil {
				return false
			}
			cnt = map[string]int{}
			for _, e := range qres.Events {
				cnt[e.Message]++
			}
			return len(cnt) >= want
		})
		for j := 0; j < w; j++ {
			if acked[i*w+j] && cnt[fmt.Sprintf("m%d", i*w+j)] != 1 {
				set(&Violation{Class: "wrace-acknowledged-event-not-under-canonical-line", Detail: fmt.Sprintf("the event written with tags %s is returned %d times by SELECT FROM %s", show(string(rp.Texts[i*w+j])), cnt[fmt.Sprintf("m%d", i*w+j)], show(lit))})
			}
		}
	}
	// K: the model of the first set's race (any order of the atomic steps gives one id, one partition)
	cs.Coq = GApp("KRace", t.render(), GListStr(bytesToStrings(rp.Texts[:w])), GNat(distinct), GNat(nparts))
	c := visitsDone
	_ = c
	return cs, nil
}

func bytesToStrings(bs [][]byte) []string {
	out := make([]string, len(bs))
	for i, b := range bs {
		out[i] = string(b)
	}
	return out
}

func strList(ss []string) []string {
	out := make([]string, len(ss))
	for i, s := range ss {
		out[i] = GStr(s)
	}
	return out
}

// astCorpus: sources the participle grammar cannot produce but a caller of BuildTagsExpFuncBySource can build: empty
// lists of conditions (match everything), an operator outside the ten, a function with two parameters
type astCase struct {
	name string
	src  *lql.Source
}

func astCorpus() []astCase {
	id := func(op string, ps ...*lql.Identifier) *lql.Identifier {
		return &lql.Identifier{Operand: op, Params: ps}
	}
	cond := func(i *lql.Identifier, op, v string) *lql.XCondition {
		return &lql.XCondition{Cond: &lql.Condition{Ident: i, Op: op, Value: v}}
	}
	ex := func(ocs ...*lql.OrCondition) *lql.Expression { return &lql.Expression{Or: ocs} }
	and := func(xs ...*lql.XCondition) *lql.OrCondition { return &lql.OrCondition{And: xs} }
	return []astCase{
		{"expression without OR-conditions", &lql.Source{Expr: ex()}},
		{"OR-condition without conditions", &lql.Source{Expr: ex(and())}},
		{"a=x OR (empty AND)", &lql.Source{Expr: ex(and(cond(id("a"), "=", "x")), and())}},
		{"NOT (empty expression)", &lql.Source{Expr: ex(and(&lql.XCondition{Not: true, Expr: ex()}))}},
		{"operator ~", &lql.Source{Expr: ex(and(cond(id("a"), "~", "x")))}},
		{"a=x AND operator ~", &lql.Source{Expr: ex(and(cond(id("a"), "=", "x"), cond(id("a"), "~", "x")))}},
		{"upper(a,b)=X", &lql.Source{Expr: ex(and(cond(id("upper", id("a"), id("b")), "=", "X")))}},
		{"upper()=X", &lql.Source{Expr: ex(and(cond(&lql.Identifier{Operand: "upper", Params: []*lql.Identifier{}}, "=", "X")))}},
		{"lower(upper(a))=x", &lql.Source{Expr: ex(and(cond(id("lower", id("upper", id("a"))), "=", "x")))}},
		{"source with neither tags nor expression", &lql.Source{}},
	}
}

// mkOps: one tindex service under GetOrCreateJournal, GetJournal (look-up without creation: what DESCRIBE PARTITION
// uses) and Delete of an exclusively locked partition (what TRUNCATE does to an emptied partition), then visits and a
// restart. The texts are proper spellings of sets whose line denotes them, so that the reference is simply a map from
// sets to partitions: a call gives the partition of the set or a new one, a look-up gives it or NotFound and never
// creates, a deleted set is gone until it is written again, and then it gets a partition never seen before.
func mkOps(rp Replay) (*Case, error) {
	dir := TempDir("c06-tindex")
	defer RemoveAll(dir)
	defer RemoveAll(dir + ".off")
	svc := tindex.NewInmemServiceWithConfig(tindex.InMemConfig{WorkingDir: dir})
	t := newTables()
	ids := map[string]int{}    // every partition id ever answered, in order of first appearance
	ref := map[string]string{} // set -> live partition
	live := map[string]bool{}  // live partitions
	partMaps := map[int]map[string]string{}
	srcAt := map[int]string{}
	var gops, obs, texts []string
	var calls []callRes
	cs := &Case{Stream: "ops", Replay: rp}
	fail := func(i int, format string, a ...interface{}) {
		if cs.Oracle == nil {
			cs.Oracle = &Violation{Class: "ops-identity", Detail: fmt.Sprintf("operation %d of %s: ", i, showOps(rp.Ops)) + fmt.Sprintf(format, a...)}
		}
	}
	ndel := 0
	for i, op := range rp.Ops {
		s := string(op.T)
		switch op.K {
		case "call", "get":
			t.addText(s)
			den, derr := rToMap(s)
			if derr != nil {
				den = nil
			}
			var src string
			var set tag.Set
			var err error
			// a call that meets a record left behind in the exclusively locked state spins for ever: a watchdog makes
			// that a verdict (the goroutine is abandoned with the service)
			hung := false
			if op.K == "call" {
				gops = append(gops, GApp("HCall", GStr(s), GBool(op.Fault)))
				if op.Fault {
					if err := os.Rename(dir, dir+".off"); err != nil {
						return nil, err
					}
				}
				hung = !within(10*time.Second, func() { src, set, err = rGoc(svc, s) })
				if op.Fault {
					if e := os.Rename(dir+".off", dir); e != nil {
						return nil, e
					}
				}
			} else {
				gops = append(gops, GApp("HGet", GStr(s)))
				hung = !within(10*time.Second, func() {
					defer guard("tindex.GetJournal", s)
					src, set, err = svc.GetJournal(s)
				})
			}
			if hung {
				cs.Oracle = &Violation{Class: "ops-call-does-not-return", Detail: fmt.Sprintf("operation %d of %s does not return within 10 s", i, showOps(rp.Ops))}
				cs.Coq = GApp("KPanicked", GStr("tindex."+op.K), GStr(s))
				cs.NonTrivial = true
				return cs, nil
			}
			if err != nil {
				if op.K == "get" && err == errors2.NotFound {
					obs = append(obs, GSome(GNone))
				} else {
					obs = append(obs, GNone)
				}
				switch {
				case den == nil || len(den) == 0:
				case ref[mapKey(den)] != "":
					fail(i, "%s(%s) fails (%v) though the set has the partition %d", op.K, show(s), err, ids[ref[mapKey(den)]])
				case op.K == "call" && !op.Fault:
					fail(i, "GetOrCreateJournal(%s) fails: %v", show(s), err)
				case op.K == "get" && err != errors2.NotFound:
					fail(i, "GetJournal(%s) of a set without partition fails with %v, not with NotFound", show(s), err)
				}
				continue
			}
			svc.Release(src)
			m := tag.VC08TagMap(set)
			t.addMap(m)
			t.addText(string(set.Line()))
			if _, ok := ids[src]; !ok {
				ids[src] = len(ids)
				if op.K == "get" {
					fail(i, "GetJournal(%s) answers with a partition never seen before", show(s))
				}
			}
			ts2, e2 := svc.GetJournalTags(src, false)
			bySrc := e2 == nil && mapKey(tag.VC08TagMap(ts2)) == mapKey(m)
			obs = append(obs, GSome(GSome(GTuple(GNat(ids[src]), gMap(m), GBool(bySrc)))))
			switch {
			case den == nil || len(den) == 0:
				fail(i, "%s(%s) is answered though the text denotes no tag set", op.K, show(s))
			case mapKey(m) != mapKey(den):
				fail(i, "%s(%s) is answered with the set %s", op.K, show(s), show(mapKey(m)))
			case ref[mapKey(den)] != "" && ref[mapKey(den)] != src:
				fail(i, "%s(%s): the set has the partition %d, the answer is %d", op.K, show(s), ids[ref[mapKey(den)]], ids[src])
			case ref[mapKey(den)] == "" && (op.K == "get" || live[src] || partMaps[ids[src]] != nil):
				fail(i, "%s(%s): the set has no partition, the answer is the partition %d", op.K, show(s), ids[src])
			case !bySrc:
				fail(i, "the partition %d is not found by its id with the same tags", ids[src])
			}
			ref[mapKey(m)], live[src], partMaps[ids[src]], srcAt[i] = src, true, m, src
			texts = append(texts, s)
			calls = append(calls, callRes{src: src, retMap: m, denoted: den})
		case "del":
			src := srcAt[op.I]
			if src == "" {
				continue // the operation it refers to was not answered: nothing to delete
			}
			gops = append(gops, GApp("HDel", GNat(ids[src])))
			var gerr error
			if !within(10*time.Second, func() { _, gerr = svc.GetJournalTags(src, true) }) {
				// a record that stays in the exclusively locked state makes GetJournalTags spin
				cs.Oracle = &Violation{Class: "ops-call-does-not-return", Detail: fmt.Sprintf("operation %d of %s: GetJournalTags of the partition %d does not return within 10 s", i, showOps(rp.Ops), ids[src])}
				cs.Coq = GApp("KPanicked", GStr("tindex.GetJournalTags"), GStr(src))
				cs.NonTrivial = true
				return cs, nil
			}
			if gerr != nil {
				obs = append(obs, GSome(GNone))
				if live[src] {
					fail(i, "the live partition %d is not found by its id: %v", ids[src], gerr)
				}
				continue
			}
			if !live[src] {
				fail(i, "the deleted partition %d is found by its id", ids[src])
			}
			if !svc.LockExclusively(src) {
				// one reader (this harness) and no exclusive holder: a refusal means the record is in a state no
				// operation of this history can have left it in (e.g. a deleted partition still known by its id)
				fail(i, "LockExclusively of the partition %d, acquired once, is refused", ids[src])
				quiet(func() { svc.Release(src) })
				obs = append(obs, GNone)
				continue
			}
			if err := svc.Delete(src); err != nil {
				fail(i, "Delete of the exclusively locked partition %d: %v", ids[src], err)
			}
			obs = append(obs, GSome(GSome(GTuple(GNat(ids[src]), "[]", GBool(true)))))
			for k, v := range ref {
				if v == src {
					delete(ref, k)
				}
			}
			delete(live, src)
			delete(partMaps, ids[src])
			ndel++
		default:
			return nil, fmt.Errorf("ops: unknown operation %q", op.K)
		}
	}
	liveIds := map[string]int{}
	for src := range live {
		liveIds[src] = ids[src]
	}
	var visits []string
	for _, q := range rp.Sources {
		src, err := rParseSource(q)
		if err != nil {
			continue
		}
		vo := doVisitF(svc, src, ids, (len(visits)%2)*tindex.VF_SKIP_IF_LOCKED)
		var items []string
		for _, id := range vo.ids {
			items = append(items, GNat(id))
		}
		visits = append(visits, GPair(gSource(src, t), gVres(vo.kind, items)))
		if cs.Oracle == nil {
			cs.Oracle = selectionOracle(q, src, vo, partMaps)
		}
		if vo.kind == "panic" {
			break
		}
	}
	cs.Coq = GApp("KOps", t.render(), GList(gops), GList(obs), GList(visits))
	if rp.Restart {
		var liveCalls []callRes
		var liveTexts []string
		for k, c := range calls {
			if ref[mapKey(c.retMap)] == c.src {
				liveCalls = append(liveCalls, c)
				liveTexts = append(liveTexts, texts[k])
			}
		}
		cs.Tags = append(cs.Tags, restartOracle(cs, dir, liveTexts, liveCalls, liveIds, partMaps))
	}
	cs.Tags = append(cs.Tags, fmt.Sprintf("ops:deleted-%d", ndel))
	cs.NonTrivial = len(ids) >= 2
	return cs, nil
}

// within runs f and reports whether it returned in time; a panic of f is passed on
func within(d time.Duration, f func()) bool {
	done := make(chan interface{}, 1)
	go func() {
		defer func() { done <- recover() }()
		f()
	}()
	select {
	case r := <-done:
		if r != nil {
			panic(r)
		}
		return true
	case <-time.After(d):
		return false
	}
}

func showOps(ops []Op) string {
	var q []string
	for _, o := range ops {
		switch o.K {
		case "del":
			q = append(q, fmt.Sprintf("del(#%d)", o.I))
		default:
			f := ""
			if o.Fault {
				f = "!"
			}
			q = append(q, o.K+f+"("+show(string(o.T))+")")
		}
	}
	return "[" + strings.Join(q, " ") + "]"
}

// genOps: 2-4 sets whose line denotes them, 6-14 operations over proper spellings and lines
func genOps(r *Rng) Replay {
	var sets [][]kv
	for len(sets) < r.Range(2, 4) {
		ps := genSet(r, r.PickInt(0, 10, 30))
		ok := true
		quiet(func() {
			m := toMap(ps)
			back, err := rToMap(lineOf(m))
			ok = classifyTags(m) == "" && err == nil && mapKey(back) == mapKey(m) && utf8.ValidString(lineOf(m))
		})
		if ok {
			sets = append(sets, ps)
		}
	}
	var ops []Op
	n := r.Range(6, 14)
	for i := 0; i < n; i++ {
		ps := sets[r.Intn(len(sets))]
		txt := spell(r, ps, true)
		if r.Chance(1, 4) {
			txt = lineOf(toMap(ps))
		}
		x := r.Intn(10)
		switch {
		case x < 5:
			ops = append(ops, Op{K: "call", T: []byte(txt), Fault: r.Chance(1, 8)})
		case x < 8:
			ops = append(ops, Op{K: "get", T: []byte(txt)})
		default:
			if i > 0 {
				ops = append(ops, Op{K: "del", I: r.Intn(i)})
			}
		}
	}
	var srcs []string
	for k := r.Range(2, 4); k > 0; k-- {
		srcs = append(srcs, genSource(r, sets))
	}
	return Replay{Kind: "ops", Ops: ops, Sources: srcs, Restart: r.Chance(1, 2)}
}

func mkRace(rp Replay) (*Case, error) {
	svc := tindex.NewInmemServiceWithConfig(tindex.InMemConfig{DoNotSave: true})
	t := newTables()
	var texts []string
	for _, tb := range rp.Texts {
		texts = append(texts, string(tb))
		t.addText(string(tb))
		if m, e := rToMap(string(tb)); e == nil {
			t.addText(lineOf(m))
		}
	}
	var wg sync.WaitGroup
	var mu sync.Mutex
	srcs := map[string]bool{}
	start := make(chan struct{})
	for _, s := range texts {
		wg.Add(1)
		go func(s string) {
			defer wg.Done()
			<-start
			var src string
			var err error
			func() {
				defer func() {
					if r := recover(); r != nil {
						err = fmt.Errorf("panic: %v", r)
					}
				}()
				src, _, err = svc.GetOrCreateJournal(s)
			}()
			if err == nil {
				mu.Lock()
				srcs[src] = true
				mu.Unlock()
			}
		}(s)
	}
	close(start)
	wg.Wait()
	parts := 0
	svc.Visit(nil, func(ts tag.Set, jrnl string) bool { parts++; return true }, 0)
	cs := &Case{Stream: "race", Replay: rp, NonTrivial: len(texts) >= 2, Key: fmt.Sprintf("race-%p", &rp)}
	cs.Coq = GApp("KRace", t.render(), GListStr(texts), GNat(len(srcs)), GNat(parts))
	if len(srcs) != 1 || parts != 1 {
		cs.Oracle = &Violation{Class: "race-duplicate-partition", Detail: fmt.Sprintf("%d racing first writes of one tag set: %d distinct ids, %d partitions", len(texts), len(srcs), parts)}
	}
	return cs, nil
}

// mkCase runs one case; a panic of a call into the implementation becomes a case of its own (KPanicked, which the
// model never agrees with) with an oracle class naming the call, so that the replay holds the concrete input
func mkCase(rp Replay) (cs *Case, err error) {
	defer func() {
		if r := recover(); r != nil {
			cp, ok := r.(callPanic)
			if !ok {
				cp = callPanic{fn: "harness/" + rp.Kind, in: fmt.Sprint(rp.Texts, rp.Sources), val: fmt.Sprint(r)}
			}
			cs = &Case{Stream: rp.Kind, Replay: rp, NonTrivial: true,
				Coq:    GApp("KPanicked", GStr(cp.fn), GStr(cp.in)),
				Oracle: &Violation{Class: "panicked:" + cp.fn, Detail: fmt.Sprintf("%s(%s) panicked: %s", cp.fn, show(cp.in), cp.val)}}
			err = nil
		}
	}()
	return mkCase1(rp)
}

func mkCase1(rp Replay) (*Case, error) {
	switch rp.Kind {
	case "hist":
		return mkHist(rp)
	case "eval":
		return mkEval(rp)
	case "e2e":
		return mkE2E(rp)
	case "race":
		return mkRace(rp)
	case "ops":
		return mkOps(rp)
	case "limit":
		return mkLimit(rp)
	case "wrace":
		return mkWRace(rp)
	}
	return nil, fmt.Errorf("unknown case kind %q", rp.Kind)
}

func bs(ss ...string) [][]byte {
	out := make([][]byte, len(ss))
	for i, s := range ss {
		out[i] = []byte(s)
	}
	return out
}

// corpus: the witnesses of the _refuted theorems replayed on the real code
func corpus() []Replay {
	return []Replay{
		// the witness of C06_identity_refuted: the line of {a: x"y, b: z"w} is printed raw (TestTagLine) and is a text that
		// denotes {a: x"y,b=z"w}; that text is answered with the first partition, another spelling of its set gets a new one
		{Kind: "hist", Texts: bs(`a="x\"y",b="z\"w"`, `a=x"y,b=z"w`, `a="x\"y,b=z\"w"`), Sources: []string{"", "{a=x}"}},
		// one such value: the stored line is a text the parser rejects; the fast path answers it all the same
		{Kind: "hist", Texts: bs(`a="x\"y"`, `a=x"y`), Sources: []string{""}},
		// the witnesses of the repaired C08 classes: the line of {a: "x" with quotes} was a="x", a text that denotes {a: x};
		// the empty value and the value of two quote characters shared the line a="" and hence a partition.
		// With the line() of the code: three sets, three partitions / two sets, two partitions
		{Kind: "hist", Texts: bs(`a="\"x\""`, `a="x"`, `a=x`), Sources: []string{"", "{a=x}", "a=x"}},
		{Kind: "hist", Texts: bs(`a=""`, `a="\"\""`), Sources: []string{""}},
		{Kind: "hist", Texts: bs(`a=" x"`, `a=x`, `a="x}"`, `{a=x}}`, `a="x "`), Sources: []string{"", "{a=x}"}},
		// a partition for a value the quoting rule of line() is about exists BEFORE the raw text (a spelling of the
		// neighbouring set) is written: the raw-text fast path must not hit it; then the index is read back from its file
		{Kind: "hist", Texts: bs(`name="app "`, `name=app `, `name=app`, `{ name = "app" }`, `name="app "`, "name=`app `"),
			Sources: []string{`{name=app}`, `{name="app "}`, `name like "app*"`, ""}, Restart: true},
		{Kind: "hist", Texts: bs(`name="app ",zone=eu`, `name=app ,zone=eu`, `zone=eu,name=app`, `zone=eu,name="app "`),
			Sources: []string{`{name=app}`, `{name="app "}`, `{zone=eu}`}, Restart: true},
		{Kind: "hist", Texts: bs(`a=" x"`, `a= x`, `a=x`, `a="x  "`, `a=x  `, `a=" "`, `a= `, `a=""`), Sources: []string{"", `{a=x}`, `{a=" x"}`, `{a=""}`}, Restart: true},
		{Kind: "hist", Texts: bs("a=\"`x`\"", "a=`x`", `a=x`, `a="\"x\""`, `a="x"`), Sources: []string{"", `{a=x}`}, Restart: true},
		{Kind: "hist", Texts: bs(`b=1,a="x}"`, `a=x},b=1`, `b=1,a=x`, `z="x}"`, `z=x}`, `{z=x}`, `z=x`), Sources: []string{"", `{a=x}`, `{z=x}`}, Restart: true},
		// a value with a line feed: its line is a quoted literal; the raw spelling denotes the same set
		{Kind: "hist", Texts: bs("a=\"new\\nline\",b=c", "b=c,a=new\nline", "a=\"new\\nline\"", "a=new\nline"), Sources: []string{"", `{b=c}`}, Restart: true},
		// names and values that differ only in the case of a letter are different; a name given twice: the later value counts
		{Kind: "hist", Texts: bs(`name=app`, `Name=app`, `name=App`, `NAME=app`, `name=app`, `name=x,name=app`, `name=app,name=x`, `name=x`),
			Sources: []string{`{name=app}`, `{Name=app}`, `name=app`, `Name=app`, `upper(name)=APP`, `lower(name)=app`, `name like "[aA]pp"`}, Restart: true},
		// texts that denote no set: empty, blanks, empty braces; a lone pair with the empty value is a set
		{Kind: "hist", Texts: bs(``, ` `, `{}`, `{ }`, `a=`, `{a=}`, `a=""`, `=1`), Sources: []string{"", `{a=""}`, `a=""`}, Restart: true},
		// 130 partitions (more than the visit's initial buffer of 100), sources that select one, a range and all of them
		func() Replay {
			var ts []string
			for i := 0; i < 130; i++ {
				ts = append(ts, fmt.Sprintf("i=%03d,g=%d", i, i%2))
			}
			return Replay{Kind: "hist", Texts: bs(ts...), Sources: []string{"", `{i=007}`, `{g=1}`, `i >= "064" AND i < "070"`, `i > "128"`, `i <= "000"`, `NOT g=0`}, Restart: true}
		}(),
		// FROM {k=""}: a missing tag is not a tag with the empty value
		{Kind: "hist", Texts: bs(`name=app1`, `name=app2,zone=""`, `name=app3,zone=z`), Sources: []string{`{zone=""}`, `{rack=""}`, `{name=app2,zone=""}`, `{zone=z}`}, Restart: true},
		{Kind: "hist", Texts: bs(`name=app1,ip=1`, `{ ip = "1" , name=app1 }`, `ip=1,name=app1`, `ip=2,name=app1`, `name=app1`),
			Sources: []string{"{name=app1}", "{name=app1,ip=2}", "name=app1 AND NOT ip=1", "ip like \"[\"", "name=app1 and ip like \"[\"", "upper(name) = APP1", ""}},
		{Kind: "eval", Sources: []string{`name = a AND ip like "["`}, Sets: bs(`name=a,ip=1`, `name=b`)},
		{Kind: "eval", Sources: []string{`ip like "["`}, Sets: bs(`name=a,ip=1`)},
		{Kind: "eval", Sources: []string{`NOT ip like "[" OR name=a`}, Sets: bs(`name=a,ip=1`)},
		{Kind: "eval", Sources: []string{`lower(upper(name)) prefix ab or zone suffix c and not (a < b)`}, Sets: bs(`name=ABc,zone=abc`, `a=a`, `name=x`)},
		{Kind: "race", Texts: bs(`a=1,b=2`, `b=2,a=1`, `{a="1", b=2}`, `a=1,b=2`)},
		// unquoted values ending in a backslash (outside a string the backslash is an ordinary byte)
		{Kind: "hist", Texts: bs(`dir=C:\logs\,name=app`, `a=b\`, `name=app,dir="C:\\logs\\"`, `a\=b`), Sources: []string{"", "{name=app}"}},
		// the index cannot be saved during the first write of a new set: nothing is left behind, a later write creates it
		{Kind: "hist", Texts: bs(`a=1`, `b=2`, `b=2`, `a=1`, `{b="2"}`), Faults: []bool{false, true, false, true, true},
			Sources: []string{"", "{b=2}", "b=2", "a=1 OR b=2"}},
		{Kind: "e2e", Texts: bs(`a=1`, `b=2`, `b=2`, `c=3`), Faults: []bool{false, true, false, true},
			Sources: []string{"", "{b=2}", "b=2", "c=3"}, Show: []string{"select", "show", "select", "show"}},
	}
}

func main() {
	Main("C06", "C06K", func(c *Ctx) error {
		if c.Replay != nil {
			var rp Replay
			if err := FromJSON(c.Replay, &rp); err != nil {
				return err
			}
			cs, err := mkCase(rp)
			if err != nil {
				return err
			}
			if cs != nil {
				c.Add(*cs)
			}
			return c.Finish(rule)
		}
		r := c.Rng
		jobs := corpus()
		for i := 0; i < c.N(150); i++ {
			pSpecial := r.PickInt(0, 10, 30)
			nsets := r.Range(2, 4)
			var sets [][]kv
			for k := 0; k < nsets; k++ {
				sets = append(sets, genSet(r, pSpecial))
			}
			var texts [][]byte
			n := r.Range(4, 10)
			for k := 0; k < n; k++ {
				ps := sets[r.Intn(nsets)]
				x := r.Intn(10)
				switch {
				case x < 5:
					texts = append(texts, []byte(spell(r, ps, true)))
				case x < 7:
					texts = append(texts, []byte(spell(r, ps, false)))
				case x < 9:
					// the printed line of the set, and a proper spelling of what that line denotes
					ln := ""
					quiet(func() { ln = lineOf(toMap(ps)) })
					texts = append(texts, []byte(ln))
					var m map[string]string
					err := fmt.Errorf("not parsed")
					quiet(func() { m, err = rToMap(ln) })
					if err == nil && r.Chance(1, 2) {
						var ps2 []kv
						for _, k := range sortedKeys(m) {
							ps2 = append(ps2, kv{k, m[k]})
						}
						texts = append(texts, []byte(spell(r, ps2, true)))
					}
				default:
					texts = append(texts, genStr(r, 8, 40))
				}
			}
			var srcs []string
			for k := r.Range(2, 5); k > 0; k-- {
				srcs = append(srcs, genSource(r, sets))
			}
			faults := make([]bool, len(texts))
			if r.Chance(1, 2) {
				for k := range faults {
					faults[k] = r.Chance(1, 5)
				}
			}
			jobs = append(jobs, Replay{Kind: "hist", Texts: texts, Faults: faults, Sources: srcs, Restart: r.Chance(1, 3)})
		}
		for i := 0; i < c.N(40); i++ {
			jobs = append(jobs, genNeighbours(r))
		}
		for i := 0; i < c.N(350); i++ {
			var sets [][]kv
			var stexts [][]byte
			for k := 0; k < 4; k++ {
				ps := genSet(r, 8)
				if r.Chance(1, 2) {
					// values the expression pools can hit
					for j := range ps {
						ps[j].v = r.PickStr("a", "abc", "ABC", "ab", "b", "", "x", "a b", "10", "1", "A", "9", "2", "aB", "abd", "\xff", "a\x00",
							"/var/log/x", "/var/log/nginx/access.log", "a/b/c", "a/b", "a/", "/", "a*", "a\\b", "a[b]", "a?c", "ab/c")
					}
				}
				sets = append(sets, ps)
				stexts = append(stexts, []byte(setText(ps)))
			}
			jobs = append(jobs, Replay{Kind: "eval", Sources: []string{genSource(r, sets)}, Sets: stexts})
		}
		for i := 0; i < c.N(5); i++ {
			nsets := r.Range(2, 4)
			var sets [][]kv
			for k := 0; k < nsets; k++ {
				sets = append(sets, genSet(r, 0))
			}
			var texts [][]byte
			for k := r.Range(4, 8); k > 0; k-- {
				texts = append(texts, []byte(spell(r, sets[r.Intn(nsets)], true)))
			}
			var srcs, shows []string
			for k := r.Range(3, 6); k > 0; k-- {
				srcs = append(srcs, genSource(r, sets))
				shows = append(shows, r.PickStr("show", "select"))
			}
			faults := make([]bool, len(texts))
			for k := range faults {
				faults[k] = r.Chance(1, 4)
			}
			jobs = append(jobs, Replay{Kind: "e2e", Texts: texts, Faults: faults, Sources: srcs, Show: shows})
		}
		// look-up without creation, deletion and re-creation
		jobs = append(jobs,
			Replay{Kind: "ops", Restart: true, Sources: []string{"", "{a=1}", "b=2"},
				Ops: []Op{{K: "get", T: []byte(`a=1,b=2`)}, {K: "call", T: []byte(`a=1,b=2`)}, {K: "get", T: []byte(`{ b ="2",a=1}`)},
					{K: "call", T: []byte(`c=3`)}, {K: "del", I: 1}, {K: "get", T: []byte(`a=1,b=2`)}, {K: "del", I: 1},
					{K: "call", T: []byte(`b=2,a=1`)}, {K: "get", T: []byte(`a=1,b=2`)}, {K: "get", T: []byte(`c=3`)}, {K: "get", T: []byte(`c=4`)}}},
			Replay{Kind: "ops", Restart: true, Sources: []string{"", `{name="app "}`},
				Ops: []Op{{K: "call", T: []byte(`name="app "`)}, {K: "get", T: []byte(`name=app`)}, {K: "call", T: []byte(`name=app`)},
					{K: "del", I: 0}, {K: "get", T: []byte(`name="app "`)}, {K: "get", T: []byte(`name=app `)}, {K: "call", T: []byte(`name="app "`), Fault: true},
					{K: "call", T: []byte(`{name="app "}`)}}})
		for i := 0; i < c.N(50); i++ {
			jobs = append(jobs, genOps(r))
		}
		// LIKE is path.Match: `*` and `?` stay within one '/'-separated segment
		for _, q := range []string{`name LIKE "/var/log/*"`, `name like "/var/*/x"`, `name LIKE "*/access.log"`, `name LIKE "/var/log/*/*"`, `name LIKE "a*"`,
			`name LIKE "a/*"`, `name LIKE "*"`, `name LIKE "*/*"`, `name LIKE "/*"`, `name LIKE "a/?/c"`, `NOT name LIKE "/var/*" AND name LIKE "/*/*/*"`,
			`upper(name) LIKE "/VAR/LOG/*"`, `name LIKE "a\\*"`, `name LIKE "a[/]b*"`} {
			jobs = append(jobs, Replay{Kind: "eval", Sources: []string{q},
				Sets: bs(`name="/var/log/x"`, `name="/var/log/nginx/access.log"`, `name="a/b/c"`, `name="a/b"`, `name=a`, `name="a*"`, `name="/"`, `name=""`, `ip=1`)})
		}
		jobs = append(jobs, Replay{Kind: "hist", Texts: bs(`name="/var/log/x"`, `name="/var/log/nginx/access.log"`, `name="a/b/c"`, `name=abc`),
			Sources: []string{`name LIKE "/var/log/*"`, `name LIKE "a*"`, `name LIKE "*"`, `name LIKE "/var/*/*/*"`, `{name="a/b/c"}`}, Restart: true})
		// NOT in front of a parenthesised group without OR: the printed source must keep the group
		for _, q := range []string{`NOT (name=app1 AND ip=1)`, `NOT (name=app1 AND ip=1) AND zone=z`, `zone=z AND (name=app1 AND ip=1)`, `NOT (NOT (name=app1 AND ip=1))`, `NOT (name=app1 OR ip=1)`} {
			jobs = append(jobs, Replay{Kind: "eval", Sources: []string{q}, Sets: bs(`name=app1,ip=1,zone=z`, `name=app1,ip=2,zone=z`, `name=app2,ip=1`, `zone=z`)})
		}
		// sources the parser cannot produce, applied to four sets
		for i := range astCorpus() {
			jobs = append(jobs, Replay{Kind: "eval", AST: i + 1, Sets: bs(`a=x`, `a=X,b=1`, `b=x`, `a=""`)})
		}
		// the 50-partition limit of a query
		for _, n := range []int{49, 50, 51} {
			jobs = append(jobs, Replay{Kind: "limit", Writers: n})
		}
		// racing writers through the whole write path, with a reader
		for i := 0; i < c.N(3); i++ {
			w := r.Range(3, 6)
			var texts [][]byte
			for k := r.Range(2, 3); k > 0; k-- {
				var ps []kv
				for {
					ps = genSet(r, 10)
					if classifyTags(toMap(ps)) == "" && utf8.ValidString(lineOf(toMap(ps))) {
						break
					}
				}
				for j := 0; j < w; j++ {
					texts = append(texts, []byte(spell(r, ps, true)))
				}
			}
			jobs = append(jobs, Replay{Kind: "wrace", Texts: texts, Writers: w})
		}
		for i := 0; i < c.N(12); i++ {
			ps := genSet(r, 10)
			var texts [][]byte
			for k := r.Range(2, 8); k > 0; k-- {
				texts = append(texts, []byte(spell(r, ps, true)))
			}
			jobs = append(jobs, Replay{Kind: "race", Texts: texts})
		}
		res := make([]*Case, len(jobs))
		errs := make([]error, len(jobs))
		Parallel(len(jobs), 6, func(i int) { res[i], errs[i] = mkCase(jobs[i]) })
		skipped := 0
		for i := range jobs {
			if errs[i] != nil {
				return errs[i]
			}
			if res[i] == nil {
				skipped++
				continue
			}
			c.Add(*res[i])
		}
		c.Note("sources_not_in_the_language_skipped", skipped)
		return c.Finish(rule)
	})
}

func toMap(ps []kv) map[string]string {
	m := map[string]string{}
	for _, p := range ps {
		m[p.k] = p.v
	}
	return m
}

func lineOf(m map[string]string) string {
	set := tag.MapToSet(m)
	return string(set.Line())
}
