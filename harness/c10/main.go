// C10 harness: pipes end-to-end on an in-process server. Scenarios (sources, pipes with source condition
// and filter, waves of writes, create/delete mid-history, delete + re-creation under the same name, requests
// refused half-way, clean restarts, two first writers whose
// notifications are inverted with the partition schedule hook, worker idle time-out with a re-arm)
// are generated from one PRNG, executed against the real server, and for every (pipe, source) pair the
// destination events carrying that source's provenance are recorded as a C10K.case. The oracle O
// evaluates the property itself on what was written and what the destination holds.
package main

import (
	"context"
	"fmt"
	"io"
	"math"
	"os"
	"path"
	"reflect"
	"runtime"
	"sort"
	"strconv"
	"strings"
	"sync"
	"sync/atomic"
	"time"
	"unsafe"

	"github.com/logrange/logrange/pkg/cursor"
	"github.com/logrange/logrange/pkg/model"
	"github.com/logrange/logrange/pkg/model/field"
	"github.com/logrange/logrange/pkg/model/tag"
	"github.com/logrange/logrange/pkg/partition"
	"github.com/logrange/logrange/pkg/pipe"
	"github.com/logrange/range/pkg/records/chunk/chunkfs"
	"github.com/logrange/range/pkg/records/journal"
	"github.com/logrange/range/pkg/utils/fileutil"
	. "verifharness/common"
)

// ---------------------------------------------------------------- scenario

type Ev struct {
	Ts  int64  `json:"t"`
	Msg string `json:"m"`
	// MsgHex: the message in hex, for bytes JSON text cannot carry (invalid UTF-8); replaces Msg when the scenario is loaded
	MsgHex string      `json:"mx,omitempty"`
	Flds   [][2]string `json:"f,omitempty"`
	Keep   bool        `json:"k"`
}

type Batch struct {
	Src int  `json:"s"`
	Evs []Ev `json:"e"`
	// Refused > 0: the request carries, behind Evs, one event bigger than the server's MaxRecordSize and Refused-1
	// more ordinary events: the server stores Evs, refuses the request (Write returns an error) and stores nothing
	// of what follows. Evs is what the source partition holds afterwards.
	Refused int `json:"refused,omitempty"`
	// Fat > 0: Evs[Fat-1] is an event whose record is exactly MaxRecordSize bytes: the source stores it, its copy with the
	// provenance fields exceeds the limit and the destination refuses it every time
	Fat int `json:"fat,omitempty"`
}

type PipeDef struct {
	Name  string `json:"name"`
	From  string `json:"from"`
	Where string `json:"where"`
	// Match[i]: does source i satisfy From (known by construction of From)
	Match []bool `json:"match"`
	// FKind: "" accepts everything, "K": msg contains "K", "E": fields:env = "x" (env is also a tag of every source)
	FKind string `json:"fkind"`
	// Epoch > 0: this pipe is created under the SAME name as Pipes[Epoch-1], after that one was deleted
	Epoch int `json:"epoch,omitempty"`
	// NameKind: shape of the name ("" plain p<n>; others contain characters the pipe's state-file name escapes or
	// the grammar allows besides letters and digits), see pipeNameOf
	NameKind string `json:"nk,omitempty"`
}

type Step struct {
	Kind    string  `json:"kind"` // wave | create | delete | delete-held | restart | race | stale | rearm | admin | truncate
	Pipe    int     `json:"pipe,omitempty"`
	Src     int     `json:"src,omitempty"` // truncate: the source partition
	Batches []Batch `json:"batches,omitempty"`
	// wave: writers of different sources run concurrently; Par: also the batches of one source
	Par bool `json:"par,omitempty"`
	// wave: make the data readable before the notifications go out (writers held at the schedule point)
	FlushFirst bool `json:"flushfirst,omitempty"`
	// wave before any pipe exists: leave the data unreadable (acknowledged, not flushed)
	NoSync bool `json:"nosync,omitempty"`
}

type Scenario struct {
	Chunk  int64 `json:"chunk"`
	MaxRec int64 `json:"maxrec,omitempty"` // MaxRecordSize of the scenario's server (0: default)
	// Cleaner: a second pipesCleaner goroutine with a period of milliseconds runs beside everything (the service's own
	// starts after one minute)
	Cleaner bool `json:"cleaner,omitempty"`
	// NoBarrier: the harness's sentinel pipe (FROM barrier=b) is not created: the scenario's pipe is the ONLY pipe of the
	// server. Only for scenarios that create the pipe before anything is written and write sequentially.
	NoBarrier bool          `json:"nobarrier,omitempty"`
	Sources   [][][2]string `json:"sources"` // tag pairs sorted by key
	Pipes     []PipeDef     `json:"pipes"`
	Steps     []Step        `json:"steps"`
	Stream    string        `json:"stream"`
}

const deadline = 15 * time.Second

// scenarios that already ended with a verdict (other than the recorded classes); once there are several the
// remaining scenarios are skipped: every missed wake-up costs a full deadline
var badScenarios int32

// ---------------------------------------------------------------- hook (schedule point in partition.Service.Write)

type gate struct {
	armed   int // how many more arrivals are held
	arrived chan struct{}
	release chan struct{}
}

var (
	gatesMu sync.Mutex
	gates   = map[string]*gate{}
)

// burst steps: how many writers of the step's sources have come to send their WriteEvent (one counter per step)
var burstArrivals = map[string]*int{}

func hook(point, src string) {
	if point != "write-event" {
		return
	}
	gatesMu.Lock()
	if c := burstArrivals[src]; c != nil {
		*c++
	}
	g := gates[src]
	var hold bool
	if g != nil && g.armed > 0 {
		g.armed--
		hold = true
	}
	gatesMu.Unlock()
	if hold {
		g.arrived <- struct{}{}
		<-g.release
	}
}

// schedule point at the top of ppipe.saveState (pkg/pipe hook): a worker of pipe `pipe` that has copied records of
// source `src` and is about to save its position. One-shot gates: the goroutine that arrives reports its id and waits.
type saveGate struct {
	arrived chan int64
	release chan struct{}
}

var saveGates = map[string]*saveGate{}

// how often a worker of (pipe, source) came to save its position
var saveHits = map[string]int{}

func saveHitCount(pname, src string) int {
	gatesMu.Lock()
	defer gatesMu.Unlock()
	return saveHits[pname+"\x00"+src]
}

// TRUNCATE steps that removed the partition / only its chunks
var truncDeleted, truncKept int32

// burst steps taken, and the most WriteEvents seen waiting in the channel when the notificatior was released
var burstSteps, burstMaxPending int32

func pipeHook(point, pname, src string) {
	if point != "pipe-save-state" {
		return
	}
	k := pname + "\x00" + src
	gatesMu.Lock()
	saveHits[k]++
	g := saveGates[k]
	if g != nil {
		delete(saveGates, k)
	}
	gatesMu.Unlock()
	if g != nil {
		g.arrived <- goid()
		<-g.release
	}
}

func armSave(pname, src string) *saveGate {
	g := &saveGate{arrived: make(chan int64, 1), release: make(chan struct{})}
	gatesMu.Lock()
	saveGates[pname+"\x00"+src] = g
	gatesMu.Unlock()
	return g
}

func disarmSave(pname, src string) {
	gatesMu.Lock()
	delete(saveGates, pname+"\x00"+src)
	gatesMu.Unlock()
}

// goid: the id of the calling goroutine, read off its own stack dump ("goroutine 123 [running]:")
func goid() int64 {
	buf := make([]byte, 64)
	n := runtime.Stack(buf, false)
	f := strings.Fields(string(buf[:n]))
	if len(f) < 2 {
		return -1
	}
	id, err := strconv.ParseInt(f[1], 10, 64)
	if err != nil {
		return -1
	}
	return id
}

// ---------------------------------------------------------------- helpers

func tagLine(t [][2]string) string {
	var sb strings.Builder
	for i, kv := range t {
		if i > 0 {
			sb.WriteByte(',')
		}
		sb.WriteString(kv[0] + "=" + tagValue(kv[1]))
	}
	return sb.String()
}

// tagValue writes a tag value for tag.Parse: plain words as they are, everything else as a quoted literal
func tagValue(v string) string {
	plain := len(v) > 0
	for i := 0; i < len(v); i++ {
		c := v[i]
		if !(c >= 'a' && c <= 'z' || c >= 'A' && c <= 'Z' || c >= '0' && c <= '9') {
			plain = false
		}
	}
	if plain {
		return v
	}
	return strconv.Quote(v)
}

func gPairs(p [][2]string) string {
	it := make([]string, len(p))
	for i, kv := range p {
		it[i] = GPair(GStr(kv[0]), GStr(kv[1]))
	}
	return GList(it)
}

func gEvent(e Ev) string {
	return fmt.Sprintf("{| e_ts := %s; e_msg := %s; e_flds := %s; e_keep := %s |}", GZ(e.Ts), GStr(e.Msg), gPairs(e.Flds), GBool(e.Keep))
}

// gEvents renders events for the model of one pipe: e_keep is the verdict of that pipe's filter
func gEvents(p *pipeRun, evs []Ev) string {
	it := make([]string, len(evs))
	for i, e := range evs {
		if p.def.FKind == "" {
			e.Keep = true
		}
		it[i] = gEvent(e)
	}
	return GList(it)
}

type DEv struct {
	Ts   int64
	Msg  string
	Flds [][2]string
}

func gDEvent(e DEv) string {
	return fmt.Sprintf("{| d_ts := %s; d_msg := %s; d_flds := %s |}", GZ(e.Ts), GStr(e.Msg), gPairs(e.Flds))
}

// writePartial sends one request: b.Evs, then (b.Refused > 0) an oversized event and b.Refused-1 ordinary ones. With
// Refused > 0 the server must refuse the request; a nil error is then reported as a harness error.
func writePartial(srv *Server, tags string, b []Ev, refused int, maxRec int64) error {
	if refused <= 0 {
		return writeBatch(srv, tags, b)
	}
	if maxRec <= 0 {
		return fmt.Errorf("a refused request needs a scenario with maxrec")
	}
	evs := append([]Ev{}, b...)
	last := int64(0)
	if len(b) > 0 {
		last = b[len(b)-1].Ts
	}
	// one byte more than the limit (odd Refused) or well beyond it
	n := int(maxRec) + 50
	if refused%2 == 1 {
		for n > 0 && int64((&model.LogEvent{Timestamp: last, Msg: []byte(strings.Repeat("B", n-1))}).WritableSize()) > maxRec {
			n--
		}
	}
	evs = append(evs, Ev{Ts: last, Msg: strings.Repeat("B", n)})
	for i := 1; i < refused; i++ {
		evs = append(evs, Ev{Ts: last, Msg: fmt.Sprintf("never%d", i)})
	}
	if err := writeBatch(srv, tags, evs); err == nil {
		return fmt.Errorf("a request with a record of %d message bytes was accepted with MaxRecordSize %d", n, maxRec)
	}
	return nil
}

func writeBatch(srv *Server, tags string, evs []Ev) error {
	les := make([]model.LogEvent, len(evs))
	for i, e := range evs {
		var fl []string
		for _, kv := range e.Flds {
			fl = append(fl, kv[0], kv[1])
		}
		f, err := field.NewFieldsFromSlice(fl...)
		if err != nil {
			return err
		}
		les[i] = model.LogEvent{Timestamp: e.Ts, Msg: []byte(e.Msg), Fields: f}
	}
	ts, err := tag.Parse(tags)
	if err != nil {
		return err
	}
	it := (&model.LogEventIterator{}).Wrap(ts.Line(), model.NewTestLogEventsWrapper(les))
	return srv.Partitions.Write(context.Background(), tags, it, false)
}

// readAll reads a whole partition selection through a cursor of its own. Timestamp, message and fields are taken as
// stored: the fields are decoded from their binary form ([len]name[len]value...), not from a text rendering, so names and
// values may hold any bytes.
func readAll(srv *Server, from string) ([]DEv, error) {
	ctx := context.Background()
	cur, err := srv.Provider.GetOrCreate(ctx, cursor.State{Query: "select from " + from + " limit 1000000"}, false)
	if err != nil {
		if strings.Contains(err.Error(), "no sources") {
			return nil, nil
		}
		return nil, err
	}
	defer srv.Provider.Release(ctx, cur)
	var res []DEv
	for {
		le, _, err := cur.Get(ctx)
		if err == io.EOF {
			return res, nil
		}
		if err != nil {
			return nil, err
		}
		f := string(append([]byte{}, le.Fields...))
		var fl [][2]string
		for i := 0; i < len(f); {
			n := int(f[i])
			if i+1+n >= len(f) {
				return nil, fmt.Errorf("fields of an event of %s are not [len]name[len]value...: %q", from, f)
			}
			k := f[i+1 : i+1+n]
			i += n + 1
			m := int(f[i])
			if i+1+m > len(f) {
				return nil, fmt.Errorf("fields of an event of %s are not [len]name[len]value...: %q", from, f)
			}
			fl = append(fl, [2]string{k, f[i+1 : i+1+m]})
			i += m + 1
		}
		res = append(res, DEv{Ts: le.Timestamp, Msg: string(append([]byte{}, le.Msg...)), Flds: fl})
		cur.Next(ctx)
	}
}

// readDst reads a pipe's destination without the sentinel events of the harness's barrier partition (a pipe
// with an empty source condition copies those too)
func readDst(srv *Server, name string) ([]DEv, error) {
	all, err := readAll(srv, "logrange.pipe="+name)
	if err != nil {
		return nil, err
	}
	var res []DEv
	for _, e := range all {
		if !hasSuffix(e.Flds, [][2]string{{"barrier", "b"}}) {
			res = append(res, e)
		}
	}
	return res, nil
}

func jrnl(srv *Server, src string) (journal.Journal, error) {
	return srv.JCtrl.(journal.Controller).GetOrCreate(context.Background(), src)
}

// endPos: (last chunk id, confirmed count) of a journal, and the confirmed total
func endPos(srv *Server, src string) (string, uint64) {
	j, err := jrnl(srv, src)
	if err != nil {
		return "", 0
	}
	cks, err := j.Chunks().Chunks(context.Background())
	if err != nil || len(cks) == 0 {
		return "", 0
	}
	last := cks[len(cks)-1]
	return journal.Pos{CId: last.Id(), Idx: last.Count()}.String(), j.Count()
}

func srcId(srv *Server, tags string) (string, error) {
	src, _, err := srv.TIndex.GetOrCreateJournal(tags)
	if err != nil {
		return "", err
	}
	srv.TIndex.Release(src)
	return src, nil
}

// ---------------------------------------------------------------- execution

type pipeRun struct {
	def      PipeDef
	created  bool
	deleted  bool
	pre      []int      // per source: events in the source when the pipe was created
	preFl    []int      // per source: how many of them were readable at that moment
	ops      [][]string // per source: Coq sop terms
	seen     []bool     // per source: a notification of it reached the pipe
	raceLost [][]Ev     // per source: the batch whose notification was inverted (first writer)
	stale    [][]Ev     // per source: written before the pipe existed, notified after
	dstAtDel int        // destination size when the pipe was deleted
	postDel  bool       // something matching was written after deletion
	nontriv  bool
	// epochs of one name: prev = the deleted pipe this one re-creates; base = per source, how many events of it the
	// destination held when this pipe was created; a pipe that was re-created is superseded: its observation is
	// frozen (what the destination held, per source, right before the re-creation)
	heldDel bool // deleted while one of its workers stood between its journal write and saveState
	// a deleted pipe that the server lists again after a clean restart, and whether something matching was written since
	resurrected, writtenSinceBack bool
	// per source: index in the source's history of the record whose copy the destination refuses (-1: none), the length
	// of the history when the request with that record was written, and the restarts + writes since
	blocked    []int
	blockBase  []int
	reblocked  []int
	pendingRe  []bool
	prev       *pipeRun
	base       []int
	superseded bool
	frozen     [][]DEv
}

type runner struct {
	sc         *Scenario
	srv        *Server
	dir        string
	srcIds     []string
	written    [][]Ev // per source, journal order
	pipes      []*pipeRun
	viol       *Violation
	lastSettle time.Time
	flushed    []int  // per source: readable events
	trunc      []int  // per source: events removed from the front by TRUNCATE
	emptied    []bool // per source: truncated to nothing and not written since
	barName    string
	barSrc     string
	barTs      int64
}

func (r *runner) fail(class, detail string) {
	if r.viol == nil {
		r.viol = &Violation{Class: class, Detail: detail}
	}
}

func (r *runner) livePipes() []*pipeRun {
	var res []*pipeRun
	for _, p := range r.pipes {
		if p.created && !p.deleted {
			res = append(res, p)
		}
	}
	return res
}

// parkedHits: how often a waiter goroutine of a cursor reached the "wait-new-data" schedule point, per journal
var (
	hitsMu sync.Mutex
	hits   = map[string]int{}
)

func waitHook(point, src string) {
	if point != "wait-new-data" {
		return
	}
	hitsMu.Lock()
	hits[src]++
	hitsMu.Unlock()
}

func hitCount(src string) int {
	hitsMu.Lock()
	defer hitsMu.Unlock()
	return hits[src]
}

// The chunk writers' flush timer is set far beyond the time a scenario leaves data unflushed; the harness decides when the
// data of a wave becomes readable (journal.Sync) and does so only while no pipe worker is between its
// end-of-data check and its wait (either all workers are parked in WaitNewData, or the writers are still
// held in front of their WriteEvent). This keeps the reader-side race recorded under C11
// (reader-eof-count-reread-skips-records) out of the C10 runs, so that any lost event here is a verdict.
// (5 s: a chunk writer that was signalled sits in its flush wait for this long even after an explicit Sync and after
// its server was stopped, holding two descriptors; a scenario never leaves data unflushed for more than milliseconds)
const longFlushMs = 5000

// barrier: the WriteEvent channel is FIFO and the notificatior handles one event completely before it takes the
// next, so once the barrier pipe (FROM barrier=b) has seen the notification of a sentinel write, every
// earlier notification has been delivered to the pipes that existed when it was taken from the channel.
// Without this, events written (and acknowledged) before CREATE PIPE are copied whenever their notifications
// are still queued at that moment (see docs/C10.md, pipe-copied-pre-creation-events).
func (r *runner) barrier() error {
	if r.sc.NoBarrier {
		return nil
	}
	if r.barName == "" {
		r.barName = pipeName()
		if _, err := r.srv.Exec("CREATE PIPE " + r.barName + " FROM barrier=b"); err != nil {
			return err
		}
	}
	r.barTs++
	if err := writeBatch(r.srv, "barrier=b", []Ev{{Ts: r.barTs, Msg: "barrier"}}); err != nil {
		return err
	}
	if r.barSrc == "" {
		id, err := srcId(r.srv, "barrier=b")
		if err != nil {
			return err
		}
		r.barSrc = id
	}
	if j, err := jrnl(r.srv, r.barSrc); err == nil {
		j.Sync()
	}
	end, _ := endPos(r.srv, r.barSrc)
	if !WaitFor(deadline, func() bool {
		_, lkp, _, ok := r.srv.Pipes.VC10PipeState(r.barName, r.barSrc)
		return ok && lkp == end
	}) {
		// a verdict, not a harness failure: the write was acknowledged and its WriteEvent never reached a pipe whose
		// source condition it satisfies
		r.fail("pipe-notification-not-delivered", fmt.Sprintf("a write to partition barrier=b was not notified to pipe %s (FROM barrier=b) within %v: LastKnwnPos did not reach the written position", r.barName, deadline))
		return errVerdict
	}
	return nil
}

var errVerdict = fmt.Errorf("scenario ended by a verdict")

func minusOnes(n int) []int {
	res := make([]int, n)
	for i := range res {
		res[i] = -1
	}
	return res
}

func (r *runner) sid(s int) string {
	for _, kv := range r.sc.Sources[s] {
		if kv[0] == "sid" {
			return kv[1]
		}
	}
	return ""
}

// liveOn: the live pipes that copy from source s and are not stuck at a record of it (a stuck worker never parks)
func (r *runner) liveOn(s int) int {
	n := 0
	for _, p := range r.livePipes() {
		if p.def.Match[s] && p.blocked[s] < 0 {
			n++
		}
	}
	return n
}

// expectedStarts: how many workers the notifications of a write to source s will start (and that will park)
func (r *runner) expectedStarts(s int) int {
	n := 0
	for _, p := range r.livePipes() {
		if !p.def.Match[s] || p.blocked[s] >= 0 {
			continue
		}
		_, _, chg, ok := r.srv.Pipes.VC10PipeState(p.def.Name, r.srcIds[s])
		if !ok || !chg {
			n++
		}
	}
	return n
}

func (r *runner) syncSrc(s int) {
	if j, err := jrnl(r.srv, r.srcIds[s]); err == nil {
		j.Sync()
	}
}

// waitParked waits until the waiters of source s were entered `n` more times than `from`
func (r *runner) waitParked(s, from, n int) bool {
	return WaitFor(deadline, func() bool { return hitCount(r.srcIds[s])-from >= n })
}

// waitCaughtUp polls until every live pipe has, for every matching source that was written since the pipe
// exists, a descriptor with Pos == end of the source (LastKnwnPos is the EndPos of
// whichever notification was delivered last, not necessarily the end). Returns false at the deadline.
func (r *runner) waitCaughtUp(counts []int) bool {
	return WaitFor(deadline, func() bool {
		for _, p := range r.livePipes() {
			for i, id := range r.srcIds {
				if id == "" || !p.def.Match[i] || counts[i] <= p.pre[i] || p.blocked[i] >= 0 || r.emptied[i] {
					continue
				}
				end, _ := endPos(r.srv, id)
				pos, _, _, ok := r.srv.Pipes.VC10PipeState(p.def.Name, id)
				if !ok || pos != end {
					return false
				}
			}
		}
		return true
	})
}

func (r *runner) syncDst() {
	for _, p := range r.pipes {
		if !p.created {
			continue
		}
		if id, err := srcId(r.srv, "logrange.pipe="+p.def.Name); err == nil {
			if j, err := jrnl(r.srv, id); err == nil {
				j.Sync()
			}
		}
	}
}

func (r *runner) counts() []int {
	c := make([]int, len(r.written))
	for i := range r.written {
		c[i] = len(r.written[i])
	}
	return c
}

// settle: after the data of a wave was made readable -- pipes caught up (or verdict), source contents re-read in journal order
func (r *runner) settle(newBySrc map[int][]Ev, parkTarget map[int]int, what string) error {
	want := r.counts()
	for s, evs := range newBySrc {
		want[s] += len(evs)
	}
	for s := range newBySrc {
		if _, n := endPos(r.srv, r.srcIds[s]); int(n) != want[s]-r.trunc[s] {
			return fmt.Errorf("%s: source %d has %d readable events after Sync, %d written, %d truncated", what, s, n, want[s], r.trunc[s])
		}
	}
	cnt := r.counts()
	for s, evs := range newBySrc {
		cnt[s] += len(evs)
	}
	if err := r.barrier(); err != nil {
		return err
	}
	if !r.waitCaughtUp(cnt) {
		r.fail("pipe-not-caught-up", what+": a live pipe did not reach the end of a matching source within "+deadline.String())
	} else {
		// every worker that copied is back in its wait before the harness goes on (no flush may fall between a
		// worker's end-of-data check and its wait)
		for s, t := range parkTarget {
			id := r.srcIds[s]
			if !WaitFor(deadline, func() bool { return hitCount(id) >= t }) {
				r.fail("pipe-worker-not-parked", fmt.Sprintf("%s: the workers of source %d did not return to their wait", what, s))
			}
		}
	}
	// journal order of the new events of each source
	for s, evs := range newBySrc {
		got, err := readAll(r.srv, "sid="+r.sid(s))
		if err != nil {
			return err
		}
		if len(got) != want[s]-r.trunc[s] {
			return fmt.Errorf("%s: source %d holds %d events, %d written, %d truncated", what, s, len(got), want[s], r.trunc[s])
		}
		byKey := map[string]Ev{}
		for _, e := range evs {
			byKey[fmt.Sprintf("%d|%s", e.Ts, e.Msg)] = e
		}
		var ordered []Ev
		for _, g := range got[len(r.written[s])-r.trunc[s]:] {
			e, ok := byKey[fmt.Sprintf("%d|%s", g.Ts, g.Msg)]
			if !ok {
				return fmt.Errorf("%s: source %d returned an event that was not written: %v", what, s, g)
			}
			ordered = append(ordered, e)
		}
		r.written[s] = append(r.written[s], ordered...)
		r.flushed[s] = len(r.written[s])
		r.emptied[s] = false
		newBySrc[s] = ordered
	}
	return nil
}

func (r *runner) ensureSrc(s int) error {
	if r.srcIds[s] != "" {
		return nil
	}
	id, err := srcId(r.srv, tagLine(r.sc.Sources[s]))
	if err != nil {
		return err
	}
	r.srcIds[s] = id
	return nil
}

func (r *runner) start() error {
	var err error
	r.srv, err = StartServer(ServerOpts{Dir: r.dir, MaxChunkSize: r.sc.Chunk, MaxRecordSize: r.sc.MaxRec, WriteFlushMs: longFlushMs, NoRPC: true})
	if err == nil {
		// chunk writers keep their two files open until they were idle this long, also after the server was stopped
		// (default 30 s: ~10000 descriptors in a thorough run). The idle timer only runs while nothing is unflushed,
		// so it never makes data readable behind the harness's back. Read when a journal is created.
		r.srv.Cfg.JrnlCtrlConfig.WriteIdleSec = 2
		if r.sc.Cleaner {
			r.srv.Pipes.VC10RunPipesCleaner(0, 3*time.Millisecond)
		}
	}
	return err
}

func (r *runner) arm(s, n int) *gate {
	g := &gate{armed: n, arrived: make(chan struct{}, n), release: make(chan struct{})}
	gatesMu.Lock()
	gates[r.srcIds[s]] = g
	gatesMu.Unlock()
	return g
}

func (r *runner) disarm(s int) {
	gatesMu.Lock()
	delete(gates, r.srcIds[s])
	gatesMu.Unlock()
}

func (r *runner) run() error {
	sc := r.sc
	var err error
	r.dir = TempDir("c10")
	if err = r.start(); err != nil {
		return err
	}
	r.srcIds = make([]string, len(sc.Sources))
	r.written = make([][]Ev, len(sc.Sources))
	r.flushed = make([]int, len(sc.Sources))
	r.trunc = make([]int, len(sc.Sources))
	r.emptied = make([]bool, len(sc.Sources))
	for _, pd := range sc.Pipes {
		r.pipes = append(r.pipes, &pipeRun{def: pd, pre: make([]int, len(sc.Sources)), preFl: make([]int, len(sc.Sources)), ops: make([][]string, len(sc.Sources)),
			base: make([]int, len(sc.Sources)), blocked: minusOnes(len(sc.Sources)), blockBase: make([]int, len(sc.Sources)), reblocked: make([]int, len(sc.Sources)), pendingRe: make([]bool, len(sc.Sources)), seen: make([]bool, len(sc.Sources)), raceLost: make([][]Ev, len(sc.Sources)), stale: make([][]Ev, len(sc.Sources))})
	}
	for si, st := range sc.Steps {
		what := fmt.Sprintf("step %d (%s)", si, st.Kind)
		switch st.Kind {
		case "create":
			if err := r.barrier(); err != nil {
				return err
			}
			p := r.pipes[st.Pipe]
			if p.def.Epoch > 0 {
				// a pipe of this name existed and was deleted: its observation ends here
				if err := r.supersede(r.pipes[p.def.Epoch-1], p); err != nil {
					return fmt.Errorf("%s: %v", what, err)
				}
			}
			q := "CREATE PIPE " + p.def.Name
			if p.def.From != "" {
				q += " FROM " + p.def.From
			}
			if p.def.Where != "" {
				q += " WHERE " + p.def.Where
			}
			if _, err := r.srv.Exec(q); err != nil {
				return fmt.Errorf("%s: %v", q, err)
			}
			p.created = true
			copy(p.pre, r.counts())
			copy(p.preFl, r.flushed)
		case "delete":
			p := r.pipes[st.Pipe]
			for s := range sc.Sources {
				// a pipe whose worker copied something has saved its positions: the file the harness is going to watch exists
				if p.def.Match[s] && p.seen[s] && r.viol == nil {
					if _, err := os.Stat(stateFile(r.dir, p.def.Name)); err != nil {
						return fmt.Errorf("%s: pipe %s copied from source %d, but its saved positions are not in %s", what, p.def.Name, s, stateFile(r.dir, p.def.Name))
					}
					break
				}
			}
			// (A pipe with an empty source condition also copies the harness's sentinel events, partition barrier=b, and
			// nothing waits for that worker: it may stand anywhere in its loop now. ppipe.saveState refuses to save for a
			// deleted pipe, so that is harmless; the step delete-held below puts a worker there on purpose.)
			if _, err := r.srv.Exec("DELETE PIPE " + p.def.Name); err != nil {
				return err
			}
			// DeletePipe removes the saved positions of the name in a goroutine of its own (go p.delete()); a
			// CREATE PIPE of the same name that overtakes it would load them
			r.waitStateFileGone(p.def.Name)
			r.syncDst()
			d, err := readDst(r.srv, p.def.Name)
			if err != nil {
				return err
			}
			p.deleted = true
			p.dstAtDel = len(d)
			p.nontriv = true
			for s := range sc.Sources {
				if p.def.Match[s] {
					p.ops[s] = append(p.ops[s], "SDelete")
				}
			}
		case "delete-held":
			// DELETE PIPE while a worker of the pipe stands between Journals.Write (the batch is copied) and saveState:
			// the worker is held at the schedule point at the top of ppipe.saveState, the pipe is deleted, the harness
			// waits until the saved positions are removed, then the worker goes on.
			p := r.pipes[st.Pipe]
			b := st.Batches[0]
			s := b.Src
			if err := r.ensureSrc(s); err != nil {
				return err
			}
			id := r.srcIds[s]
			if !p.created || p.deleted || !p.def.Match[s] || !p.seen[s] {
				return fmt.Errorf("%s: needs a live pipe that has copied from source %d", what, s)
			}
			h0 := hitCount(id)
			starts := r.expectedStarts(s)
			live := 0
			for _, q := range r.livePipes() {
				if q.def.Match[s] {
					live++
				}
			}
			g := armSave(p.def.Name, id)
			if err := writeBatch(r.srv, tagLine(sc.Sources[s]), b.Evs); err != nil {
				disarmSave(p.def.Name, id)
				close(g.release)
				return err
			}
			if !r.waitParked(s, h0, starts) {
				r.fail("pipe-worker-not-started", fmt.Sprintf("%s: %d worker(s) expected to start for source %d did not reach their wait", what, starts, s))
			}
			r.syncSrc(s)
			var gid int64
			select {
			case gid = <-g.arrived:
			case <-time.After(deadline):
				disarmSave(p.def.Name, id)
				close(g.release)
				r.fail("pipe-not-caught-up", fmt.Sprintf("%s: the worker of pipe %s for source %d did not copy the batch and come to save its position within %v", what, p.def.Name, s, deadline))
				return errVerdict
			}
			if _, err := r.srv.Exec("DELETE PIPE " + p.def.Name); err != nil {
				close(g.release)
				return err
			}
			r.waitStateFileGone(p.def.Name)
			p.deleted = true
			p.heldDel = true
			close(g.release)
			// the worker finishes: its goroutine leaves the dump
			mark := fmt.Sprintf("goroutine %d [", gid)
			if !WaitFor(deadline, func() bool { return !goroutineIn(mark) }) {
				r.fail("pipe-worker-not-parked", fmt.Sprintf("%s: the worker of the deleted pipe %s did not finish within %v", what, p.def.Name, deadline))
			}
			newBySrc := map[int][]Ev{s: b.Evs}
			if err := r.settle(newBySrc, map[int]int{s: h0 + starts + live - 1}, what); err != nil {
				return err
			}
			r.syncDst()
			d, err := readDst(r.srv, p.def.Name)
			if err != nil {
				return err
			}
			p.dstAtDel = len(d)
			p.nontriv = true
			for _, q := range r.pipes {
				if !q.created || q.superseded || !q.def.Match[s] {
					continue
				}
				if q.deleted && q != p {
					q.postDel = true
				}
				q.ops[s] = append(q.ops[s], GApp("SWriteLate", gEvents(q, newBySrc[s])))
				if q != p {
					q.nontriv = true
					q.seen[s] = true
				}
			}
			for s2 := range sc.Sources {
				if p.def.Match[s2] {
					p.ops[s2] = append(p.ops[s2], "SDelete")
				}
			}
		case "burst":
			// Far more writers than the WriteEvent channel holds (100) come to send while the notificatior is stopped at the
			// lock of pipe st.Pipe: one event is in its hands, 100 fill the channel, the other writers wait in
			// partition.Service.onWriteEvent until it drains. Every event must reach the pipes.
			p := r.pipes[st.Pipe]
			if !p.created || p.deleted {
				return fmt.Errorf("%s: needs a live pipe", what)
			}
			newBySrc := map[int][]Ev{}
			h0 := map[int]int{}
			cnt := new(int)
			for _, b := range st.Batches {
				if err := r.ensureSrc(b.Src); err != nil {
					return err
				}
				if _, dup := newBySrc[b.Src]; dup || !p.def.Match[b.Src] {
					return fmt.Errorf("%s: one request per source, all matching the pipe", what)
				}
				newBySrc[b.Src] = b.Evs
				h0[b.Src] = hitCount(r.srcIds[b.Src])
			}
			gatesMu.Lock()
			for s := range newBySrc {
				burstArrivals[r.srcIds[s]] = cnt
			}
			gatesMu.Unlock()
			unregister := func() {
				gatesMu.Lock()
				for s := range newBySrc {
					delete(burstArrivals, r.srcIds[s])
				}
				gatesMu.Unlock()
			}
			held, release, lockDone := make(chan struct{}), make(chan struct{}), make(chan bool, 1)
			go func() {
				lockDone <- r.srv.Pipes.VC10WithPipeLock(p.def.Name, func() { close(held); <-release })
			}()
			select {
			case <-held:
			case ok := <-lockDone:
				unregister()
				return fmt.Errorf("%s: could not take the lock of pipe %s (%v)", what, p.def.Name, ok)
			}
			var wg sync.WaitGroup
			errs := make([]error, len(st.Batches))
			for k, b := range st.Batches {
				wg.Add(1)
				go func(k int, b Batch) {
					defer wg.Done()
					errs[k] = writeBatch(r.srv, tagLine(sc.Sources[b.Src]), b.Evs)
				}(k, b)
			}
			arrived := WaitFor(deadline, func() bool {
				gatesMu.Lock()
				defer gatesMu.Unlock()
				return *cnt >= len(st.Batches)
			})
			// readable before any of the notifications is delivered (none is: the first stands at the pipe's lock)
			if arrived {
				for s := range newBySrc {
					r.syncSrc(s)
				}
			}
			pending := r.srv.Partitions.VC10PendingWriteEvents()
			close(release)
			<-lockDone
			wgDone := make(chan struct{})
			go func() { wg.Wait(); close(wgDone) }()
			select {
			case <-wgDone:
			case <-time.After(2 * deadline):
				unregister()
				return fmt.Errorf("%s: the writers did not return after the notificatior was released", what)
			}
			unregister()
			if !arrived {
				return fmt.Errorf("%s: only %d of %d writers came to send their WriteEvent", what, *cnt, len(st.Batches))
			}
			for _, e := range errs {
				if e != nil {
					return e
				}
			}
			atomic.AddInt32(&burstSteps, 1)
			if pending > int(atomic.LoadInt32(&burstMaxPending)) {
				atomic.StoreInt32(&burstMaxPending, int32(pending))
			}
			// the channel is FIFO: behind the sentinel's notification every notification that was sent has been handled
			// (the sentinel is written when the channel has room again, so that its own notification is not what is judged)
			WaitFor(deadline, func() bool { return r.srv.Partitions.VC10PendingWriteEvents() == 0 })
			if err := r.barrier(); err != nil {
				return err
			}
			for _, b := range st.Batches {
				for _, q := range r.livePipes() {
					if !q.def.Match[b.Src] {
						continue
					}
					if _, _, _, ok := r.srv.Pipes.VC10PipeState(q.def.Name, r.srcIds[b.Src]); !ok {
						r.fail("pipe-notification-not-delivered", fmt.Sprintf("%s: %d writers sent their WriteEvents at once (%d pending in the channel when the notificatior went on); the write of %d events to source %d (%s) was acknowledged and pipe %s never heard of that source", what, len(st.Batches), pending, len(b.Evs), b.Src, tagLine(sc.Sources[b.Src]), q.def.Name))
						return errVerdict
					}
				}
			}
			targets := map[int]int{}
			for s := range newBySrc {
				targets[s] = h0[s] + r.liveOn(s)
			}
			if err := r.settle(newBySrc, targets, what); err != nil {
				return err
			}
			for _, q := range r.pipes {
				if !q.created || q.superseded {
					continue
				}
				for s, evs := range newBySrc {
					if !q.def.Match[s] {
						continue
					}
					if q.deleted {
						q.postDel = true
					}
					q.ops[s] = append(q.ops[s], GApp("SWrite", gEvents(q, evs)))
					q.nontriv = true
					q.seen[s] = true
				}
			}
		case "admin":
			// the registry operations around a pipe must leave the copying alone: a second CREATE PIPE of a live name, a
			// definition whose conditions do not compile, DELETE PIPE of an unknown name are refused; DESCRIBE PIPE and
			// the list of pipes show what exists
			p := r.pipes[st.Pipe]
			if !p.created {
				return fmt.Errorf("%s: pipe not created", what)
			}
			live := !p.deleted
			if p.deleted {
				for _, q := range r.livePipes() {
					if q.def.Name == p.def.Name {
						live = true
					}
				}
			}
			if live {
				if _, err := r.srv.Exec("CREATE PIPE " + p.def.Name); err == nil {
					r.fail("pipe-admin-duplicate-create-accepted", fmt.Sprintf("%s: CREATE PIPE %s was accepted although a pipe of that name exists", what, p.def.Name))
				}
				if _, err := r.srv.Pipes.CreatePipe(pipe.Pipe{Name: p.def.Name, TagsCond: "sid=nosuch"}); err == nil {
					r.fail("pipe-admin-duplicate-create-accepted", fmt.Sprintf("%s: CreatePipe(%s) with another condition was accepted although a pipe of that name exists", what, p.def.Name))
				}
				if out, err := r.srv.Exec("DESCRIBE PIPE " + p.def.Name); err != nil || !strings.Contains(out, p.def.Name) {
					r.fail("pipe-admin-describe", fmt.Sprintf("%s: DESCRIBE PIPE %s of a live pipe: %q, %v", what, p.def.Name, out, err))
				}
			} else {
				if out, err := r.srv.Exec("DESCRIBE PIPE " + p.def.Name); err == nil {
					r.fail("pipe-admin-describe", fmt.Sprintf("%s: DESCRIBE PIPE %s of a deleted pipe answered %q", what, p.def.Name, out))
				}
				if _, err := r.srv.Exec("DELETE PIPE " + p.def.Name); err == nil {
					r.fail("pipe-admin-delete-unknown-accepted", fmt.Sprintf("%s: DELETE PIPE %s of a deleted pipe was accepted", what, p.def.Name))
				}
			}
			bad := pipeName()
			if _, err := r.srv.Pipes.CreatePipe(pipe.Pipe{Name: bad, TagsCond: "a=b AND"}); err == nil {
				r.fail("pipe-admin-bad-condition-accepted", what+": a pipe whose source condition does not compile was created")
			}
			if _, err := r.srv.Pipes.CreatePipe(pipe.Pipe{Name: bad, FltCond: "msg contains"}); err == nil {
				r.fail("pipe-admin-bad-condition-accepted", what+": a pipe whose filter condition does not compile was created")
			}
			if _, err := r.srv.Pipes.GetPipe(bad); err == nil {
				r.fail("pipe-admin-bad-condition-accepted", what+": a refused pipe definition is registered")
			}
			if _, err := r.srv.Exec("DELETE PIPE " + bad); err == nil {
				r.fail("pipe-admin-delete-unknown-accepted", what+": DELETE PIPE of a name that was never created was accepted")
			}
			wantNames := map[string]bool{}
			for _, q := range r.livePipes() {
				wantNames[q.def.Name] = true
			}
			if r.barName != "" {
				wantNames[r.barName] = true
			}
			var gotNames []string
			okList := true
			for _, q := range r.srv.Pipes.GetPipes() {
				gotNames = append(gotNames, q.Name)
				if !wantNames[q.Name] {
					okList = false
				}
			}
			if !okList || len(gotNames) != len(wantNames) || !sort.StringsAreSorted(gotNames) {
				r.fail("pipe-admin-show", fmt.Sprintf("%s: the list of pipes is %v, live are %d: %v", what, gotNames, len(wantNames), wantNames))
			}
		case "truncate":
			// TRUNCATE removes every chunk of a source partition at a quiescent point (all of it is copied); the partition
			// itself goes too when nothing holds it (no cursor, no parked worker: right after a restart)
			s := st.Src
			id := r.srcIds[s]
			if id == "" || r.flushed[s] != len(r.written[s]) {
				return fmt.Errorf("%s: needs a flushed source", what)
			}
			if _, err := r.srv.Exec("TRUNCATE sid=" + r.sid(s) + " MAXSIZE 1"); err != nil {
				return fmt.Errorf("%s: %v", what, err)
			}
			_, e := r.srv.TIndex.GetJournalTags(id, false)
			deleted := e != nil
			if !deleted {
				if _, n := endPos(r.srv, id); n != 0 {
					return fmt.Errorf("%s: source %d still has %d events after TRUNCATE MAXSIZE 1", what, s, n)
				}
			}
			r.trunc[s] = len(r.written[s])
			r.emptied[s] = true
			if deleted {
				for _, p := range r.pipes {
					if !p.created || p.superseded || !p.def.Match[s] {
						continue
					}
					p.ops[s] = append(p.ops[s], "SDropSource")
					p.nontriv = true
					p.seen[s] = false
				}
				if sc.Cleaner {
					for _, p := range r.livePipes() {
						if !p.def.Match[s] {
							continue
						}
						if !WaitFor(deadline, func() bool {
							_, _, _, ok := r.srv.Pipes.VC10PipeState(p.def.Name, id)
							return !ok
						}) {
							r.fail("pipe-descriptor-not-cleaned", fmt.Sprintf("%s: pipe %s still keeps a descriptor for the deleted partition %s (source %d) %v after its deletion, with the pipes cleaner running", what, p.def.Name, id, s, deadline))
						}
					}
				}
				r.srcIds[s] = ""
			}
			if deleted {
				atomic.AddInt32(&truncDeleted, 1)
			} else {
				atomic.AddInt32(&truncKept, 1)
			}
		case "restart":
			r.syncDst()
			for s := range r.srcIds {
				if r.srcIds[s] != "" && r.flushed[s] != len(r.written[s]) {
					return fmt.Errorf("%s: restart with unflushed source data", what)
				}
			}
			r.srv.Stop()
			closeFdPool(r.srv)
			r.srv = nil
			if err = r.start(); err != nil {
				return fmt.Errorf("restart failed: %v", err)
			}
			for _, p := range r.livePipes() {
				p.nontriv = true
				for s := range sc.Sources {
					if p.def.Match[s] {
						p.ops[s] = append(p.ops[s], "SRestart")
						if p.blocked[s] >= 0 {
							p.pendingRe[s] = true
						}
					}
				}
			}
			// a deleted pipe stays deleted: the registry the start read was saved without it (also when that left it empty)
			listed := map[string]bool{}
			for _, q := range r.srv.Pipes.GetPipes() {
				listed[q.Name] = true
			}
			for _, p := range r.pipes {
				if !p.created || !p.deleted || p.superseded {
					continue
				}
				for s := range sc.Sources {
					if p.def.Match[s] {
						p.ops[s] = append(p.ops[s], "SRestart")
					}
				}
				alive := false
				for _, q := range r.livePipes() {
					if q.def.Name == p.def.Name {
						alive = true
					}
				}
				if listed[p.def.Name] && !alive {
					p.resurrected = true
				}
			}
		case "wave":
			newBySrc := map[int][]Ev{}
			bySrc := map[int][]Batch{}
			var order []int
			for _, b := range st.Batches {
				if err := r.ensureSrc(b.Src); err != nil {
					return err
				}
				if len(b.Evs) == 0 {
					return fmt.Errorf("%s: a batch that stores nothing", what)
				}
				if _, ok := bySrc[b.Src]; !ok {
					order = append(order, b.Src)
				}
				bySrc[b.Src] = append(bySrc[b.Src], b)
				newBySrc[b.Src] = append(newBySrc[b.Src], b.Evs...)
			}
			if st.NoSync {
				if len(r.livePipes()) > 0 {
					return fmt.Errorf("%s: unflushed wave with a live pipe", what)
				}
				for _, s := range order {
					for _, b := range bySrc[s] {
						if err := writePartial(r.srv, tagLine(sc.Sources[s]), b.Evs, b.Refused, sc.MaxRec); err != nil {
							return err
						}
						r.written[s] = append(r.written[s], b.Evs...)
					}
				}
				break
			}
			for _, b := range st.Batches {
				if b.Fat > 0 && (st.FlushFirst || st.Par || sc.MaxRec <= 0 || b.Fat > len(b.Evs)) {
					return fmt.Errorf("%s: a record the destination refuses needs a sequential, notify-first wave on a server with maxrec", what)
				}
			}
			// FlushFirst: the writers are held in front of their WriteEvent, the data is made readable, then they
			// go on (workers find the data at once). Otherwise the notifications go out first and the data is
			// made readable when every worker they started is parked in its wait.
			h0 := map[int]int{}
			starts := map[int]int{}
			gs := map[int]*gate{}
			saveHitsAtStart := map[string]int{}
			for _, s := range order {
				for _, p := range r.livePipes() {
					saveHitsAtStart[p.def.Name+"\x00"+r.srcIds[s]] = saveHitCount(p.def.Name, r.srcIds[s])
				}
				h0[s] = hitCount(r.srcIds[s])
				starts[s] = r.expectedStarts(s)
				if st.FlushFirst {
					n := 1
					if st.Par {
						n = len(bySrc[s])
					}
					gs[s] = r.arm(s, n)
				}
			}
			var wg sync.WaitGroup
			errs := make([]error, len(order))
			srcDone := map[int]chan struct{}{}
			for _, s := range order {
				srcDone[s] = make(chan struct{})
			}
			for k, s := range order {
				wg.Add(1)
				go func(k, s int) {
					defer wg.Done()
					defer close(srcDone[s])
					tl := tagLine(sc.Sources[s])
					if st.Par {
						var wg2 sync.WaitGroup
						for _, b := range bySrc[s] {
							wg2.Add(1)
							go func(b Batch) {
								defer wg2.Done()
								if e := writePartial(r.srv, tl, b.Evs, b.Refused, sc.MaxRec); e != nil {
									errs[k] = e
								}
							}(b)
						}
						wg2.Wait()
						return
					}
					for _, b := range bySrc[s] {
						if e := writePartial(r.srv, tl, b.Evs, b.Refused, sc.MaxRec); e != nil {
							errs[k] = e
							return
						}
					}
				}(k, s)
			}
			if st.FlushFirst {
				unnotified := -1
			arrivals:
				for _, s := range order {
					g := gs[s]
					n := cap(g.arrived)
					for i := 0; i < n; i++ {
						select {
						case <-g.arrived:
						case <-srcDone[s]:
							// every writer of this source has returned, and fewer than expected passed the point where
							// Service.Write sends its WriteEvent (a held writer cannot return)
							select {
							case <-g.arrived:
							default:
								unnotified = s
								break arrivals
							}
						case <-time.After(deadline):
							return fmt.Errorf("%s: a writer did not reach the schedule point", what)
						}
					}
				}
				if unnotified >= 0 {
					for _, s := range order {
						close(gs[s].release)
						r.disarm(s)
					}
					wg.Wait()
					for _, e := range errs {
						if e != nil {
							return e
						}
					}
					r.fail("pipe-write-not-notified", fmt.Sprintf("%s: a request to source %d (%s) stored events and returned without sending a WriteEvent: %s", what, unnotified, tagLine(sc.Sources[unnotified]), describeBatches(bySrc[unnotified])))
					return errVerdict
				}
				// with sequential batches only the first writer of a source is held; its followers write after the
				// release, their data is made readable by the second Sync below (all workers parked by then)
				for _, s := range order {
					r.syncSrc(s)
				}
				for _, s := range order {
					close(gs[s].release)
				}
			}
			wg.Wait()
			for _, s := range order {
				if st.FlushFirst {
					r.disarm(s)
				}
			}
			for _, e := range errs {
				if e != nil {
					return e
				}
			}
			if !st.FlushFirst || !st.Par {
				for _, s := range order {
					if st.FlushFirst && len(bySrc[s]) == 1 {
						continue
					}
					if !r.waitParked(s, h0[s], starts[s]) {
						r.fail("pipe-worker-not-started", fmt.Sprintf("%s: %d worker(s) expected to start for source %d (%s) did not reach their wait after %s", what, starts[s], s, tagLine(sc.Sources[s]), describeBatches(bySrc[s])))
					}
				}
				for _, s := range order {
					r.syncSrc(s)
				}
			}
			// a record whose copy the destination refuses: the workers that reach it stay there
			var newlyBlocked []*pipeRun
			fatSrc := -1
			for _, s := range order {
				off := 0
				for _, b := range bySrc[s] {
					if b.Fat > 0 {
						fatSrc = s
						for _, p := range r.livePipes() {
							if p.def.Match[s] && p.blocked[s] < 0 && (p.def.FKind == "" || b.Evs[b.Fat-1].Keep) {
								p.blocked[s] = len(r.written[s]) + off + b.Fat - 1
								p.blockBase[s] = len(r.written[s])
								newlyBlocked = append(newlyBlocked, p)
							}
						}
					}
					off += len(b.Evs)
				}
			}
			type reb struct {
				p    *pipeRun
				s, h int
			}
			var reblocks []reb
			for _, s := range order {
				for _, p := range r.livePipes() {
					// a pipe that was stuck before a restart meets the record again with the first write after it
					if p.def.Match[s] && p.blocked[s] >= 0 && p.pendingRe[s] {
						p.pendingRe[s] = false
						p.reblocked[s]++
						reblocks = append(reblocks, reb{p, s, saveHitsAtStart[p.def.Name+"\x00"+r.srcIds[s]]})
					}
				}
			}
			targets := map[int]int{}
			for _, s := range order {
				live := r.liveOn(s)
				targets[s] = h0[s] + live
				if !st.FlushFirst {
					targets[s] += starts[s]
				}
			}
			if err := r.settle(newBySrc, targets, what); err != nil {
				return err
			}
			for _, rb := range reblocks {
				// the worker the notification started has reached the record again: it came to save its position there
				// (worker.run saves after a failed write), or it copied the events in front of the record once more
				p, s := rb.p, rb.s
				again := 0
				for _, e := range r.written[s][p.blockBase[s]:p.blocked[s]] {
					if p.def.FKind == "" || e.Keep {
						again++
					}
				}
				want := p.base[s] + len(r.wantBlocked(p, s)) + p.reblocked[s]*again
				WaitFor(deadline, func() bool {
					if again == 0 || saveHitCount(p.def.Name, r.srcIds[s]) > rb.h {
						return true
					}
					r.syncDst()
					d, err := readDst(r.srv, p.def.Name)
					if err != nil {
						return false
					}
					n := 0
					for _, e := range d {
						if hasSuffix(e.Flds, sc.Sources[s]) {
							n++
						}
					}
					return n >= want
				})
			}
			for _, p := range newlyBlocked {
				if !r.waitBlockedPrefix(p, fatSrc) {
					r.fail("pipe-not-caught-up", fmt.Sprintf("%s: pipe %s did not copy the events of source %d in front of the record the destination refuses within %v", what, p.def.Name, fatSrc, deadline))
				}
			}
			for _, p := range r.pipes {
				if !p.created || p.superseded {
					continue
				}
				for s, evs := range newBySrc {
					if !p.def.Match[s] {
						continue
					}
					if p.deleted {
						p.postDel = true
						if p.resurrected {
							p.writtenSinceBack = true
						}
					}
					opn := "SWriteLate"
					if st.FlushFirst {
						opn = "SWrite"
					}
					p.ops[s] = append(p.ops[s], GApp(opn, gEvents(p, evs)))
					if len(bySrc[s]) > 1 || p.seen[s] {
						p.nontriv = true
					}
					p.seen[s] = true
				}
			}
		case "race":
			// two writers of one source no live pipe has seen yet; the first is held between jrnl.Write and
			// the WriteEvent send until the second one's event was delivered and its data copied
			b1, b2 := st.Batches[0], st.Batches[1]
			s := b1.Src
			if err := r.ensureSrc(s); err != nil {
				return err
			}
			id := r.srcIds[s]
			h0 := hitCount(id)
			starts := r.expectedStarts(s)
			g := r.arm(s, 1)
			tl := tagLine(sc.Sources[s])
			done := make(chan error, 1)
			go func() { done <- writeBatch(r.srv, tl, b1.Evs) }()
			select {
			case <-g.arrived:
			case e := <-done:
				return fmt.Errorf("%s: first writer finished without reaching the schedule point: %v", what, e)
			case <-time.After(deadline):
				return fmt.Errorf("%s: first writer did not reach the schedule point", what)
			}
			if st.FlushFirst {
				// the held writer's data becomes readable before the other writer's notification starts the worker
				r.syncSrc(s)
			}
			if err := writeBatch(r.srv, tl, b2.Evs); err != nil {
				close(g.release)
				return err
			}
			if !r.waitParked(s, h0, starts) {
				r.fail("pipe-worker-not-started", what+": no worker reached its wait after the second writer's notification")
			}
			r.syncSrc(s)
			end, _ := endPos(r.srv, id)
			lkpB := map[string]string{}
			ok := WaitFor(deadline, func() bool {
				for _, p := range r.livePipes() {
					if !p.def.Match[s] {
						continue
					}
					pos, lkp, _, ok := r.srv.Pipes.VC10PipeState(p.def.Name, id)
					if !ok || pos != end {
						return false
					}
					lkpB[p.def.Name] = lkp
				}
				return true
			})
			close(g.release)
			if e := <-done; e != nil {
				return e
			}
			r.disarm(s)
			if !ok {
				r.fail("pipe-not-caught-up", what+": second writer's events were not copied")
			}
			// the first writer's event is delivered now: LastKnwnPos changes
			WaitFor(deadline, func() bool {
				for _, p := range r.livePipes() {
					if !p.def.Match[s] {
						continue
					}
					_, lkp, _, ok := r.srv.Pipes.VC10PipeState(p.def.Name, id)
					if !ok || lkp == lkpB[p.def.Name] {
						return false
					}
				}
				return true
			})
			// and the worker (if one runs) is at the end of the source again
			WaitFor(deadline, func() bool {
				for _, p := range r.livePipes() {
					if !p.def.Match[s] {
						continue
					}
					pos, _, chg, ok := r.srv.Pipes.VC10PipeState(p.def.Name, id)
					if ok && chg && pos != end {
						return false
					}
				}
				return true
			})
			if err := r.barrier(); err != nil {
				return err
			}
			if ok && !WaitFor(deadline, func() bool { return hitCount(id) >= h0+2*starts }) {
				r.fail("pipe-worker-not-parked", what+": the workers did not return to their wait")
			}
			r.written[s] = append(append(r.written[s], b1.Evs...), b2.Evs...)
			r.flushed[s] = len(r.written[s])
			for _, p := range r.pipes {
				if !p.created || p.superseded || !p.def.Match[s] {
					continue
				}
				if p.deleted {
					p.postDel = true
					p.ops[s] = append(p.ops[s], GApp("SWrite", gEvents(p, append(append([]Ev{}, b1.Evs...), b2.Evs...))))
					continue
				}
				if st.FlushFirst {
					p.ops[s] = append(p.ops[s], GApp("SRace", gEvents(p, b1.Evs), gEvents(p, b2.Evs)))
					p.raceLost[s] = b1.Evs
				} else {
					p.ops[s] = append(p.ops[s], GApp("SRaceClamp", gEvents(p, b1.Evs), gEvents(p, b2.Evs)))
				}
				p.seen[s] = true
				p.nontriv = true
			}
		case "stale":
			// pipe st.Pipe is created while the WriteEvent of a completed write is still in the channel: the
			// notificatior is stopped at an older pipe's lock (which it needs for the first of two writes)
			b1, b2 := st.Batches[0], st.Batches[1]
			s := b1.Src
			id := r.srcIds[s]
			var older *pipeRun
			for _, p := range r.livePipes() {
				if p.def.Match[s] && p.seen[s] {
					older = p
				}
			}
			if older == nil || id == "" {
				return fmt.Errorf("%s: needs a live pipe that knows the source", what)
			}
			np := r.pipes[st.Pipe]
			h0 := hitCount(id)
			live := 0
			for _, p := range r.livePipes() {
				if p.def.Match[s] {
					live++
				}
			}
			var ierr error
			tl := tagLine(sc.Sources[s])
			r.srv.Pipes.VC10WithPipeLock(older.def.Name, func() {
				if ierr = writeBatch(r.srv, tl, b1.Evs); ierr != nil {
					return
				}
				// the notificatior took the first WriteEvent and waits for the lock we hold
				if !WaitFor(deadline, func() bool {
					return r.srv.Partitions.VC10PendingWriteEvents() == 0 && notificatorAtLock(fmt.Sprintf("%p", r.srv.Pipes))
				}) {
					ierr = fmt.Errorf("%s: the notificatior did not take the WriteEvent", what)
					return
				}
				if ierr = writeBatch(r.srv, tl, b2.Evs); ierr != nil {
					return
				}
				r.syncSrc(s)
				q := "CREATE PIPE " + np.def.Name
				if np.def.From != "" {
					q += " FROM " + np.def.From
				}
				_, ierr = r.srv.Exec(q)
			})
			if ierr != nil {
				return ierr
			}
			r.written[s] = append(append(r.written[s], b1.Evs...), b2.Evs...)
			r.flushed[s] = len(r.written[s])
			np.created = true
			copy(np.pre, r.counts())
			copy(np.preFl, r.flushed)
			np.stale[s] = b2.Evs
			np.nontriv = true
			np.seen[s] = true
			end, _ := endPos(r.srv, id)
			if err := r.barrier(); err != nil {
				return err
			}
			if !r.waitCaughtUp(r.counts()) {
				r.fail("pipe-not-caught-up", what+": an older pipe did not copy the two batches")
			}
			// the new pipe got the second write's notification: its worker copies that batch and parks
			WaitFor(deadline, func() bool {
				pos, _, _, ok := r.srv.Pipes.VC10PipeState(np.def.Name, id)
				return ok && pos == end
			})
			WaitFor(deadline, func() bool { return hitCount(id) >= h0+live+1 })
			for _, p := range r.pipes {
				if !p.created || p.superseded || !p.def.Match[s] || p == np {
					continue
				}
				if p.deleted {
					p.postDel = true
				}
				p.ops[s] = append(p.ops[s], GApp("SWrite", gEvents(p, append(append([]Ev{}, b1.Evs...), b2.Evs...))))
				p.nontriv = true
			}
		case "rearm":
			// a source whose worker sits in its 10 s wait: write shortly before the wait expires. The data is not
			// readable, so the notification finds the worker charged and leaves it asleep; the wait expires;
			// workerDone has to start the next worker (Pos < LastKnwnPos), which parks in its own wait; only then
			// the data is made readable.
			b := st.Batches[0]
			s := b.Src
			id := r.srcIds[s]
			if id == "" {
				return fmt.Errorf("%s: source not written before", what)
			}
			target := r.lastSettle.Add(10*time.Second - 60*time.Millisecond)
			for time.Now().Before(target) {
				time.Sleep(time.Until(target))
			}
			h0 := hitCount(id)
			n := 0
			for _, p := range r.livePipes() {
				if p.def.Match[s] {
					n++
				}
			}
			if err := writeBatch(r.srv, tagLine(sc.Sources[s]), b.Evs); err != nil {
				return err
			}
			if !r.waitParked(s, h0, n) {
				r.fail("pipe-not-rearmed", what+": after the worker's wait expired with a notification pending no new worker reached its wait")
			}
			r.syncSrc(s)
			if err := r.settle(map[int][]Ev{s: b.Evs}, map[int]int{s: h0 + 2*n}, what); err != nil {
				return err
			}
			for _, p := range r.pipes {
				if !p.created || p.superseded || !p.def.Match[s] {
					continue
				}
				if p.deleted {
					p.postDel = true
				}
				p.ops[s] = append(p.ops[s], GApp("SRearm", gEvents(p, b.Evs)))
				p.nontriv = true
			}
		default:
			return fmt.Errorf("unknown step %q", st.Kind)
		}
		r.lastSettle = time.Now()
		if r.viol != nil {
			// the scenario has its verdict; later steps would only wait for deadlines
			break
		}
	}
	return nil
}

// goroutineIn: does some goroutine of the process have a frame of the function fn (as written in a goroutine dump)?
func goroutineIn(fn string) bool {
	buf := make([]byte, 4<<20)
	n := runtime.Stack(buf, true)
	return strings.Contains(string(buf[:n]), fn)
}

func stateFile(dir, name string) string {
	return path.Join(dir, "pipes", "pipe"+fileutil.EscapeToFileName(name)+".dat")
}

// waitStateFileGone: after DELETE PIPE returned, wait until the file with the pipe's saved positions is gone, or
// until no goroutine started by Service.DeletePipe (`go p.delete()`: its dump entry ends with "created by
// ...pipe.(*Service).DeletePipe" from the go statement to its exit, whatever the compiler calls its entry function)
// is left that could still remove it (then it stays: the consequences are for the oracle to see)
func (r *runner) waitStateFileGone(name string) {
	fn := stateFile(r.dir, name)
	WaitFor(deadline, func() bool {
		if _, err := os.Stat(fn); err != nil {
			return true
		}
		return !goroutineIn("pipe.(*Service).DeletePipe")
	})
}

func describeBatches(bs []Batch) string {
	var sb strings.Builder
	for i, b := range bs {
		if i > 0 {
			sb.WriteString("; ")
		}
		fmt.Fprintf(&sb, "a request of %d events", len(b.Evs))
		if b.Refused > 0 {
			fmt.Fprintf(&sb, " followed by a record bigger than MaxRecordSize (refused after storing the %d)", len(b.Evs))
		}
	}
	return sb.String()
}

// attribute sorts destination events by the source whose tags they carry as provenance suffix (every source has a
// unique sid tag)
func (r *runner) attribute(p *pipeRun, dst []DEv) [][]DEv {
	per := make([][]DEv, len(r.sc.Sources))
	for _, e := range dst {
		found := -1
		for s, tg := range r.sc.Sources {
			if hasSuffix(e.Flds, tg) {
				found = s
			}
		}
		if found < 0 {
			r.fail("pipe-unattributed-event", fmt.Sprintf("pipe %s: destination event %v carries no source's tags", p.def.Name, e))
			continue
		}
		per[found] = append(per[found], e)
	}
	return per
}

// supersede: the deleted pipe prev is about to be created again under its name (as p): its observation is what the
// destination holds now; the new pipe's starts behind it
func (r *runner) supersede(prev, p *pipeRun) error {
	if !prev.created || !prev.deleted || prev.superseded || prev.def.Name != p.def.Name {
		return fmt.Errorf("re-creation of pipe %s needs a deleted pipe of that name", p.def.Name)
	}
	r.syncDst()
	dst, err := readDst(r.srv, prev.def.Name)
	if err != nil {
		return err
	}
	if prev.postDel && len(dst) != prev.dstAtDel {
		r.fail("pipe-copied-after-delete", fmt.Sprintf("pipe %s: destination grew from %d to %d events after DELETE PIPE", prev.def.Name, prev.dstAtDel, len(dst)))
	}
	prev.frozen = r.attribute(prev, dst)
	prev.superseded = true
	p.prev = prev
	for s := range prev.frozen {
		p.base[s] = len(prev.frozen[s])
	}
	p.nontriv = true
	return nil
}

// copiedEarlier: got = (events of the source written before the pipe was created) ++ want
func copiedEarlier(got, want []DEv, tg [][2]string, earlier []Ev) bool {
	n := len(got) - len(want)
	if n <= 0 || !sameDEvs(got[n:], want) {
		return false
	}
	old := map[string]bool{}
	for _, e := range earlier {
		old[key(transform(tg, e))] = true
	}
	for _, e := range got[:n] {
		if !old[key(e)] {
			return false
		}
	}
	return true
}

// wantBlocked: what the destination holds of source s for a pipe that is stuck at the record p.blocked[s]
func (r *runner) wantBlocked(p *pipeRun, s int) []DEv {
	var res []DEv
	for _, e := range r.written[s][p.pre[s]:p.blocked[s]] {
		if p.def.FKind == "" || e.Keep {
			res = append(res, transform(r.sc.Sources[s], e))
		}
	}
	return res
}

// waitBlockedPrefix polls the destination until it holds the events of source s in front of the refused record
func (r *runner) waitBlockedPrefix(p *pipeRun, s int) bool {
	want := p.base[s] + len(r.wantBlocked(p, s))
	return WaitFor(deadline, func() bool {
		r.syncDst()
		d, err := readDst(r.srv, p.def.Name)
		if err != nil {
			return false
		}
		n := 0
		for _, e := range d {
			if hasSuffix(e.Flds, r.sc.Sources[s]) {
				n++
			}
		}
		return n >= want
	})
}

// notificatorAtLock: is the notificatior goroutine of the pipe service at address svc inside onWriteEvent (where the
// only thing it can wait for is the pipe's lock)? Read off the goroutine dump.
func notificatorAtLock(svc string) bool {
	buf := make([]byte, 4<<20)
	n := runtime.Stack(buf, true)
	for _, g := range strings.Split(string(buf[:n]), "\n\n") {
		if strings.Contains(g, "pipe.(*Service).notificatior("+svc) {
			return strings.Contains(g, "pipe.(*ppipe).onWriteEvent(")
		}
	}
	return false
}

// ---------------------------------------------------------------- observation, oracle, cases

func hasSuffix(p, suf [][2]string) bool {
	if len(suf) > len(p) {
		return false
	}
	off := len(p) - len(suf)
	for i := range suf {
		if p[off+i] != suf[i] {
			return false
		}
	}
	return true
}

func sameDEv(a, b DEv) bool {
	if a.Ts != b.Ts || a.Msg != b.Msg || len(a.Flds) != len(b.Flds) {
		return false
	}
	for i := range a.Flds {
		if a.Flds[i] != b.Flds[i] {
			return false
		}
	}
	return true
}

func sameDEvs(a, b []DEv) bool {
	if len(a) != len(b) {
		return false
	}
	for i := range a {
		if !sameDEv(a[i], b[i]) {
			return false
		}
	}
	return true
}

func transform(tags [][2]string, e Ev) DEv {
	f := append(append([][2]string{}, e.Flds...), tags...)
	return DEv{Ts: e.Ts, Msg: e.Msg, Flds: f}
}

func transformAll(tags [][2]string, evs []Ev) []DEv {
	res := make([]DEv, len(evs))
	for i, e := range evs {
		res[i] = transform(tags, e)
	}
	return res
}

func key(e DEv) string { return fmt.Sprintf("%d|%s", e.Ts, e.Msg) }

// classify names what is wrong with got relative to want (both of one source)
func classify(got, want []DEv) string {
	gk, wk := map[string]int{}, map[string]int{}
	for _, e := range got {
		gk[key(e)]++
	}
	for _, e := range want {
		wk[key(e)]++
	}
	missing, extra, dup := 0, 0, 0
	for k, n := range wk {
		if gk[k] < n {
			missing++
		}
		if gk[k] > n {
			dup++
		}
	}
	for k := range gk {
		if wk[k] == 0 {
			extra++
		}
	}
	switch {
	case dup > 0:
		return "pipe-event-duplicated"
	case extra > 0:
		return "pipe-foreign-event"
	case missing > 0:
		return "pipe-event-missing"
	}
	for i := range got {
		if key(got[i]) != key(want[i]) {
			return "pipe-order-changed"
		}
	}
	return "pipe-provenance"
}

func (r *runner) finish() ([]Case, error) {
	sc := r.sc
	var out []Case
	r.syncDst()
	for pi, p := range r.pipes {
		if !p.created {
			continue
		}
		var all [][]DEv
		if p.superseded {
			// a later pipe of the same name writes to the same destination: this one's observation ended at the re-creation
			all = p.frozen
		} else {
			dst, err := readDst(r.srv, p.def.Name)
			if err != nil {
				return nil, err
			}
			if p.deleted && p.resurrected && p.writtenSinceBack {
				// the pipe is registered again: give it the time to copy what was written since
				WaitFor(deadline, func() bool {
					r.syncDst()
					d, err := readDst(r.srv, p.def.Name)
					return err == nil && len(d) > p.dstAtDel
				})
				if dst, err = readDst(r.srv, p.def.Name); err != nil {
					return nil, err
				}
			}
			all = r.attribute(p, dst)
			if p.deleted && p.postDel && len(dst) != p.dstAtDel {
				back := ""
				if p.resurrected {
					back = "; the server lists the pipe again since the clean restart that followed its deletion"
				}
				r.fail("pipe-copied-after-delete", fmt.Sprintf("pipe %s: destination grew from %d to %d events after DELETE PIPE%s", p.def.Name, p.dstAtDel, len(dst), back))
			} else if p.deleted && p.resurrected {
				r.fail("pipe-deleted-pipe-listed-after-restart", fmt.Sprintf("pipe %s was deleted, the server was restarted cleanly, and the pipe is listed again", p.def.Name))
			}
		}
		// what the destination gained since this pipe was created (a re-created pipe finds the events of its predecessors)
		per := make([][]DEv, len(sc.Sources))
		for s := range all {
			b := p.base[s]
			if p.prev != nil && (len(all[s]) < b || !sameDEvs(all[s][:b], p.prev.frozen[s])) {
				r.fail("pipe-old-epoch-rewritten", fmt.Sprintf("pipe %s, source %s: the %d events the destination held when the pipe was created again are not a prefix of what it holds now: %v", p.def.Name, tagLine(sc.Sources[s]), b, brief(all[s])))
			}
			if b > len(all[s]) {
				b = len(all[s])
			}
			per[s] = all[s][b:]
		}
		for s, tg := range sc.Sources {
			// ---- oracle: the property on the observations
			var want, wantNoF []DEv
			if p.def.Match[s] && !p.deleted {
				for _, e := range r.written[s][p.pre[s]:] {
					wantNoF = append(wantNoF, transform(tg, e))
					if p.def.FKind == "" || e.Keep {
						want = append(want, transform(tg, e))
					}
				}
			}
			if !p.deleted || !p.def.Match[s] {
				got := per[s]
				if !sameDEvs(got, want) {
					cls := classify(got, want)
					var hist []DEv
					for _, e := range r.written[s][p.preFl[s]:p.pre[s]] {
						hist = append(hist, transform(tg, e))
					}
					if p.blocked[s] >= 0 {
						// the destination refuses the copy of record p.blocked[s]: what is in front of it, once
						wb := r.wantBlocked(p, s)
						var again []DEv
						for _, e := range r.written[s][p.blockBase[s]:p.blocked[s]] {
							if p.def.FKind == "" || e.Keep {
								again = append(again, transform(tg, e))
							}
						}
						dup := append([]DEv{}, wb...)
						for i := 0; i < p.reblocked[s]; i++ {
							dup = append(dup, again...)
						}
						if sameDEvs(got, wb) {
							cls = "pipe-blocked-by-oversized-copy"
						} else if p.reblocked[s] > 0 && len(again) > 0 && sameDEvs(got, dup) {
							cls = "pipe-duplicated-after-failed-write-restart"
						}
					} else if p.def.FKind != "" && sameDEvs(got, wantNoF) {
						cls = "pipe-filter-not-applied"
					} else if p.prev != nil && copiedEarlier(got, want, tg, r.written[s][:p.pre[s]]) {
						cls = "pipe-recreated-copied-earlier-events"
						if p.prev.heldDel {
							// the earlier pipe was deleted while a worker of it was about to save its position
							cls = "pipe-state-rewritten-after-delete"
						}
					} else if len(hist) > 0 && sameDEvs(got, append(hist, want...)) {
						cls = "pipe-copied-unflushed-history"
					} else if st := p.stale[s]; len(st) > 0 && sameDEvs(got, append(transformAll(tg, st), want...)) {
						cls = "pipe-copied-pre-creation-events"
					} else if lost := p.raceLost[s]; lost != nil {
						// exactly the held writer's batch is missing
						var w2 []DEv
						skip := map[string]bool{}
						for _, e := range lost {
							skip[key(transform(tg, e))] = true
						}
						for _, e := range wantNoF {
							if !skip[key(e)] {
								w2 = append(w2, e)
							}
						}
						if sameDEvs(got, w2) {
							cls = "pipe-first-notification-reorder"
						}
					}
					r.fail(cls, fmt.Sprintf("pipe %s (FROM %q WHERE %q), source %s: destination holds %d events of it, expected %d; got %v want %v",
						p.def.Name, p.def.From, p.def.Where, tagLine(tg), len(got), len(want), brief(got), brief(want)))
				}
			}
			// ---- correspondence case
			obs := make([]string, len(per[s]))
			for i, e := range per[s] {
				obs[i] = gDEvent(e)
			}
			ops := p.ops[s]
			if !p.def.Match[s] {
				ops = nil
			}
			coq := GApp("KSrc", gPairs(tg), GNat(p.preFl[s]), gEvents(p, r.written[s][p.preFl[s]:p.pre[s]]), GList(ops), GList(obs))
			if q := p.prev; q != nil && p.def.Match[s] && q.def.Match[s] && q.stale[s] == nil && p.preFl[s] == p.pre[s] {
				coq = GApp("KRe", gPairs(tg), GNat(q.preFl[s]), gEvents(q, r.written[s][q.preFl[s]:q.pre[s]]), GList(q.ops[s]), GNat(p.pre[s]), GList(ops), GList(obs))
			}
			if p.blocked[s] >= 0 && p.def.Match[s] && p.prev == nil && p.stale[s] == nil {
				coq = GApp("KFat", gPairs(tg), GNat(p.preFl[s]), gEvents(p, r.written[s][p.preFl[s]:p.pre[s]]), GList(ops), GNat(p.blocked[s]), GList(obs))
			}
			if p.stale[s] != nil && p.def.Match[s] {
				coq = GApp("KStale", gPairs(tg), GNat(p.pre[s]-len(p.stale[s])), gEvents(p, p.stale[s]), GList(ops), GList(obs))
			}
			cs := Case{
				Coq:        coq,
				Replay:     sc,
				NonTrivial: p.nontriv && p.def.Match[s] && len(ops) > 0,
				Oracle:     r.viol,
				Stream:     sc.Stream,
				Key:        fmt.Sprintf("%p/%d/%d", sc, pi, s),
				Tags:       []string{fmt.Sprintf("ops:%d", len(ops)), fmt.Sprintf("copied:%d", bucket(len(per[s])))},
			}
			if sc.Chunk < 100000 {
				cs.Tags = append(cs.Tags, "small-chunks")
			}
			out = append(out, cs)
		}
	}
	if len(out) == 0 && r.viol != nil {
		// the scenario ended before any pipe existed: the verdict still needs a case to travel with
		out = append(out, Case{Coq: GApp("KSrc", "[]", GNat(0), "[]", "[]", "[]"), Replay: sc, Stream: sc.Stream, Key: fmt.Sprintf("%p/none", sc)})
	}
	// the verdict of the scenario is attached to every case of it
	for i := range out {
		out[i].Oracle = r.viol
	}
	return out, nil
}

func bucket(n int) int {
	switch {
	case n == 0:
		return 0
	case n < 10:
		return 1
	case n < 50:
		return 10
	}
	return 50
}

func brief(evs []DEv) string {
	var sb strings.Builder
	for i, e := range evs {
		if i >= 12 {
			sb.WriteString(" ...")
			break
		}
		fmt.Fprintf(&sb, " %d:%s", e.Ts, e.Msg)
	}
	return "[" + strings.TrimSpace(sb.String()) + "]"
}

// ---------------------------------------------------------------- generator

type gen struct {
	r    *Rng
	ts   int64
	nmsg int
	fk   string // filter kind of the scenario's pipe: "" | "K" (msg contains "K") | "E" (fields:env = "x")
}

// texts that a rendering or a parser between the source and the destination would trip over (none holds a 'K': the
// filter of the filter streams is `msg contains "K"`)
var oddTexts = []string{"", " ", "a b", " lead", "trail ", "a,b", "a=b", "a\\b", "a'b", "`x`", "{x}", "}", "a\nb", "a\tb", "a\x00b", "äöü", "日本", "UP", "a:b/c.d-e_f", "a\"b"}

func (g *gen) event(fkind string) Ev {
	g.ts += int64(g.r.Range(1, 5))
	g.nmsg++
	keep := true
	ts := g.ts
	msg := fmt.Sprintf("m%d", g.nmsg)
	if g.r.Chance(1, 3) {
		msg += strings.Repeat("x", g.r.Range(1, 24))
	}
	if g.r.Chance(2, 5) {
		msg += "K"
	}
	var fl [][2]string
	if g.r.Chance(1, 2) {
		fl = append(fl, [2]string{"f", fmt.Sprintf("%d", g.r.Intn(3))})
		if g.r.Chance(1, 3) {
			fl = append(fl, [2]string{"g", "v" + fmt.Sprintf("%d", g.r.Intn(9))})
		}
	}
	hex := ""
	if g.r.Chance(1, 6) {
		// edge classes: the timestamp is not what orders the copy (equal to its neighbour, going back, zero, negative,
		// the ends of int64), message and field texts with separators, quotes, blanks, control and non-ASCII bytes
		switch g.r.Intn(7) {
		case 0:
			g.ts -= int64(g.r.Range(1, 5)) // the next event repeats or precedes this one's timestamp
			if g.ts < ts-3 {
				g.ts = ts - 3
			}
		case 1:
			ts = []int64{0, -1, -1000000007, math.MinInt64, math.MaxInt64, math.MaxInt64 - 1, math.MinInt64 + 1}[g.r.Intn(7)]
		case 2:
			msg += g.r.PickStr(oddTexts...)
		case 3:
			// bytes that are not UTF-8
			hex = fmt.Sprintf("%x", msg+"\xff\xfe\xc3")
		case 4:
			fl = append(fl, [2]string{"h", g.r.PickStr(oddTexts...)})
		case 5:
			fl = append(fl, [2]string{g.r.PickStr("a b", "H", "ä", "a.b", "x-y"), g.r.PickStr(oddTexts...)})
		default:
			fl = append(fl, [2]string{"sid", "s0"}, [2]string{"app", "a0"}) // own fields named and valued like tags of a source
		}
	}
	keep = strings.Contains(msg, "K")
	if g.fk == "E" {
		// the filter names a field that is also a tag of every source: it must see the event's OWN fields only
		switch g.r.Intn(3) {
		case 0:
			fl = append(fl, [2]string{"env", "x"})
			keep = true
		case 1:
			fl = append(fl, [2]string{"env", "z"})
			keep = false
		default:
			keep = false // no field env of its own (the source's tag env=x / env=y is not the event's field)
		}
	}
	e := Ev{Ts: ts, Msg: msg, MsgHex: hex, Flds: fl, Keep: keep}
	e.norm()
	return e
}

// norm: the message of an event given in hex
func (e *Ev) norm() {
	if e.MsgHex != "" {
		if b, err := hexDecode(e.MsgHex); err == nil {
			e.Msg = string(b)
		}
	}
}

func hexDecode(h string) ([]byte, error) {
	if len(h)%2 == 1 {
		return nil, fmt.Errorf("odd hex")
	}
	b := make([]byte, len(h)/2)
	for i := range b {
		v, err := strconv.ParseUint(h[2*i:2*i+2], 16, 8)
		if err != nil {
			return nil, err
		}
		b[i] = byte(v)
	}
	return b, nil
}

// edgeTags: which edge classes of the input a scenario holds (for the distribution in the evidence)
func edgeTags(sc *Scenario) []string {
	set := map[string]bool{}
	plain := func(t string) bool {
		for i := 0; i < len(t); i++ {
			c := t[i]
			if !(c >= 'a' && c <= 'z' || c >= 'A' && c <= 'Z' || c >= '0' && c <= '9') {
				return false
			}
		}
		return len(t) > 0
	}
	for _, src := range sc.Sources {
		for _, kv := range src {
			if !plain(kv[1]) {
				set["edge:tag-value"] = true
			}
		}
	}
	last := map[int]int64{}
	seen := map[int]bool{}
	for _, st := range sc.Steps {
		for _, b := range st.Batches {
			if b.Fat > 0 {
				set["edge:copy-over-maxrec"] = true
			}
			if b.Refused > 0 {
				set["edge:request-over-maxrec"] = true
			}
			for _, e := range b.Evs {
				if seen[b.Src] && e.Ts <= last[b.Src] {
					set["edge:ts-not-increasing"] = true
				}
				seen[b.Src], last[b.Src] = true, e.Ts
				if e.Ts <= 0 || e.Ts > 1<<40 {
					set["edge:ts-zero-negative-extreme"] = true
				}
				if e.MsgHex != "" {
					set["edge:msg-not-utf8"] = true
				} else if !plain(e.Msg) {
					set["edge:msg-text"] = true
				}
				for _, kv := range e.Flds {
					if !plain(kv[0]) || !plain(kv[1]) {
						set["edge:field-text"] = true
					}
					if kv[0] == "sid" || kv[0] == "app" {
						set["edge:own-field-like-tag"] = true
					}
				}
			}
		}
	}
	var res []string
	for k := range set {
		res = append(res, k)
	}
	sort.Strings(res)
	return res
}

func normScenario(sc *Scenario) {
	for i := range sc.Steps {
		for j := range sc.Steps[i].Batches {
			for k := range sc.Steps[i].Batches[j].Evs {
				sc.Steps[i].Batches[j].Evs[k].norm()
			}
		}
	}
}

func (g *gen) batch(src, n int) Batch {
	b := Batch{Src: src}
	for i := 0; i < n; i++ {
		b.Evs = append(b.Evs, g.event(""))
	}
	return b
}

var pipeSeq int
var pipeMu sync.Mutex

func pipeName() string { return pipeNameOf("") }

// pipeNameOf: a fresh pipe name of the given shape. The grammar takes [a-zA-Z_][a-zA-Z0-9_./:-]* as a pipe name; the
// file that keeps a pipe's positions is named after the pipe with '_', '/', ':' (and characters a name cannot hold)
// escaped (fileutil.EscapeToFileName)
func pipeNameOf(kind string) string {
	pipeMu.Lock()
	defer pipeMu.Unlock()
	pipeSeq++
	n := pipeSeq
	switch kind {
	case "us":
		return fmt.Sprintf("app_errors%d", n)
	case "lead":
		return fmt.Sprintf("_p%d", n)
	case "mix":
		return fmt.Sprintf("Err_Log.v%d-x", n)
	case "colon":
		return fmt.Sprintf("ns:p%d", n)
	case "slash":
		return fmt.Sprintf("team/p%d", n)
	case "dots":
		return fmt.Sprintf("P.%d-a", n)
	}
	return fmt.Sprintf("p%d", n)
}

// renamePipes gives the pipes of a scenario fresh names of their shapes; the epochs of one pipe share its name
func renamePipes(sc *Scenario) {
	for i := range sc.Pipes {
		if e := sc.Pipes[i].Epoch; e > 0 && e <= i {
			sc.Pipes[i].Name = sc.Pipes[e-1].Name
		} else {
			sc.Pipes[i].Name = pipeNameOf(sc.Pipes[i].NameKind)
		}
	}
}

func mkSources(r *Rng, n int) [][][2]string {
	var res [][][2]string
	for i := 0; i < n; i++ {
		env := r.PickStr("x", "y")
		t := [][2]string{{"app", fmt.Sprintf("a%d", i%2)}, {"env", env}, {"sid", fmt.Sprintf("s%d", i)}}
		res = append(res, t)
	}
	if n <= 4 && r.Chance(1, 3) {
		// a further tag (the last of the line) whose value needs care on the way tag set -> tag line -> provenance fields.
		// No double quote inside: tag.Set.Line() prints such a value raw and the line does not parse back (reported to the
		// tag-line properties; the pipe then copies the events without provenance)
		for i := range res {
			if i == 0 || r.Chance(1, 2) {
				v := r.PickStr(oddTexts[:len(oddTexts)-1]...)
				res[i] = append(res[i], [2]string{"x", v})
			}
		}
	}
	return res
}

func mkPipe(r *Rng, srcs [][][2]string, fkind string) PipeDef {
	p := PipeDef{Name: pipeName(), FKind: fkind, Match: make([]bool, len(srcs))}
	if fkind == "K" {
		p.Where = `msg contains "K"`
	}
	if fkind == "E" {
		p.Where = `fields:env = "x"`
	}
	switch r.Intn(4) {
	case 0:
		p.From = ""
		for i := range srcs {
			p.Match[i] = true
		}
	case 1:
		p.From = "env=x"
		for i, s := range srcs {
			p.Match[i] = s[1][1] == "x"
		}
	case 2:
		p.From = "app=a0 OR sid=s1"
		for i, s := range srcs {
			p.Match[i] = s[0][1] == "a0" || s[2][1] == "s1"
		}
	default:
		p.From = `sid like "s*"`
		for i := range srcs {
			p.Match[i] = true
		}
	}
	return p
}

// structured stream: sources, one or two pipes, waves, optional mid-history create, delete, restart
func genScenario(r *Rng, stream string) *Scenario {
	g := &gen{r: r, ts: int64(r.Range(0, 1000))}
	sc := &Scenario{Stream: stream}
	small := r.Chance(1, 2)
	if small {
		sc.Chunk = int64(r.PickInt(300, 500, 900, 2000))
	} else {
		sc.Chunk = 1 << 20
	}
	ns := r.Range(1, 4)
	sc.Sources = mkSources(r, ns)
	fkind := ""
	if stream == "filter" {
		fkind = r.PickStr("K", "E")
		g.fk = fkind
	}
	sc.Pipes = append(sc.Pipes, mkPipe(r, sc.Sources, fkind))
	wave := func(first bool) Step {
		st := Step{Kind: "wave"}
		for s := 0; s < ns; s++ {
			if !r.Chance(3, 4) && !(first && s == 0) {
				continue
			}
			nb := 1
			if !small {
				nb = r.PickInt(1, 1, 2, 3)
			}
			for k := 0; k < nb; k++ {
				st.Batches = append(st.Batches, g.batch(s, r.PickInt(1, 1, 2, 3, 5, 8, 13)))
			}
		}
		if len(st.Batches) == 0 {
			st.Batches = append(st.Batches, g.batch(0, 2))
		}
		per := map[int]int{}
		one := true
		for _, b := range st.Batches {
			per[b.Src]++
			if per[b.Src] > 1 {
				one = false
			}
		}
		st.FlushFirst = one && r.Chance(1, 2)
		return st
	}
	// history before the pipe exists
	if r.Chance(1, 2) {
		sc.Steps = append(sc.Steps, wave(true))
	}
	sc.Steps = append(sc.Steps, Step{Kind: "create", Pipe: 0})
	nw := r.Range(2, 5)
	second := -1
	if r.Chance(1, 3) {
		sc.Pipes = append(sc.Pipes, mkPipe(r, sc.Sources, fkind))
		second = r.Intn(nw)
	}
	delAt, restartAt := -1, -1
	if stream == "lifecycle" {
		if r.Chance(1, 2) {
			delAt = r.Range(1, nw-1)
		}
		restartAt = r.Range(1, nw-1)
	}
	adminAt := -1
	if r.Chance(1, 3) {
		adminAt = r.Intn(nw)
	}
	for w := 0; w < nw; w++ {
		if w == adminAt {
			sc.Steps = append(sc.Steps, Step{Kind: "admin", Pipe: 0})
		}
		if w == second {
			sc.Steps = append(sc.Steps, Step{Kind: "create", Pipe: 1})
		}
		if w == restartAt {
			sc.Steps = append(sc.Steps, Step{Kind: "restart"})
		}
		if w == delAt {
			// a control pipe sees the same notifications as the deleted one would
			ctl := PipeDef{Name: pipeName(), Match: make([]bool, ns)}
			for i := range ctl.Match {
				ctl.Match[i] = true
			}
			sc.Pipes = append(sc.Pipes, ctl)
			sc.Steps = append(sc.Steps, Step{Kind: "delete", Pipe: 0}, Step{Kind: "create", Pipe: len(sc.Pipes) - 1})
		}
		sc.Steps = append(sc.Steps, wave(false))
	}
	return sc
}

// genWave: a wave for the streams below. partial (may be nil) says whether the first request to source s in this wave
// is one that the server refuses half-way
func genWave(g *gen, r *Rng, ns int, multi, first bool, partial func(s int) bool) Step {
	st := Step{Kind: "wave"}
	one := true
	for s := 0; s < ns; s++ {
		if !r.Chance(3, 4) && !(first && s == 0) {
			continue
		}
		nb := 1
		if multi {
			nb = r.PickInt(1, 1, 2, 3)
		}
		if nb > 1 {
			one = false
		}
		for k := 0; k < nb; k++ {
			b := g.batch(s, r.PickInt(1, 1, 2, 3, 5, 8))
			if k == 0 && partial != nil && partial(s) {
				b.Refused = r.Range(1, 3)
			}
			st.Batches = append(st.Batches, b)
		}
	}
	if len(st.Batches) == 0 {
		st.Batches = append(st.Batches, g.batch(0, 2))
	}
	st.FlushFirst = one && r.Chance(1, 2)
	return st
}

// DELETE PIPE and CREATE PIPE again under the same name (names with characters the state-file name escapes), events
// written before, between and after; in a third of the scenarios some requests are refused half-way
func genRecreate(r *Rng) *Scenario {
	g := &gen{r: r, ts: int64(r.Range(0, 1000))}
	sc := &Scenario{Stream: "recreate", Chunk: 1 << 20}
	withPartial := r.Chance(1, 3)
	if withPartial {
		sc.MaxRec = 400
	} else if r.Chance(1, 3) {
		sc.Chunk = int64(r.PickInt(500, 2000))
	}
	small := sc.Chunk < 100000
	ns := r.Range(1, 3)
	sc.Sources = mkSources(r, ns)
	fkind := ""
	if r.Chance(1, 5) {
		fkind = "K"
	}
	p0 := mkPipe(r, sc.Sources, fkind)
	p0.NameKind = r.PickStr("us", "us", "us", "lead", "mix", "colon", "slash", "dots", "")
	p0.Name = pipeNameOf(p0.NameKind)
	sc.Pipes = []PipeDef{p0}
	cur := 0
	var part func(s int) bool
	if withPartial {
		part = func(s int) bool { return r.Chance(1, 2) }
	}
	if r.Chance(1, 2) {
		sc.Steps = append(sc.Steps, genWave(g, r, ns, !small, true, nil))
	}
	if r.Chance(1, 2) {
		// a pipe with an ordinary name that lives through it all
		ctl := PipeDef{Name: pipeName(), Match: make([]bool, ns)}
		for i := range ctl.Match {
			ctl.Match[i] = true
		}
		sc.Pipes = append(sc.Pipes, ctl)
		sc.Steps = append(sc.Steps, Step{Kind: "create", Pipe: 1})
	}
	sc.Steps = append(sc.Steps, Step{Kind: "create", Pipe: 0})
	for w := 0; w < r.Range(1, 2); w++ {
		sc.Steps = append(sc.Steps, genWave(g, r, ns, !small, w == 0, part))
	}
	cycles := r.PickInt(1, 1, 2)
	for c := 0; c < cycles; c++ {
		sc.Steps = append(sc.Steps, Step{Kind: "delete", Pipe: cur})
		if r.Chance(1, 3) {
			sc.Steps = append(sc.Steps, Step{Kind: "admin", Pipe: cur})
		}
		restartAt := -1
		nb := r.PickInt(0, 1, 1, 2)
		if r.Chance(1, 4) {
			restartAt = r.Range(0, nb)
		}
		for w := 0; w <= nb; w++ {
			if w == restartAt {
				sc.Steps = append(sc.Steps, Step{Kind: "restart"})
			}
			if w < nb {
				sc.Steps = append(sc.Steps, genWave(g, r, ns, !small, true, part))
			}
		}
		pd := p0
		pd.Epoch = cur + 1
		sc.Pipes = append(sc.Pipes, pd)
		cur = len(sc.Pipes) - 1
		sc.Steps = append(sc.Steps, Step{Kind: "create", Pipe: cur})
		for w := 0; w < r.Range(1, 2); w++ {
			sc.Steps = append(sc.Steps, genWave(g, r, ns, !small, w == 0, part))
		}
		if r.Chance(1, 5) {
			sc.Steps = append(sc.Steps, Step{Kind: "restart"}, genWave(g, r, ns, !small, true, part))
		}
	}
	return sc
}

// DELETE PIPE while a worker of the pipe stands between its journal write and saveState, then events while no pipe of
// the name exists, CREATE PIPE again under the name, more events
func genHeld(r *Rng) *Scenario {
	g := &gen{r: r, ts: int64(r.Range(0, 1000))}
	sc := &Scenario{Stream: "recreate-held", Chunk: 1 << 20}
	ns := r.Range(1, 2)
	sc.Sources = mkSources(r, ns)
	all := make([]bool, ns)
	for i := range all {
		all[i] = true
	}
	p0 := PipeDef{From: r.PickStr("", `sid like "s*"`), Match: all, NameKind: r.PickStr("", "us", "mix", "colon")}
	p0.Name = pipeNameOf(p0.NameKind)
	sc.Pipes = []PipeDef{p0}
	if r.Chance(1, 2) {
		sc.Steps = append(sc.Steps, genWave(g, r, ns, true, true, nil))
	}
	if r.Chance(1, 2) {
		sc.Pipes = append(sc.Pipes, PipeDef{Name: pipeName(), Match: all})
		sc.Steps = append(sc.Steps, Step{Kind: "create", Pipe: 1})
	}
	sc.Steps = append(sc.Steps, Step{Kind: "create", Pipe: 0})
	for w := 0; w < r.Range(1, 2); w++ {
		sc.Steps = append(sc.Steps, genWave(g, r, ns, true, w == 0, nil))
	}
	sc.Steps = append(sc.Steps, Step{Kind: "delete-held", Pipe: 0, Batches: []Batch{g.batch(0, r.Range(1, 5))}})
	for w := 0; w < r.Range(1, 2); w++ {
		sc.Steps = append(sc.Steps, genWave(g, r, ns, true, true, nil))
	}
	pd := p0
	pd.Epoch = 1
	sc.Pipes = append(sc.Pipes, pd)
	sc.Steps = append(sc.Steps, Step{Kind: "create", Pipe: len(sc.Pipes) - 1})
	for w := 0; w < r.Range(1, 2); w++ {
		sc.Steps = append(sc.Steps, genWave(g, r, ns, true, true, nil))
	}
	return sc
}

// every pipe of the server is deleted (no sentinel pipe: the registry becomes empty), clean restart, matching writes
func genDeleteAll(r *Rng) *Scenario {
	g := &gen{r: r, ts: int64(r.Range(0, 1000))}
	sc := &Scenario{Stream: "delete-all", Chunk: 1 << 20, NoBarrier: true}
	ns := r.Range(1, 3)
	sc.Sources = mkSources(r, ns)
	np := r.Range(1, 2)
	for i := 0; i < np; i++ {
		pd := mkPipe(r, sc.Sources, "")
		pd.NameKind = r.PickStr("", "", "us", "mix")
		pd.Name = pipeNameOf(pd.NameKind)
		sc.Pipes = append(sc.Pipes, pd)
		sc.Steps = append(sc.Steps, Step{Kind: "create", Pipe: i})
	}
	// sequential, notify-first waves only: nothing drains the notification channel for the harness here
	wave := func() Step {
		st := genWave(g, r, ns, false, true, nil)
		st.FlushFirst = false
		return st
	}
	for w := 0; w < r.Range(1, 2); w++ {
		sc.Steps = append(sc.Steps, wave())
	}
	if r.Chance(1, 3) {
		sc.Steps = append(sc.Steps, Step{Kind: "restart"}, wave())
	}
	for _, i := range r.Perm(np) {
		sc.Steps = append(sc.Steps, Step{Kind: "delete", Pipe: i})
		if r.Chance(1, 3) {
			sc.Steps = append(sc.Steps, wave())
		}
	}
	for c := 0; c < r.Range(1, 2); c++ {
		sc.Steps = append(sc.Steps, Step{Kind: "restart"})
		if r.Chance(1, 2) {
			sc.Steps = append(sc.Steps, Step{Kind: "admin", Pipe: 0})
		}
		sc.Steps = append(sc.Steps, wave())
	}
	return sc
}

// a burst: far more writers than the WriteEvent channel holds send at once (the notificatior stands at the pipe's lock);
// most of them write the first events of a partition the pipe has not seen
func genBurst(r *Rng) *Scenario {
	g := &gen{r: r, ts: int64(r.Range(0, 1000))}
	sc := &Scenario{Stream: "burst", Chunk: 1 << 20}
	ns := r.Range(115, 140)
	sc.Sources = mkSources(r, ns)
	all := make([]bool, ns)
	for i := range all {
		all[i] = true
	}
	sc.Pipes = []PipeDef{{Name: pipeName(), From: r.PickStr("", `sid like "s*"`), Match: all}}
	few := func() Step {
		st := Step{Kind: "wave", FlushFirst: r.Chance(1, 2)}
		for s := 0; s < 3; s++ {
			if s == 0 || r.Chance(1, 2) {
				st.Batches = append(st.Batches, g.batch(s, r.Range(1, 3)))
			}
		}
		return st
	}
	if r.Chance(1, 2) {
		sc.Steps = append(sc.Steps, few())
	}
	sc.Steps = append(sc.Steps, Step{Kind: "create", Pipe: 0})
	if r.Chance(1, 2) {
		sc.Steps = append(sc.Steps, few())
	}
	b := Step{Kind: "burst", Pipe: 0}
	for _, s := range r.Perm(ns) {
		b.Batches = append(b.Batches, g.batch(s, r.PickInt(1, 1, 1, 2)))
	}
	sc.Steps = append(sc.Steps, b)
	if r.Chance(1, 2) {
		sc.Steps = append(sc.Steps, few())
	}
	return sc
}

// fatEvent: an event whose record is exactly maxRec bytes (the source partition takes it; with the source's tags appended
// as fields it is bigger, and the pipe's partition refuses it)
func fatEvent(g *gen, maxRec int64) Ev {
	g.ts += 1
	n := int(maxRec)
	for n > 0 && int64((&model.LogEvent{Timestamp: g.ts, Msg: []byte(strings.Repeat("F", n))}).WritableSize()) > maxRec {
		n--
	}
	return Ev{Ts: g.ts, Msg: strings.Repeat("F", n), Keep: false}
}

// copySized: an event without fields of its own whose COPY (with the tags of the source as fields) is a record of exactly
// `size` bytes: size = MaxRecordSize is the biggest copy the destination takes, MaxRecordSize+1 the smallest it refuses
func copySized(g *gen, tags [][2]string, size int64, c string) Ev {
	g.ts += 1
	var kv []string
	for _, t := range tags {
		kv = append(kv, t[0], t[1])
	}
	f, _ := field.NewFieldsFromSlice(kv...)
	n := int(size)
	for n > 0 && int64((&model.LogEvent{Timestamp: g.ts, Msg: []byte(strings.Repeat(c, n)), Fields: f}).WritableSize()) > size {
		n--
	}
	return Ev{Ts: g.ts, Msg: strings.Repeat(c, n), Keep: false}
}

// a record whose copy the destination refuses every time: the pipes that reach it stay there (recorded finding), the
// events in front of it are copied once -- also across a clean restart taken while the worker sleeps between attempts
func genFat(r *Rng) *Scenario {
	g := &gen{r: r, ts: int64(r.Range(0, 1000))}
	sc := &Scenario{Stream: "refused-copy", Chunk: 1 << 20, MaxRec: int64(r.PickInt(300, 400))}
	ns := r.Range(1, 2)
	sc.Sources = mkSources(r, ns)
	all := make([]bool, ns)
	for i := range all {
		all[i] = true
	}
	p0 := PipeDef{Name: pipeName(), From: r.PickStr("", `sid like "s*"`), Match: all}
	if r.Chance(1, 4) {
		// the filter rejects the record: it is never handed to the destination and blocks nothing
		p0.FKind, p0.Where = "K", `msg contains "K"`
	}
	sc.Pipes = []PipeDef{p0}
	if r.Chance(1, 2) {
		sc.Steps = append(sc.Steps, genWave(g, r, ns, true, true, nil))
	}
	sc.Steps = append(sc.Steps, Step{Kind: "create", Pipe: 0})
	if r.Chance(1, 2) {
		sc.Pipes = append(sc.Pipes, PipeDef{Name: pipeName(), Match: all})
		sc.Steps = append(sc.Steps, Step{Kind: "create", Pipe: 1})
	}
	if r.Chance(2, 3) {
		sc.Steps = append(sc.Steps, genWave(g, r, ns, true, true, nil))
	}
	fb := g.batch(0, r.Range(0, 3))
	if r.Chance(1, 2) {
		// the biggest copy the destination takes goes through
		fb.Evs = append(fb.Evs, copySized(g, sc.Sources[0], sc.MaxRec, "G"))
	}
	if r.Chance(1, 2) {
		fb.Evs = append(fb.Evs, fatEvent(g, sc.MaxRec))
	} else {
		// the smallest copy it refuses
		fb.Evs = append(fb.Evs, copySized(g, sc.Sources[0], sc.MaxRec+1, "F"))
	}
	fb.Fat = len(fb.Evs)
	fb.Evs = append(fb.Evs, g.batch(0, r.Range(0, 3)).Evs...)
	fw := Step{Kind: "wave"}
	if r.Chance(1, 2) {
		fw.Batches = append(fw.Batches, g.batch(0, r.Range(1, 3)))
	}
	fw.Batches = append(fw.Batches, fb)
	if ns > 1 && r.Chance(1, 2) {
		fw.Batches = append(fw.Batches, g.batch(1, r.Range(1, 3)))
	}
	sc.Steps = append(sc.Steps, fw)
	for w := 0; w < r.Range(0, 2); w++ {
		sc.Steps = append(sc.Steps, genWave(g, r, ns, true, true, nil))
	}
	for c := 0; c < r.PickInt(0, 1, 1, 2); c++ {
		sc.Steps = append(sc.Steps, Step{Kind: "restart"})
		for w := 0; w < r.Range(1, 2); w++ {
			sc.Steps = append(sc.Steps, genWave(g, r, ns, true, true, nil))
		}
	}
	return sc
}

// TRUNCATE of a fully copied source partition under live pipes: with a parked worker (or a cached cursor) holding the
// partition only its chunks go; right after a restart the partition goes too, the pipes cleaner drops the descriptor,
// and what is written to those tags afterwards is a new partition. A second pipesCleaner with a period of milliseconds
// runs in most of these scenarios.
func genTruncate(r *Rng) *Scenario {
	g := &gen{r: r, ts: int64(r.Range(0, 1000))}
	sc := &Scenario{Stream: "truncate", Chunk: 1 << 20, Cleaner: r.Chance(3, 4)}
	if r.Chance(1, 2) {
		sc.Chunk = int64(r.PickInt(300, 500, 900))
	}
	small := sc.Chunk < 100000
	ns := r.Range(2, 3)
	sc.Sources = mkSources(r, ns)
	fkind := ""
	if r.Chance(1, 4) {
		fkind = "K"
	}
	sc.Pipes = []PipeDef{mkPipe(r, sc.Sources, fkind)}
	if r.Chance(1, 2) {
		sc.Steps = append(sc.Steps, genWave(g, r, ns, !small, true, nil))
	}
	sc.Steps = append(sc.Steps, Step{Kind: "create", Pipe: 0})
	if r.Chance(1, 2) {
		all := make([]bool, ns)
		for i := range all {
			all[i] = true
		}
		sc.Pipes = append(sc.Pipes, PipeDef{Name: pipeName(), Match: all})
		sc.Steps = append(sc.Steps, Step{Kind: "create", Pipe: 1})
	}
	for w := 0; w < r.Range(1, 2); w++ {
		sc.Steps = append(sc.Steps, genWave(g, r, ns, !small, true, nil))
	}
	for c := 0; c < r.Range(1, 3); c++ {
		if r.Chance(1, 2) {
			sc.Steps = append(sc.Steps, Step{Kind: "restart"})
		}
		sc.Steps = append(sc.Steps, Step{Kind: "truncate", Src: 0})
		if r.Chance(1, 3) {
			sc.Steps = append(sc.Steps, Step{Kind: "admin", Pipe: 0})
		}
		for w := 0; w < r.Range(1, 2); w++ {
			sc.Steps = append(sc.Steps, genWave(g, r, ns, !small, true, nil))
		}
	}
	return sc
}

// requests refused half-way (a record bigger than MaxRecordSize behind valid events): the stored prefix is copied like
// any other events; mostly as the FIRST write to a source since the pipe was created
func genPartial(r *Rng) *Scenario {
	g := &gen{r: r, ts: int64(r.Range(0, 1000))}
	sc := &Scenario{Stream: "partial", Chunk: 1 << 20, MaxRec: int64(r.PickInt(300, 400, 600))}
	ns := r.Range(1, 3)
	sc.Sources = mkSources(r, ns)
	fkind := ""
	if r.Chance(1, 4) {
		fkind = "K"
	}
	sc.Pipes = []PipeDef{mkPipe(r, sc.Sources, fkind)}
	fresh := make([]bool, ns)
	part := func(s int) bool {
		if fresh[s] {
			return r.Chance(2, 3)
		}
		return r.Chance(1, 4)
	}
	wave := func(first bool) {
		st := genWave(g, r, ns, true, first, part)
		for _, b := range st.Batches {
			fresh[b.Src] = false
		}
		sc.Steps = append(sc.Steps, st)
	}
	create := func(i int) {
		sc.Steps = append(sc.Steps, Step{Kind: "create", Pipe: i})
		for s := range fresh {
			fresh[s] = true
		}
	}
	if r.Chance(1, 2) {
		wave(true)
	}
	create(0)
	nw := r.Range(2, 4)
	second := -1
	if r.Chance(1, 3) {
		sc.Pipes = append(sc.Pipes, mkPipe(r, sc.Sources, fkind))
		second = r.Range(1, nw-1)
	}
	for w := 0; w < nw; w++ {
		if w == second {
			create(1)
		}
		wave(w == 0)
	}
	return sc
}

// two concurrent first writers (the schedule hook inverts their notifications)
func genRace(r *Rng) *Scenario {
	g := &gen{r: r, ts: 100}
	sc := &Scenario{Stream: "race", Chunk: 1 << 20}
	sc.Sources = mkSources(r, 2)
	p := PipeDef{Name: pipeName(), Match: []bool{true, true}}
	sc.Pipes = []PipeDef{p}
	if r.Chance(1, 2) {
		sc.Steps = append(sc.Steps, Step{Kind: "wave", Batches: []Batch{g.batch(0, r.Range(1, 4))}})
	}
	sc.Steps = append(sc.Steps, Step{Kind: "create", Pipe: 0})
	if r.Chance(1, 2) {
		sc.Steps = append(sc.Steps, Step{Kind: "wave", Batches: []Batch{g.batch(1, r.Range(1, 3))}})
	}
	sc.Steps = append(sc.Steps, Step{Kind: "race", FlushFirst: r.Chance(2, 3), Batches: []Batch{g.batch(0, r.Range(1, 4)), g.batch(0, r.Range(1, 4))}})
	if r.Chance(1, 2) {
		sc.Steps = append(sc.Steps, Step{Kind: "wave", Batches: []Batch{g.batch(0, r.Range(1, 3)), g.batch(1, 2)}})
	}
	return sc
}

// worker idle time-out with a write just before it (exercises workerDone's re-arm); takes a little over 10 s
func genRearm(r *Rng) *Scenario {
	g := &gen{r: r, ts: 100}
	sc := &Scenario{Stream: "rearm", Chunk: 1 << 20}
	sc.Sources = mkSources(r, 1)
	sc.Pipes = []PipeDef{{Name: pipeName(), Match: []bool{true}}}
	sc.Steps = []Step{{Kind: "create", Pipe: 0},
		{Kind: "wave", Batches: []Batch{g.batch(0, r.Range(1, 3))}},
		{Kind: "rearm", Batches: []Batch{g.batch(0, r.Range(1, 3))}},
		{Kind: "wave", Batches: []Batch{g.batch(0, 2)}}}
	return sc
}

// events acknowledged right before CREATE PIPE and not yet readable at that moment
func genUnflushed(r *Rng) *Scenario {
	g := &gen{r: r, ts: 100}
	sc := &Scenario{Stream: "unflushed-history", Chunk: 1 << 20}
	ns := r.Range(1, 3)
	sc.Sources = mkSources(r, ns)
	p := PipeDef{Name: pipeName(), Match: make([]bool, ns)}
	for i := range p.Match {
		p.Match[i] = true
	}
	sc.Pipes = []PipeDef{p}
	if r.Chance(1, 2) {
		st := Step{Kind: "wave", FlushFirst: true}
		for s := 0; s < ns; s++ {
			st.Batches = append(st.Batches, g.batch(s, r.Range(1, 3)))
		}
		sc.Steps = append(sc.Steps, st)
	}
	pre := Step{Kind: "wave", NoSync: true}
	for s := 0; s < ns; s++ {
		pre.Batches = append(pre.Batches, g.batch(s, r.Range(1, 3)))
	}
	sc.Steps = append(sc.Steps, pre, Step{Kind: "create", Pipe: 0})
	for w := 0; w < r.Range(1, 3); w++ {
		st := Step{Kind: "wave", FlushFirst: r.Chance(1, 3)}
		for s := 0; s < ns; s++ {
			st.Batches = append(st.Batches, g.batch(s, r.Range(1, 4)))
		}
		sc.Steps = append(sc.Steps, st)
	}
	return sc
}

// a pipe created while the WriteEvent of a completed write is still queued
func genStale(r *Rng) *Scenario {
	g := &gen{r: r, ts: 100}
	sc := &Scenario{Stream: "stale-notification", Chunk: 1 << 20}
	ns := r.Range(1, 2)
	sc.Sources = mkSources(r, ns)
	all := make([]bool, ns)
	for i := range all {
		all[i] = true
	}
	sc.Pipes = []PipeDef{{Name: pipeName(), Match: all}, {Name: pipeName(), Match: all}}
	first := Step{Kind: "wave", FlushFirst: r.Chance(1, 2)}
	for s := 0; s < ns; s++ {
		first.Batches = append(first.Batches, g.batch(s, r.Range(1, 3)))
	}
	sc.Steps = []Step{{Kind: "create", Pipe: 0}, first,
		{Kind: "stale", Pipe: 1, Batches: []Batch{g.batch(0, r.Range(1, 3)), g.batch(0, r.Range(1, 3))}}}
	for w := 0; w < r.Range(0, 2); w++ {
		st := Step{Kind: "wave", FlushFirst: r.Chance(1, 2)}
		for s := 0; s < ns; s++ {
			st.Batches = append(st.Batches, g.batch(s, r.Range(1, 3)))
		}
		sc.Steps = append(sc.Steps, st)
	}
	return sc
}

// concurrent writers on sources every live pipe already knows
func genPar(r *Rng) *Scenario {
	g := &gen{r: r, ts: 100}
	sc := &Scenario{Stream: "parallel", Chunk: 1 << 20}
	ns := r.Range(1, 3)
	sc.Sources = mkSources(r, ns)
	p := PipeDef{Name: pipeName(), Match: make([]bool, ns)}
	for i := range p.Match {
		p.Match[i] = true
	}
	sc.Pipes = []PipeDef{p}
	sc.Steps = append(sc.Steps, Step{Kind: "create", Pipe: 0})
	first := Step{Kind: "wave"}
	for s := 0; s < ns; s++ {
		first.Batches = append(first.Batches, g.batch(s, r.Range(1, 3)))
	}
	sc.Steps = append(sc.Steps, first)
	for w := 0; w < r.Range(1, 3); w++ {
		st := Step{Kind: "wave", Par: true, FlushFirst: r.Chance(1, 2)}
		for s := 0; s < ns; s++ {
			for k := 0; k < r.Range(2, 3); k++ {
				st.Batches = append(st.Batches, g.batch(s, r.Range(1, 4)))
			}
		}
		sc.Steps = append(sc.Steps, st)
	}
	return sc
}

// the witnesses of C10_exact_filter_refuted and C10_exact_reorder_refuted on the implementation
func corpus() []*Scenario {
	src := [][][2]string{{{"app", "a0"}, {"env", "x"}, {"sid", "s0"}}}
	flt := &Scenario{Stream: "corpus-filter", Chunk: 1 << 20, Sources: src,
		Pipes: []PipeDef{{Name: pipeName(), Where: `msg contains "K"`, FKind: "K", Match: []bool{true}}},
		Steps: []Step{{Kind: "create"}, {Kind: "wave", Batches: []Batch{{Src: 0, Evs: []Ev{{Ts: 7, Msg: "drop", Keep: false}}}}}}}
	race := &Scenario{Stream: "corpus-race", Chunk: 1 << 20, Sources: src,
		Pipes: []PipeDef{{Name: pipeName(), Match: []bool{true}}},
		Steps: []Step{{Kind: "create"}, {Kind: "race", FlushFirst: true, Batches: []Batch{{Src: 0, Evs: []Ev{{Ts: 1, Msg: "a", Keep: false}}}, {Src: 0, Evs: []Ev{{Ts: 2, Msg: "b", Keep: false}}}}}}}
	// the witness of C10_recreate_stale_refuted: the positions a worker saves after DELETE PIPE must not reach a pipe
	// created later under the name
	hn := pipeName()
	held := &Scenario{Stream: "corpus-held-delete", Chunk: 1 << 20, Sources: src,
		Pipes: []PipeDef{{Name: hn, Match: []bool{true}}, {Name: hn, Match: []bool{true}, Epoch: 1}},
		Steps: []Step{{Kind: "create"},
			{Kind: "wave", Batches: []Batch{{Src: 0, Evs: []Ev{{Ts: 1, Msg: "a", Keep: false}, {Ts: 2, Msg: "b", Keep: false}}}}},
			{Kind: "delete-held", Batches: []Batch{{Src: 0, Evs: []Ev{{Ts: 3, Msg: "c", Keep: false}}}}},
			{Kind: "wave", Batches: []Batch{{Src: 0, Evs: []Ev{{Ts: 4, Msg: "between", Keep: false}}}}},
			{Kind: "create", Pipe: 1},
			{Kind: "wave", Batches: []Batch{{Src: 0, Evs: []Ev{{Ts: 5, Msg: "after", Keep: false}}}}}}}
	// the witness of C10_restart_while_retrying_refuted: a, b are stored in the destination, the write fails at the record
	// whose copy is too big (for ever: the recorded finding pipe-blocked-by-oversized-copy), clean restart while the
	// worker sleeps, the next write starts a worker: a, b must not be copied again
	fe := fatEvent(&gen{ts: 2}, 300)
	refused := &Scenario{Stream: "corpus-refused-copy", Chunk: 1 << 20, MaxRec: 300, Sources: src,
		Pipes: []PipeDef{{Name: pipeName(), Match: []bool{true}}},
		Steps: []Step{{Kind: "create"},
			{Kind: "wave", Batches: []Batch{{Src: 0, Fat: 3, Evs: []Ev{{Ts: 1, Msg: "a", Keep: false}, {Ts: 2, Msg: "b", Keep: false}, fe, {Ts: 4, Msg: "d", Keep: false}}}}},
			{Kind: "restart"},
			{Kind: "wave", Batches: []Batch{{Src: 0, Evs: []Ev{{Ts: 5, Msg: "e", Keep: false}}}}}}}
	// the ends of the input dimensions in one fixed scenario: timestamps (ends of int64, zero, negative, equal, going
	// back), an empty message, bytes that are not UTF-8, separators/quotes/blanks/control bytes in messages, field names
	// and values and in a tag value (the last of the line, ending with the closing brace), an empty field value, own
	// fields named like tags; two clean restarts in a row, a restart right after CREATE PIPE
	esrc := [][][2]string{{{"app", "a0"}, {"env", "x"}, {"sid", "s0"}, {"x", "a b,c=d}"}}}
	edge := &Scenario{Stream: "corpus-edge-inputs", Chunk: 1 << 20, Sources: esrc,
		Pipes: []PipeDef{{Name: pipeName(), Match: []bool{true}}},
		Steps: []Step{{Kind: "create"}, {Kind: "restart"},
			{Kind: "wave", Batches: []Batch{{Src: 0, Evs: []Ev{
				{Ts: math.MinInt64, Msg: "min"}, {Ts: math.MaxInt64, Msg: "max"}, {Ts: 0, Msg: ""}, {Ts: -1, Msg: "neg"},
				{Ts: 5, Msg: "five"}, {Ts: 5, Msg: "five again"}, {Ts: 4, Msg: "back"},
				{Ts: 6, MsgHex: "6e6f20757466fffec3"}, {Ts: 7, Msg: "a\nb,c=d \"q\" 'r' `s` {t}\x00"},
				{Ts: 8, Msg: "f1", Flds: [][2]string{{"k", ""}, {"a b", "c,d=e\"f"}, {"ä", "日本"}}},
				{Ts: 9, Msg: "f2", Flds: [][2]string{{"sid", "s0"}, {"x", "a b,c=d}"}, {"env", "x"}}}}}}},
			{Kind: "restart"}, {Kind: "restart"},
			{Kind: "wave", Batches: []Batch{{Src: 0, Evs: []Ev{{Ts: 3, Msg: "after"}}}}}}}
	// a server whose only pipe is the one under test (every other scenario also has the harness's sentinel pipe)
	single := &Scenario{Stream: "corpus-single-pipe", Chunk: 1 << 20, NoBarrier: true, Sources: src,
		Pipes: []PipeDef{{Name: pipeName(), From: "app=a0", Match: []bool{true}}},
		Steps: []Step{{Kind: "create"},
			{Kind: "wave", Batches: []Batch{{Src: 0, Evs: []Ev{{Ts: 1, Msg: "a"}, {Ts: 2, Msg: "b"}}}}},
			{Kind: "wave", FlushFirst: true, Batches: []Batch{{Src: 0, Evs: []Ev{{Ts: 3, Msg: "c"}}}}},
			{Kind: "restart"},
			{Kind: "wave", Batches: []Batch{{Src: 0, Evs: []Ev{{Ts: 4, Msg: "d"}}}}},
			// the only pipe is deleted (the registry becomes empty), clean restart, a matching write: nothing is copied,
			// nothing is listed (witness of C10_deleted_pipe_back_refuted)
			{Kind: "delete"}, {Kind: "restart"},
			{Kind: "wave", Batches: []Batch{{Src: 0, Evs: []Ev{{Ts: 5, Msg: "e"}}}}},
			{Kind: "restart"},
			{Kind: "wave", Batches: []Batch{{Src: 0, Evs: []Ev{{Ts: 6, Msg: "f"}}}}}}}
	return []*Scenario{flt, race, held, refused, edge, single}
}

const rule = "end-to-end scenarios on an in-process server: 1-4 source partitions (unique sid tag), 1-3 pipes over four source-condition shapes, waves of 1-3 batches of 1-13 events per source (chunk size 300-2000 bytes in half of the scenarios so that batches straddle roll-overs), pipe creation before/after existing history, a second pipe created mid-history, DELETE PIPE with a control pipe, clean restart, two first writers with inverted notifications (schedule hook), concurrent writers on known sources, worker idle time-out with a write shortly before it, DELETE PIPE + CREATE PIPE again under the same name (names with '_', '/', ':', '.', '-', upper case; events before, between and after; one case per epoch), the same with DELETE PIPE while a worker of the pipe is held between its journal write and saveState (schedule point in ppipe.saveState), TRUNCATE of a fully copied source under live pipes (chunks only while something holds the partition; the partition itself right after a restart, then the pipes cleaner -- a second one with a period of milliseconds -- drops the descriptor and later writes go to a new partition), a record whose copy with the provenance fields exceeds MaxRecordSize (the destination refuses it every time; with clean restarts while the worker sleeps between attempts), deletion of EVERY pipe of a server without the harness's sentinel pipe followed by clean restarts and matching writes, a burst of 115-140 concurrent writers (most of them first writers of their partition) whose WriteEvents outnumber the channel's 100 slots while the notificatior stands at the pipe's lock, registry operations that must be refused (second CREATE PIPE of a live name, conditions that do not compile, DELETE PIPE of an unknown name) or answered (DESCRIBE PIPE, list of pipes), requests refused half-way on a server with a small MaxRecordSize (the stored prefix counts as written; mostly the first write to a source since the pipe exists); one case per (pipe epoch, source); non-trivial iff the source matches the pipe and either a notification reached the pipe while it already knew the source (worker charged), or a restart/delete/re-creation/race/re-arm step was taken; distinct by scenario/pipe/source"

// closeFdPool: the journal controller of the range library has no shutdown, so the reader file descriptors pooled by
// a stopped server stay open for the life of the process (about 25 per scenario; a thorough run starts thousands of
// servers in one process and ran into EMFILE, on which the library panics with a nil chunk controller). The harness
// closes the pool of every server it has stopped.
func closeFdPool(srv *Server) {
	defer func() { recover() }()
	v := reflect.ValueOf(srv.JCtrl).Elem().FieldByName("fdPool")
	if v.IsValid() && v.Kind() == reflect.Ptr && !v.IsNil() {
		(*chunkfs.FdPool)(unsafe.Pointer(v.Pointer())).Close()
	}
}

func runScenario(sc *Scenario) ([]Case, error) {
	if atomic.LoadInt32(&badScenarios) >= 6 {
		return nil, nil
	}
	normScenario(sc)
	r := &runner{sc: sc}
	defer func() {
		if r.srv != nil {
			r.srv.Stop()
			closeFdPool(r.srv)
		}
		if r.dir != "" {
			RemoveAll(r.dir)
		}
	}()
	if err := r.run(); err != nil && err != errVerdict {
		return nil, err
	}
	if r.viol != nil {
		atomic.AddInt32(&badScenarios, 1)
	}
	cases, err := r.finish()
	if err == nil && r.viol == nil && len(cases) > 0 && cases[0].Oracle != nil {
		switch cases[0].Oracle.Class {
		case "pipe-first-notification-reorder", "pipe-copied-unflushed-history", "pipe-copied-pre-creation-events":
		default:
			atomic.AddInt32(&badScenarios, 1)
		}
	}
	return cases, err
}

func main() {
	Main("C10", "C10K", func(c *Ctx) error {
		partition.VC10SetHook(hook)
		cursor.VC11SetHook(waitHook)
		pipe.VC10SetPipeHook(pipeHook)
		if c.Replay != nil {
			var sc Scenario
			if err := FromJSON(c.Replay, &sc); err != nil {
				return err
			}
			if n, _ := strconv.Atoi(os.Getenv("C10_STRESS")); n > 0 {
				bad := 0
				var mu sync.Mutex
				Parallel(n, 16, func(i int) {
					sc2 := sc
					sc2.Pipes = append([]PipeDef{}, sc.Pipes...)
					renamePipes(&sc2)
					cases, err := runScenario(&sc2)
					mu.Lock()
					defer mu.Unlock()
					if err != nil {
						fmt.Println("ERR", err)
						return
					}
					for _, cs := range cases {
						if cs.Oracle != nil {
							fmt.Println(i, cs.Oracle.Class, cs.Oracle.Detail)
							bad++
							break
						}
					}
				})
				fmt.Println("stress: bad", bad, "of", n)
				return c.Finish(rule)
			}
			// pipe names are fresh per run
			renamePipes(&sc)
			cases, err := runScenario(&sc)
			if err != nil {
				return err
			}
			for _, cs := range cases {
				c.Add(cs)
			}
			return c.Finish(rule)
		}
		var jobs []*Scenario
		jobs = append(jobs, corpus()...)
		for i := 0; i < c.N(3); i++ {
			jobs = append(jobs, genRearm(c.Rng.Fork()))
		}
		for i := 0; i < c.N(40); i++ {
			jobs = append(jobs, genScenario(c.Rng.Fork(), "waves"))
		}
		for i := 0; i < c.N(24); i++ {
			jobs = append(jobs, genScenario(c.Rng.Fork(), "lifecycle"))
		}
		for i := 0; i < c.N(8); i++ {
			jobs = append(jobs, genScenario(c.Rng.Fork(), "filter"))
		}
		for i := 0; i < c.N(8); i++ {
			jobs = append(jobs, genRace(c.Rng.Fork()))
		}
		for i := 0; i < c.N(10); i++ {
			jobs = append(jobs, genPar(c.Rng.Fork()))
		}
		for i := 0; i < c.N(8); i++ {
			jobs = append(jobs, genUnflushed(c.Rng.Fork()))
		}
		for i := 0; i < c.N(6); i++ {
			jobs = append(jobs, genStale(c.Rng.Fork()))
		}
		for i := 0; i < c.N(14); i++ {
			jobs = append(jobs, genRecreate(c.Rng.Fork()))
		}
		for i := 0; i < c.N(10); i++ {
			jobs = append(jobs, genPartial(c.Rng.Fork()))
		}
		for i := 0; i < c.N(4); i++ {
			jobs = append(jobs, genHeld(c.Rng.Fork()))
		}
		for i := 0; i < c.N(10); i++ {
			jobs = append(jobs, genTruncate(c.Rng.Fork()))
		}
		for i := 0; i < c.N(8); i++ {
			jobs = append(jobs, genFat(c.Rng.Fork()))
		}
		for i := 0; i < c.N(2); i++ {
			jobs = append(jobs, genBurst(c.Rng.Fork()))
		}
		for i := 0; i < c.N(6); i++ {
			jobs = append(jobs, genDeleteAll(c.Rng.Fork()))
		}
		results := make([][]Case, len(jobs))
		errs := make([]error, len(jobs))
		Parallel(len(jobs), 8, func(i int) {
			results[i], errs[i] = runScenario(jobs[i])
		})
		for i := range jobs {
			if errs[i] != nil {
				return fmt.Errorf("scenario %d (%s): %v", i, jobs[i].Stream, errs[i])
			}
			for _, cs := range results[i] {
				c.Add(cs)
			}
			c.Tag("scenario:" + jobs[i].Stream)
			for _, t := range edgeTags(jobs[i]) {
				c.Tag(t)
			}
		}
		c.Note("burst-steps", fmt.Sprintf("%d, up to %d WriteEvents pending in the channel (capacity 100)", atomic.LoadInt32(&burstSteps), atomic.LoadInt32(&burstMaxPending)))
		c.Note("truncate-steps", fmt.Sprintf("partition deleted: %d, chunks only: %d", atomic.LoadInt32(&truncDeleted), atomic.LoadInt32(&truncKept)))
		return c.Finish(rule)
	})
}
