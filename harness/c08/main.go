// C08 harness: drives the real kvstring / tag / field code with generated texts, tag maps and field lists,
// records what they answer as CASES of kcheck/C08K.v (the Coq model is then evaluated on the same inputs),
// and evaluates the property itself (emit, re-parse, compare) as an oracle on the implementation's answers.
package main

import (
	"bytes"
	"context"
	"encoding/json"
	"fmt"
	"io/ioutil"
	"os"
	"path/filepath"
	"sort"
	"strconv"
	"strings"
	"time"
	"unicode/utf8"

	"github.com/logrange/logrange/api"

	"github.com/logrange/logrange/pkg/model"
	"github.com/logrange/logrange/pkg/model/field"
	"github.com/logrange/logrange/pkg/model/tag"
	"github.com/logrange/logrange/pkg/utils/kvstring"
	rbytes "github.com/logrange/range/pkg/utils/bytes"
	. "verifharness/common"
)

type Pair struct {
	K []byte `json:"k"`
	V []byte `json:"v"`
}

// Replay is a self-contained case description
type Replay struct {
	Kind  string     `json:"kind"` // split|curly|trim|parse|line|prov|fparse|fprint|quote|unquote
	S     []byte     `json:"s,omitempty"`
	Pairs []Pair     `json:"pairs,omitempty"`
	Text  string     `json:"text,omitempty"` // printable rendering of S / Pairs (information only)
	Evs   []E2EEvent `json:"evs,omitempty"`  // e2e, pipe: the events written to one in-process server
	TL    []byte     `json:"tl,omitempty"`   // vars: the tag line handed to the formatter if it is not the line of Pairs
}

// E2EEvent is one write of one event
type E2EEvent struct {
	Tags []byte `json:"t"`
	WF   []byte `json:"wf"`
	EF   []byte `json:"ef"`
}

const rule = "tag texts: exhaustive strings of length <= 3 over 9 symbols, spellings (quoted/raw/back-quoted values, blanks, braces, order) of random maps over an alphabet rich in quote, back-quote, backslash, comma, equals, braces, blank, NUL and bytes >= 0x80, mutated spellings and random strings; tag maps and field lists from the same alphabet printed and re-parsed (also through NewFieldsFromSlice/NewFields/MergeWithMap/Concat/Value and the JSON form and accessors of tag.Set); the {vars} element of the formatter for accepted tag sets and field lists; one in-process server with a pipe: events with fields of their own written into source partitions with hostile-but-legal tag sets, the copies read from the destination; a case is non-trivial iff the text/map/list has at least one pair and at least one byte of the special alphabet, or (for the component functions) the input is non-empty"

var special = []byte{'"', '\\', ',', '=', '{', '}', '`', ' ', 0, 0x80, 0xff, 0xc3, 0xa9, '\n', '\t'}
var letters = []byte("abcxyz01AZ._-")
var small9 = []byte{'a', 'b', '=', ',', '"', '\\', ' ', '{', '}'}

func isSpecial(b []byte) bool {
	for _, c := range b {
		if bytes.IndexByte(special, c) >= 0 {
			return true
		}
	}
	return false
}

func genStr(r *Rng, maxLen int, pSpecial int) []byte {
	n := r.Intn(maxLen + 1)
	b := make([]byte, n)
	for i := range b {
		if r.Intn(100) < pSpecial {
			b[i] = special[r.Intn(len(special))]
		} else {
			b[i] = letters[r.Intn(len(letters))]
		}
	}
	return b
}

func genName(r *Rng, pSpecial int) []byte {
	for {
		b := genStr(r, 3, pSpecial)
		if len(b) > 0 {
			return b
		}
	}
}

// genMap: unique names
func genPairs(r *Rng, maxPairs int, pNameSpecial, pValSpecial int, unique bool) []Pair {
	if r.Chance(1, 10) {
		maxPairs *= 4 // one list in ten is wide: up to 16 pairs (sorting, the splitter's buffer, the last/first edges far apart)
	}
	n := r.Intn(maxPairs + 1)
	var ps []Pair
	seen := map[string]bool{}
	for i := 0; i < n; i++ {
		k := genName(r, pNameSpecial)
		if unique && seen[string(k)] {
			continue
		}
		seen[string(k)] = true
		ps = append(ps, Pair{K: k, V: genStr(r, r.PickInt(6, 6, 6, 6, 6, 2, 24), pValSpecial)}) // mostly up to 6 bytes, sometimes up to 24
	}
	return ps
}

func blanks(r *Rng) string {
	if r.Chance(1, 4) {
		return "  "[:r.Range(1, 2)]
	}
	return ""
}

// spell renders pairs as a kv text: values quoted with strconv.Quote, raw, or back-quoted; optional blanks and braces
func spell(r *Rng, ps []Pair, quoteNames bool) []byte {
	var sb bytes.Buffer
	for i, p := range ps {
		if i > 0 {
			sb.WriteByte(',')
		}
		sb.WriteString(blanks(r))
		if quoteNames && r.Chance(1, 3) {
			sb.WriteString(strconv.Quote(string(p.K)))
		} else {
			sb.Write(p.K)
		}
		sb.WriteString(blanks(r))
		sb.WriteByte('=')
		sb.WriteString(blanks(r))
		x := r.Intn(10)
		switch {
		case x < 5:
			sb.WriteString(strconv.Quote(string(p.V)))
		case x < 9 || bytes.IndexByte(p.V, '`') >= 0:
			sb.Write(p.V)
			if r.Chance(1, 5) {
				sb.WriteByte('\\') // an unquoted value ending in a backslash: before the next separator or at the end of the text
				continue
			}
		default:
			sb.WriteByte('`')
			sb.Write(p.V)
			sb.WriteByte('`')
		}
		sb.WriteString(blanks(r))
	}
	s := sb.Bytes()
	if r.Chance(1, 3) {
		d := r.Range(1, 2)
		var w bytes.Buffer
		w.WriteString(blanks(r))
		for i := 0; i < d; i++ {
			w.WriteByte('{')
			w.WriteString(blanks(r))
		}
		w.Write(s)
		for i := 0; i < d; i++ {
			w.WriteString(blanks(r))
			w.WriteByte('}')
		}
		w.WriteString(blanks(r))
		s = w.Bytes()
	}
	return s
}

func mutate(r *Rng, s []byte) []byte {
	s = append([]byte{}, s...)
	for k := r.Range(1, 2); k > 0; k-- {
		switch r.Intn(3) {
		case 0:
			if len(s) > 0 {
				i := r.Intn(len(s))
				s = append(s[:i], s[i+1:]...)
			}
		case 1:
			i := r.Intn(len(s) + 1)
			s = append(s[:i], append([]byte{special[r.Intn(len(special))]}, s[i:]...)...)
		default:
			if len(s) > 0 {
				s[r.Intn(len(s))] = special[r.Intn(len(special))]
			}
		}
	}
	return s
}

// ---------- calls into /repo: a panic becomes an observation ----------

// callPanic is what a wrapped call into the implementation re-panics with; mkCase turns it into a case
type callPanic struct {
	fn, in, val string
}

func guard(fn, in string) {
	if r := recover(); r != nil {
		if cp, ok := r.(callPanic); ok {
			panic(cp)
		}
		panic(callPanic{fn: fn, in: in, val: fmt.Sprint(r)})
	}
}

func rParse(s string) (set tag.Set, err error) {
	defer guard("tag.Parse", s)
	return tag.Parse(s)
}
func rToMap(s string) (m map[string]string, err error) {
	defer guard("kvstring.ToMap", s)
	return kvstring.ToMap(s)
}
func rCurly(s string) (r string, err error) {
	defer guard("kvstring.RemoveCurlyBraces", s)
	return kvstring.RemoveCurlyBraces(s)
}
func rSplit(s string) (r []string, err error) {
	defer guard("kvstring.SplitString", s)
	return kvstring.SplitString(s, '=', ',', nil)
}
func rTrim(s string) string {
	defer guard("kvstring.TrimSpaces", s)
	return kvstring.TrimSpaces(s)
}
func rNewFields(s string) (f field.Fields, err error) {
	defer guard("field.NewFieldsFromKVString", s)
	return field.NewFieldsFromKVString(s)
}
func rFieldParse(s string) field.Fields {
	defer guard("field.Parse", s)
	return field.Parse(s)
}
func rCheck(s string) (f field.Fields, err error) {
	defer guard("field.Check", s)
	return field.Check(s)
}
func rMapToSet(m map[string]string) tag.Set {
	defer guard("tag.MapToSet", fmt.Sprint(m))
	return tag.MapToSet(m)
}

// quiet runs f and swallows a panic (generator-side uses only: the case that follows reports it)
func quiet(f func()) {
	defer func() { recover() }()
	f()
}

// ---------- oracle helpers (independent of the Coq model) ----------

// scanBalanced simulates what SplitString does over one piece: false if the piece holds a separator outside a
// string, ends inside a string or in a skipping backslash
func scanBalanced(v []byte) bool {
	in := false
	for i := 0; i < len(v); i++ {
		c := v[i]
		switch {
		case c == '"':
			in = !in
		case c == '\\' && in:
			i++
			if i >= len(v) {
				return false
			}
		case (c == '=' || c == ',') && !in:
			return false
		}
	}
	return !in
}

func edgeBlank(v []byte) bool { return len(v) > 0 && (v[0] == ' ' || v[len(v)-1] == ' ') }

// tagNeedsQuote: which values tagMap.line() writes as quoted literals (valueNeedsQuote of the code; last = the pair
// is the last one of the line)
func tagNeedsQuote(v []byte, last bool) bool {
	if tagNeedsQuoteOld(v) {
		return true
	}
	if v[0] == ' ' || v[len(v)-1] == ' ' || v[0] == '"' || v[0] == '`' {
		return true
	}
	if bytes.IndexByte(v, '\n') >= 0 {
		return true // a line is one line (the line-break repair)
	}
	return last && v[len(v)-1] == '}'
}

// tagNeedsQuoteOld / fldNeedsQuoteOld: the predicates of the printers before the quoting repair; they only serve to
// name the class of a failure the repaired printers cannot produce (a regression), see classifyTagsLegacy
func tagNeedsQuoteOld(v []byte) bool {
	return len(v) == 0 || bytes.IndexByte(v, '=') >= 0 || bytes.IndexByte(v, ',') >= 0
}
func fldNeedsQuoteOld(v []byte) bool {
	return bytes.IndexByte(v, '=') >= 0 || bytes.IndexByte(v, ',') >= 0
}

func nameUnsafe(k []byte) bool { return len(k) == 0 || edgeBlank(k) || !scanBalanced(k) }

func rawValueClass(prefix string, v []byte) string {
	switch {
	case len(v) == 0:
		return ""
	case v[0] == '"':
		return prefix + "-value-leading-dquote"
	case !scanBalanced(v):
		return prefix + "-value-unbalanced-dquote"
	case v[0] == '`':
		return prefix + "-value-leading-backquote"
	case edgeBlank(v):
		return prefix + "-value-edge-blank"
	}
	return ""
}

// classifyTags names the input class of a tag map whose printed line does not parse back to it. First the classes
// that exist with the printer of the code (names are printed as they are; a raw-printed value with an unbalanced
// double quote is pinned by TestTagLine); if none applies, the classes of the repaired defects (values that the
// earlier line() printed raw): with the code such a map comes back, so the name is reported only on a regression.
func classifyTags(m map[string]string) string {
	if c := classifyTagsNow(m); c != "" {
		return c
	}
	return classifyTagsLegacy(m)
}

func classifyTagsNow(m map[string]string) string {
	keys := make([]string, 0, len(m))
	for k := range m {
		keys = append(keys, k)
	}
	sort.Strings(keys)
	for _, k := range keys {
		if nameUnsafe([]byte(k)) {
			return "tagmap-name-unsafe"
		}
	}
	// an unbalanced double quote in any raw-printed value breaks the split of the whole line
	for i, k := range keys {
		v := []byte(m[k])
		if !tagNeedsQuote(v, i == len(keys)-1) && !scanBalanced(v) {
			return "tagline-value-unbalanced-dquote"
		}
	}
	if len(keys) > 0 && keys[0][0] == '{' {
		return "tagline-first-name-leading-brace"
	}
	return ""
}

func classifyTagsLegacy(m map[string]string) string {
	keys := make([]string, 0, len(m))
	for k := range m {
		keys = append(keys, k)
	}
	sort.Strings(keys)
	for _, k := range keys {
		v := []byte(m[k])
		if tagNeedsQuoteOld(v) {
			continue
		}
		if c := rawValueClass("tagline", v); c != "" {
			return c
		}
	}
	if len(keys) > 0 {
		last := []byte(m[keys[len(keys)-1]])
		if !tagNeedsQuoteOld(last) && last[len(last)-1] == '}' {
			return "tagline-last-value-trailing-brace"
		}
	}
	return ""
}

// classifyFields names the input class of a field list (name,value,name,value...) whose text does not parse back to
// it. With the AsKVString / NewFieldsFromKVString of the code every well-formed list comes back (C08_fields): these
// are the classes of the repaired defects, and a failure (reported under its name) is a regression.
func classifyFields(items [][]byte) string {
	for i := 0; i+1 < len(items); i += 2 {
		k := items[i]
		switch {
		case len(k) == 0:
			return "fieldkv-name-empty"
		case k[0] == '"' || k[0] == '`':
			return "fieldkv-name-leading-quote-char"
		case !scanBalanced(k):
			return "fieldkv-name-separator-or-unbalanced-dquote"
		case edgeBlank(k):
			return "fieldkv-name-edge-blank"
		}
	}
	for i := 1; i < len(items); i += 2 {
		v := items[i]
		if !fldNeedsQuoteOld(v) && len(v) > 0 && v[0] != '"' && !scanBalanced(v) {
			return "fieldkv-value-unbalanced-dquote"
		}
	}
	for i := 1; i < len(items); i += 2 {
		v := items[i]
		if fldNeedsQuoteOld(v) {
			if len(strconv.Quote(string(v))) > 255 {
				return "fieldkv-quoted-value-over-255"
			}
			continue
		}
		if c := rawValueClass("fieldkv", v); c != "" {
			return c
		}
	}
	if len(items) >= 2 {
		last := items[len(items)-1]
		if !fldNeedsQuoteOld(last) && len(last) > 0 && last[len(last)-1] == '}' {
			return "fieldkv-last-value-trailing-brace"
		}
		if items[0][0] == '{' {
			return "fieldkv-first-name-leading-brace"
		}
	}
	return ""
}

// ---------- Gallina rendering ----------

func gOptBytes(ok bool, b []byte) string {
	if !ok {
		return GNone
	}
	return GSome(GBytes(b))
}

func sortedPairs(m map[string]string) []Pair {
	keys := make([]string, 0, len(m))
	for k := range m {
		keys = append(keys, k)
	}
	sort.Strings(keys)
	ps := make([]Pair, len(keys))
	for i, k := range keys {
		ps[i] = Pair{K: []byte(k), V: []byte(m[k])}
	}
	return ps
}

func gPairs(ps []Pair) string {
	it := make([]string, len(ps))
	for i, p := range ps {
		it[i] = GPair(GBytes(p.K), GBytes(p.V))
	}
	return GList(it)
}

func gMap(m map[string]string) string { return gPairs(sortedPairs(m)) }

// unquoteTable: the answers of strconv.Unquote for every trimmed piece of the text that starts with a quote
// character, as the real RemoveCurlyBraces/SplitString/TrimSpaces cut it
func unquoteTable(s string) string {
	var it []string
	seen := map[string]bool{}
	fine, err := rCurly(s)
	if err == nil && len(fine) > 0 {
		res, err := rSplit(fine)
		if err == nil {
			for _, p := range res {
				v := rTrim(p)
				if len(v) > 0 && (v[0] == '"' || v[0] == '`') && !seen[v] {
					seen[v] = true
					u, e := strconv.Unquote(v)
					it = append(it, GPair(GStr(v), gOptBytes(e == nil, []byte(u))))
				}
			}
		}
	}
	return GList(it)
}

func quoteTable(vals [][]byte) string {
	var it []string
	seen := map[string]bool{}
	for _, v := range vals {
		if !seen[string(v)] {
			seen[string(v)] = true
			it = append(it, GPair(GBytes(v), GStr(strconv.Quote(string(v)))))
		}
	}
	return GList(it)
}

func mapEq(a, b map[string]string) bool { return kvstring.MapsEquals(a, b) }

func show(b []byte) string { return strconv.QuoteToASCII(string(b)) }

func showPairs(ps []Pair) string {
	s := "{"
	for i, p := range ps {
		if i > 0 {
			s += ", "
		}
		s += show(p.K) + ": " + show(p.V)
	}
	return s + "}"
}

// ---------- the cases ----------

// mkCase runs one case; a panic of a call into the implementation becomes a case of its own (KPanicked, which the
// model never agrees with) with an oracle class naming the call, so that the replay holds the concrete input
func mkCase(rp Replay) (cs *Case, err error) {
	defer func() {
		if r := recover(); r != nil {
			cp, ok := r.(callPanic)
			if !ok {
				cp = callPanic{fn: "harness/" + rp.Kind, in: string(rp.S), val: fmt.Sprint(r)}
			}
			cs = &Case{Stream: rp.Kind, Replay: rp, NonTrivial: true,
				Coq:    GApp("KPanicked", GStr(cp.fn), GStr(cp.in)),
				Oracle: &Violation{Class: "panicked:" + cp.fn, Detail: fmt.Sprintf("%s(%s) panicked: %s", cp.fn, show([]byte(cp.in)), cp.val)}}
			err = nil
		}
	}()
	return mkCase1(rp)
}

func mkCase1(rp Replay) (*Case, error) {
	cs := &Case{Stream: rp.Kind}
	switch rp.Kind {
	case "split":
		res, err := rSplit(string(rp.S))
		obs := GNone
		if err == nil {
			obs = GSome(GListStr(res))
		}
		cs.Coq = GApp("KSplit", GBytes(rp.S), obs)
		cs.NonTrivial = len(rp.S) > 0
	case "curly":
		res, err := rCurly(string(rp.S))
		cs.Coq = GApp("KCurly", GBytes(rp.S), gOptBytes(err == nil, []byte(res)))
		cs.NonTrivial = len(rp.S) > 0
	case "trim":
		cs.Coq = GApp("KTrim", GBytes(rp.S), GStr(rTrim(string(rp.S))))
		cs.NonTrivial = len(rp.S) > 0
	case "quote":
		q := strconv.Quote(string(rp.S))
		u, e := strconv.Unquote(q)
		cs.Coq = GApp("KQuote", GBytes(rp.S), GStr(q), gOptBytes(e == nil, []byte(u)))
		cs.NonTrivial = len(rp.S) > 0
		if e != nil || u != string(rp.S) {
			cs.Oracle = &Violation{Class: "strconv-quote-unquote", Detail: show(rp.S)}
		}
	case "unquote":
		u, e := strconv.Unquote(string(rp.S))
		cs.Coq = GApp("KUnquote", GBytes(rp.S), gOptBytes(e == nil, []byte(u)))
		cs.NonTrivial = e == nil
	case "parse":
		set, err := rParse(string(rp.S))
		obs := GNone
		var vals [][]byte
		if err == nil {
			m := tag.VC08TagMap(set)
			for _, p := range sortedPairs(m) {
				vals = append(vals, p.V)
			}
			obs = GSome(GPair(gMap(m), GStr(string(set.Line()))))
			cs.NonTrivial = len(m) > 0 && isSpecial(rp.S)
			cs.Tags = append(cs.Tags, "parse:ok")
			// the map kvstring.ToMap gives for the same text is the one tag.Parse keeps
			m2, err2 := rToMap(string(rp.S))
			if len(rp.S) > 0 && (err2 != nil || !mapEq(m, m2)) {
				cs.Oracle = &Violation{Class: "tagparse-differs-from-tomap", Detail: show(rp.S)}
			}
		} else {
			cs.Tags = append(cs.Tags, "parse:error")
		}
		cs.Coq = GApp("KParse", GBytes(rp.S), unquoteTable(string(rp.S)), quoteTable(vals), obs)
	case "line":
		m := map[string]string{}
		var vals [][]byte
		for _, p := range rp.Pairs {
			if _, dup := m[string(p.K)]; dup {
				return nil, fmt.Errorf("line case with duplicate name %q", p.K)
			}
			m[string(p.K)] = string(p.V)
			vals = append(vals, p.V)
		}
		set := rMapToSet(m)
		ln := string(set.Line())
		back, err := rParse(ln)
		obs := GNone
		var bm map[string]string
		if err == nil {
			bm = tag.VC08TagMap(back)
			obs = GSome(gMap(bm))
			for _, p := range sortedPairs(bm) {
				vals = append(vals, p.V)
			}
		}
		cs.Coq = GApp("KLine", gPairs(rp.Pairs), unquoteTable(ln), quoteTable(vals), GStr(ln), obs)
		cs.NonTrivial = len(m) > 0 && (isSpecial([]byte(ln)))
		// oracle: the emitted line is accepted and denotes the same names and values; emitting is deterministic
		cls := classifyTags(m)
		if cls != "" {
			cs.Tags = append(cs.Tags, "class:"+cls)
		} else {
			cs.Tags = append(cs.Tags, "class:safe")
		}
		set2 := rMapToSet(m)
		switch {
		case string(set2.Line()) != ln:
			cs.Oracle = &Violation{Class: "tagline-nondeterministic", Detail: showPairs(rp.Pairs)}
		case err != nil || !mapEq(bm, m):
			what := "does not parse"
			if err == nil {
				what = "parses to " + showPairs(sortedPairs(bm))
			}
			if cls == "" {
				cls = "tagline-roundtrip-unclassified"
			}
			cs.Oracle = &Violation{Class: cls, Detail: fmt.Sprintf("tag set %s is printed as %s which %s", showPairs(sortedPairs(m)), show([]byte(ln)), what)}
		case string(back.Line()) != ln:
			cs.Oracle = &Violation{Class: "tagline-not-idempotent", Detail: showPairs(rp.Pairs)}
		case strings.IndexByte(ln, '\n') >= 0 && !nameHas(m, '\n'):
			// C08_tags_single_line: a value with a line feed is written as a quoted literal (the LQL lexer reads a {tags}
			// literal within one line)
			cs.Oracle = &Violation{Class: "tagline-value-line-break", Detail: fmt.Sprintf("tag set %s is printed as %s: two lines", showPairs(sortedPairs(m)), show([]byte(ln)))}
		default:
			cs.Oracle = tagSetAPI(set, back, m, ln)
		}
	case "prov":
		m := map[string]string{}
		var vals [][]byte
		for _, p := range rp.Pairs {
			m[string(p.K)] = string(p.V)
			vals = append(vals, p.V)
		}
		set := rMapToSet(m)
		ln := string(set.Line())
		f, err := rNewFields(ln)
		cs.Coq = GApp("KProv", gPairs(rp.Pairs), unquoteTable(ln), quoteTable(vals), gOptBytes(err == nil, []byte(f)))
		cs.NonTrivial = len(m) > 0
		// oracle (only where the line itself denotes the tag set): the provenance fields are exactly the tags
		back, e2 := rParse(ln)
		if e2 != nil || !mapEq(tag.VC08TagMap(back), m) {
			cs.Tags = append(cs.Tags, "prov:line-unsafe")
			break
		}
		var want [][]byte
		cls := ""
		for _, p := range sortedPairs(m) {
			want = append(want, p.K, p.V)
			switch {
			case cls != "":
			case p.K[0] == '"' || p.K[0] == '`':
				cls = "provenance-tag-name-leading-quote-char"
			case len(p.K) > 255 || len(p.V) > 255:
				// the limit is on what is stored: a printed (quoted) form longer than 255 bytes is no reason any more
				cls = "provenance-item-over-255"
			}
		}
		if err != nil || !bytes.Equal([]byte(f), encodeFields(want)) {
			if cls == "" {
				cls = "provenance-unclassified"
			}
			cs.Oracle = &Violation{Class: cls, Detail: fmt.Sprintf("source tags %s: rFieldParse(%s) gives %s (error: %v)", showPairs(sortedPairs(m)), show([]byte(ln)), show([]byte(f)), err)}
		}
	case "fparse":
		f, err := rNewFields(string(rp.S))
		cs.Coq = GApp("KFParse", GBytes(rp.S), unquoteTable(string(rp.S)), gOptBytes(err == nil, []byte(f)))
		if err == nil {
			cs.Tags = append(cs.Tags, "fparse:ok")
			cs.NonTrivial = len(f) > 0 && isSpecial(rp.S)
			if _, e := rCheck(string(f)); e != nil {
				// accepted, but the binary list is not well-formed: a length byte wrapped
				cls := "fields-parse-result-malformed"
				if fine, e1 := rCurly(string(rp.S)); e1 == nil {
					if res, e2 := rSplit(fine); e2 == nil {
						for _, p := range res {
							v := rTrim(p)
							if len(v) > 0 && (v[0] == '"' || v[0] == '`') {
								if u, e3 := strconv.Unquote(v); e3 == nil && len(u) > 255 {
									cls = "fieldkv-unquoted-item-over-255"
								}
							}
						}
					}
				}
				cs.Oracle = &Violation{Class: cls, Detail: fmt.Sprintf("text %s is accepted as the malformed binary list (%d bytes)", show(rp.S), len(f))}
			}
		} else {
			cs.Tags = append(cs.Tags, "fparse:error")
		}
	case "fprint":
		f := field.Fields(rp.S)
		items, wf := decodeFields(rp.S)
		var txt string
		panicked := false
		func() {
			defer func() {
				if r := recover(); r != nil {
					panicked = true
				}
			}()
			txt = f.AsKVString()
		}()
		if panicked {
			cs.Coq = GApp("KFPrint", GBytes(rp.S), "[]", "[]", GNone, GNone)
			cs.Tags = append(cs.Tags, "fprint:panic")
			if wf {
				cs.Oracle = &Violation{Class: "fieldkv-print-panic-on-wellformed", Detail: show(rp.S)}
			}
			break
		}
		back, err := rNewFields(txt)
		cs.Coq = GApp("KFPrint", GBytes(rp.S), unquoteTable(txt), quoteTable(items), GSome(GStr(txt)), gOptBytes(err == nil, []byte(back)))
		cs.NonTrivial = len(items) >= 2 && isSpecial(rp.S)
		if !wf || len(items)%2 == 1 {
			cs.Tags = append(cs.Tags, "fprint:malformed-input")
			break
		}
		cls := classifyFields(items)
		if cls != "" {
			cs.Tags = append(cs.Tags, "class:"+cls)
		} else {
			cs.Tags = append(cs.Tags, "class:safe")
		}
		if err != nil || string(back) != string(rp.S) {
			what := "does not parse"
			if err == nil {
				bi, _ := decodeFields([]byte(back))
				what = "parses to " + showItems(bi)
			}
			if cls == "" {
				cls = "fieldkv-roundtrip-unclassified"
			}
			cs.Oracle = &Violation{Class: cls, Detail: fmt.Sprintf("field list %s is printed as %s which %s", showItems(items), show([]byte(txt)), what)}
		} else if f.AsKVString() != txt {
			cs.Oracle = &Violation{Class: "fieldkv-nondeterministic", Detail: showItems(items)}
		} else {
			cs.Oracle = fieldsAPI(f, items)
		}
	case "vars":
		return mkVars(rp)
	default:
		return nil, fmt.Errorf("unknown case kind %q", rp.Kind)
	}
	cs.Replay = rp
	return cs, nil
}

// mkE2E writes every event through the RPC client of an in-process server and reads everything back: the Tags and
// Fields texts of the results are what C08 is about. One case per event. Texts are kept free of quoted literals that
// unquote to more than 255 bytes (refused by the code; a tree without the repair of fieldkv-unquoted-item-over-255
// would store a malformed list and panic in the query goroutine).
// Besides the texts of the query results: every acknowledged event is returned exactly once (a partition that is two
// index records is read twice); the tag lines the server PERSISTS (the keys of tindex.dat) are the canonical lines of
// the written sets, one record per set, whatever the spelling a partition was created with; after a restart on the
// same directory every event comes back once, with the same Tags and Fields texts.
func mkE2E(rp Replay) (out []*Case, err error) {
	defer func() {
		if r := recover(); r != nil {
			cp, ok := r.(callPanic)
			if !ok {
				cp = callPanic{fn: "harness/e2e", in: "", val: fmt.Sprint(r)}
			}
			out = []*Case{{Stream: "e2e", Replay: rp, NonTrivial: true,
				Coq:    GApp("KPanicked", GStr(cp.fn), GStr(cp.in)),
				Oracle: &Violation{Class: "panicked:" + cp.fn, Detail: fmt.Sprintf("%s(%s) panicked: %s", cp.fn, show([]byte(cp.in)), cp.val)}}}
			err = nil
		}
	}()
	dir := TempDir("c08-e2e")
	defer RemoveAll(dir)
	srv, err := StartServer(ServerOpts{Dir: dir})
	if err != nil {
		return nil, err
	}
	defer func() { srv.Stop() }()
	ctx := context.Background()
	acked := make([]bool, len(rp.Evs))
	n := 0
	for i, e := range rp.Evs {
		var res api.WriteResult
		ev := []*api.LogEvent{{Timestamp: int64(1000 + i), Message: fmt.Sprintf("m%04d", i), Fields: string(e.EF)}}
		if err := srv.Client.Write(ctx, string(e.Tags), string(e.WF), ev, &res); err != nil {
			return nil, fmt.Errorf("rpc write: %v", err)
		}
		acked[i] = res.Err == nil
		if acked[i] {
			n++
		}
	}
	// readAll polls until every acknowledged event is there; returns the events by message and how often each came in
	// the last answer
	readAll := func(s *Server) (map[string]*api.LogEvent, map[string]int) {
		got := map[string]*api.LogEvent{}
		var last []*api.LogEvent
		WaitFor(30*time.Second, func() bool {
			var qres api.QueryResult
			if err := s.Client.Query(ctx, &api.QueryRequest{Query: "SELECT LIMIT 10000", Limit: 10000}, &qres); err != nil || qres.Err != nil {
				return false
			}
			last = qres.Events
			for _, e := range qres.Events {
				got[e.Message] = e
			}
			return len(got) >= n
		})
		cnt := map[string]int{}
		for _, e := range last {
			cnt[e.Message]++
		}
		return got, cnt
	}
	got, cnt := readAll(srv)
	for i, e := range rp.Evs {
		// the replay of a case holds its two predecessors too: neighbouring events of one partition matter (the
		// querier caches the Fields text from one event to the next)
		lo := i - 2
		if lo < 0 {
			lo = 0
		}
		cs := &Case{Stream: "e2e", Replay: Replay{Kind: "e2e", Evs: rp.Evs[lo : i+1]}, NonTrivial: acked[i]}
		obs := GNone
		var vals [][]byte
		if m, err := rToMap(string(e.Tags)); err == nil {
			for _, p := range sortedPairs(m) {
				vals = append(vals, p.V)
			}
		}
		for _, ft := range [][]byte{e.WF, e.EF} {
			if f, err := rNewFields(string(ft)); err == nil {
				items, _ := decodeFields([]byte(f))
				vals = append(vals, items...)
			}
		}
		ut := unquoteTableMany(string(e.Tags), string(e.WF), string(e.EF))
		msg := fmt.Sprintf("m%04d", i)
		if ev := got[msg]; ev != nil {
			obs = GSome(GPair(GStr(ev.Tags), GStr(ev.Fields)))
			// oracle: what comes back parses, with the server's own parsers, to what went in
			if !acked[i] {
				cs.Oracle = &Violation{Class: "e2e-refused-write-readable", Detail: show(e.Tags)}
			} else {
				mi, _ := rToMap(string(e.Tags))
				mo, err := rToMap(ev.Tags)
				f1, _ := rNewFields(string(e.WF))
				f2 := rFieldParse(string(e.EF))
				fo, ferr := rNewFields(ev.Fields)
				switch {
				case err != nil || !mapEq(mi, mo):
					cs.Oracle = &Violation{Class: "e2e-tags-text", Detail: fmt.Sprintf("written %s, returned Tags %s", show(e.Tags), show([]byte(ev.Tags)))}
				case ferr != nil || string(fo) != string(f1)+string(f2):
					cs.Oracle = &Violation{Class: "e2e-fields-text", Detail: fmt.Sprintf("event %s written with fields %s + %s, returned Fields %s", msg, show(e.WF), show(e.EF), show([]byte(ev.Fields)))}
				case cnt[msg] != 1:
					cs.Oracle = &Violation{Class: "e2e-event-returned-more-than-once", Detail: fmt.Sprintf("the event written once with tags %s is returned %d times by one SELECT", show(e.Tags), cnt[msg])}
				}
			}
		} else if acked[i] {
			cs.Oracle = &Violation{Class: "e2e-acknowledged-not-readable", Detail: show(e.Tags)}
		}
		cs.Coq = GApp("KE2E", GBytes(e.Tags), GBytes(e.WF), GBytes(e.EF), ut, quoteTable(vals), GBool(acked[i]), obs)
		out = append(out, cs)
	}
	e2ePersisted(rp, out, acked, got, dir, &srv, readAll)
	return out, nil
}

// e2ePersisted: what the server keeps on disk for the tags and what it emits after a restart. Only for batches all of
// whose acknowledged tag sets have a line that denotes them (classifyTagsNow: the line of a set with an unbalanced inner
// double quote is not accepted back -- the recorded C08 class -- and the index loader stops on it) and that is valid
// UTF-8 (the index file is JSON: see C06, identity-restart-invalid-utf8-line). A violation goes to the case of the
// event concerned, unless that case has one already.
func e2ePersisted(rp Replay, out []*Case, acked []bool, got map[string]*api.LogEvent, dir string, srv **Server,
	readAll func(*Server) (map[string]*api.LogEvent, map[string]int)) {
	type wset struct {
		m    map[string]string
		line string
	}
	sets := map[int]wset{}
	lines := map[string]int{} // canonical line -> first event written with that set
	for i, e := range rp.Evs {
		if !acked[i] {
			continue
		}
		m, err := rToMap(string(e.Tags))
		if err != nil {
			return
		}
		ts := rMapToSet(m)
		ln := string(ts.Line())
		if classifyTagsNow(m) != "" || !utf8.ValidString(ln) {
			for _, cs := range out {
				cs.Tags = append(cs.Tags, "persisted:skipped")
			}
			return
		}
		sets[i] = wset{m, ln}
		if _, ok := lines[ln]; !ok {
			lines[ln] = i
		}
	}
	if len(sets) == 0 {
		return
	}
	set := func(i int, v *Violation) {
		if out[i].Oracle == nil {
			out[i].Oracle = v
		}
	}
	first := -1
	for i := range rp.Evs {
		if acked[i] {
			first = i
			break
		}
	}
	(*srv).Stop()
	// the keys of tindex.dat
	var keys []string
	filepath.Walk(dir, func(p string, fi os.FileInfo, err error) error {
		if err == nil && !fi.IsDir() && fi.Name() == "tindex.dat" {
			var mp map[string]json.RawMessage
			if data, e := ioutil.ReadFile(p); e == nil && json.Unmarshal(data, &mp) == nil {
				for k := range mp {
					keys = append(keys, k)
				}
			}
		}
		return nil
	})
	sort.Strings(keys)
	seen := map[string]bool{}
	for _, k := range keys {
		seen[k] = true
		if _, ok := lines[k]; ok {
			continue
		}
		// a record under a text that is not the canonical line of a written set: blame the event that arrived with it,
		// else one whose set the key denotes, else the first one
		who := first
		km, kerr := rToMap(k)
		for i, e := range rp.Evs {
			if acked[i] && (string(e.Tags) == k || (kerr == nil && mapEq(km, sets[i].m))) {
				who = i
				break
			}
		}
		set(who, &Violation{Class: "e2e-persisted-tag-line-not-canonical", Detail: fmt.Sprintf("after the write with tags %s the tag index file holds the key %s; the canonical lines of the written sets are %v", show(rp.Evs[who].Tags), show([]byte(k)), showKeys(lines))})
	}
	for ln, i := range lines {
		if !seen[ln] {
			set(i, &Violation{Class: "e2e-persisted-tag-line-missing", Detail: fmt.Sprintf("the set written with tags %s has no record under its line %s in the tag index file (keys %v)", show(rp.Evs[i].Tags), show([]byte(ln)), keys)})
		}
	}
	// restart on the same directory
	s2, err := StartServer(ServerOpts{Dir: dir})
	if err != nil {
		set(first, &Violation{Class: "e2e-restart-failed", Detail: fmt.Sprintf("the server does not start again on the directory it wrote (first tags %s): %v", show(rp.Evs[first].Tags), err)})
		return
	}
	*srv = s2
	got2, cnt2 := readAll(s2)
	for i := range rp.Evs {
		if !acked[i] {
			continue
		}
		msg := fmt.Sprintf("m%04d", i)
		before, after := got[msg], got2[msg]
		switch {
		case before == nil:
		case after == nil || cnt2[msg] != 1:
			set(i, &Violation{Class: "e2e-after-restart-event-count", Detail: fmt.Sprintf("the event written with tags %s is returned %d times after a restart", show(rp.Evs[i].Tags), cnt2[msg])})
		case after.Tags != before.Tags:
			set(i, &Violation{Class: "e2e-after-restart-tags-text", Detail: fmt.Sprintf("written %s: Tags %s before, %s after a restart", show(rp.Evs[i].Tags), show([]byte(before.Tags)), show([]byte(after.Tags)))})
		case after.Fields != before.Fields:
			set(i, &Violation{Class: "e2e-after-restart-fields-text", Detail: fmt.Sprintf("written %s + %s: Fields %s before, %s after a restart", show(rp.Evs[i].WF), show(rp.Evs[i].EF), show([]byte(before.Fields)), show([]byte(after.Fields)))})
		}
	}
	for _, cs := range out {
		cs.Tags = append(cs.Tags, "persisted:checked")
	}
}

func showKeys(m map[string]int) []string {
	var ks []string
	for k := range m {
		ks = append(ks, show([]byte(k)))
	}
	sort.Strings(ks)
	return ks
}

func nameHas(m map[string]string, c byte) bool {
	for k := range m {
		if strings.IndexByte(k, c) >= 0 {
			return true
		}
	}
	return false
}

// tagSetAPI: the other ways a tag.Set emits or compares its line, on a set whose line came back: Tag, String, Equals,
// SubsetOf, IsEmpty and the JSON form (MarshalJSON writes the line as a JSON string, UnmarshalJSON parses it; only
// for lines that are valid UTF-8: encoding/json replaces other bytes by U+FFFD, see C06 identity-restart-invalid-utf8-line)
func tagSetAPI(set, back tag.Set, m map[string]string, ln string) (v *Violation) {
	defer func() {
		if r := recover(); r != nil {
			v = &Violation{Class: "panicked:tag.Set", Detail: fmt.Sprintf("%s: %v", show([]byte(ln)), r)}
		}
	}()
	for k, val := range m {
		if set.Tag(k) != val || back.Tag(k) != val {
			return &Violation{Class: "tagset-accessors", Detail: fmt.Sprintf("line %s: Tag(%s) = %s / %s, the value is %s", show([]byte(ln)), show([]byte(k)), show([]byte(set.Tag(k))), show([]byte(back.Tag(k))), show([]byte(val)))}
		}
	}
	if set.String() != ln || !back.Equals(set) || !set.SubsetOf(back) || !back.SubsetOf(set) || set.IsEmpty() != (len(m) == 0) {
		return &Violation{Class: "tagset-accessors", Detail: fmt.Sprintf("line %s: String/Equals/SubsetOf/IsEmpty of the set and of its re-parse disagree", show([]byte(ln)))}
	}
	// SubsetOf: a set without one of the pairs is a subset, one with another value, another name, or the EMPTY value for
	// a name the set does not have is not
	if len(m) > 0 {
		ks := sortedPairs(m)
		less := map[string]string{}
		for _, p := range ks[1:] {
			less[string(p.K)] = string(p.V)
		}
		other := map[string]string{string(ks[0].K): string(ks[0].V) + "x"}
		absent := map[string]string{string(ks[0].K) + "~": ""}
		sub, oth, abs := rMapToSet(less), rMapToSet(other), rMapToSet(absent)
		if !sub.SubsetOf(set) || (len(less) < len(m) && set.SubsetOf(sub)) || oth.SubsetOf(set) || abs.SubsetOf(set) || sub.Equals(set) != (len(less) == len(m)) {
			return &Violation{Class: "tagset-accessors", Detail: fmt.Sprintf("line %s: SubsetOf/Equals against a sub-set, a changed value and an absent name with the empty value", show([]byte(ln)))}
		}
	}
	if utf8.ValidString(ln) {
		js, err := json.Marshal(&set)
		var s2 tag.Set
		if err == nil {
			err = json.Unmarshal(js, &s2)
		}
		if err != nil || !mapEq(tag.VC08TagMap(s2), m) || string(s2.Line()) != ln {
			return &Violation{Class: "tagset-json-roundtrip", Detail: fmt.Sprintf("line %s: JSON form %s comes back as %s (err %v)", show([]byte(ln)), js, show([]byte(s2.Line())), err)}
		}
	}
	return nil
}

// fieldsAPI: the other constructors and readers of a field list, on a well-formed list whose text came back:
// NewFieldsFromSlice and NewFields build the same binary form (and hence the same text), Value answers with the first
// field of a name, MergeWithMap replaces the fields of the given names, Concat appends
func fieldsAPI(f field.Fields, items [][]byte) (v *Violation) {
	defer func() {
		if r := recover(); r != nil {
			v = &Violation{Class: "panicked:field.Fields", Detail: fmt.Sprintf("%s: %v", showItems(items), r)}
		}
	}()
	var ss []string
	for _, it := range items {
		ss = append(ss, string(it))
	}
	if f2, err := field.NewFieldsFromSlice(ss...); err != nil || f2 != f {
		return &Violation{Class: "fields-constructors", Detail: fmt.Sprintf("NewFieldsFromSlice(%s) differs from the list (err %v)", showItems(items), err)}
	}
	// the constructors refuse an item of 256 bytes, name or value (its length does not fit the length byte)
	long := string(bytes.Repeat([]byte{'L'}, 256))
	for _, kv := range [][2]string{{"k", long}, {long, "v"}, {long[:255], long}} {
		if _, err := field.NewFieldsFromSlice("a", "1", kv[0], kv[1]); err == nil {
			return &Violation{Class: "fields-constructors", Detail: fmt.Sprintf("NewFieldsFromSlice accepts an item of 256 bytes (name %d bytes, value %d bytes)", len(kv[0]), len(kv[1]))}
		}
		if _, err := field.NewFields(map[string]string{kv[0]: kv[1]}); err == nil {
			return &Violation{Class: "fields-constructors", Detail: fmt.Sprintf("NewFields accepts an item of 256 bytes (name %d bytes, value %d bytes)", len(kv[0]), len(kv[1]))}
		}
	}
	if f255, err := field.NewFieldsFromSlice(long[:255], long[:255]); err != nil || len(f255) != 512 {
		return &Violation{Class: "fields-constructors", Detail: fmt.Sprintf("NewFieldsFromSlice refuses items of 255 bytes: %v", err)}
	}
	if f.IsEmpty() != (len(items) == 0) {
		return &Violation{Class: "fields-accessors", Detail: "IsEmpty: " + showItems(items)}
	}
	first := map[string]string{}
	uniq := true
	for i := 0; i+1 < len(ss); i += 2 {
		if _, ok := first[ss[i]]; ok {
			uniq = false
			continue
		}
		first[ss[i]] = ss[i+1]
	}
	for k, val := range first {
		if f.Value(k) != val {
			return &Violation{Class: "fields-accessors", Detail: fmt.Sprintf("%s: Value(%s) = %s", showItems(items), show([]byte(k)), show([]byte(f.Value(k))))}
		}
	}
	if uniq {
		f3, err := field.NewFields(first)
		got, ok := decodeFields([]byte(f3))
		gm := map[string]string{}
		for i := 0; i+1 < len(got); i += 2 {
			gm[string(got[i])] = string(got[i+1])
		}
		if err != nil || !ok || len(got) != len(items) || !mapEq(gm, first) {
			return &Violation{Class: "fields-constructors", Detail: fmt.Sprintf("NewFields(map of %s) = %s (err %v)", showItems(items), showItems(got), err)}
		}
	}
	if len(ss) >= 2 {
		var w rbytes.Writer
		mm := map[string]string{ss[0]: "zz"}
		merged := string(f.MergeWithMap(mm, &w))
		var exp [][]byte
		for i := 0; i+1 < len(items); i += 2 {
			if ss[i] != ss[0] {
				exp = append(exp, items[i], items[i+1])
			}
		}
		exp = append(exp, items[0], []byte("zz"))
		if merged != string(encodeFields(exp)) {
			got, _ := decodeFields([]byte(merged))
			return &Violation{Class: "fields-merge-with-map", Detail: fmt.Sprintf("%s merged with {%s: zz} gives %s", showItems(items), show(items[0]), showItems(got))}
		}
		var w2 rbytes.Writer
		if string(f.Concat(field.Fields(merged), &w2)) != string(f)+merged {
			return &Violation{Class: "fields-concat", Detail: showItems(items)}
		}
	}
	return nil
}

// provClass: the recorded input classes on which the provenance fields derived from a tag line (field.Parse of the
// line) are not the pairs of the tag set
func provClass(m map[string]string) string {
	cls := ""
	for _, p := range sortedPairs(m) {
		switch {
		case cls != "":
		case p.K[0] == '"' || p.K[0] == '`':
			cls = "tag-name-leading-quote-char"
		case len(p.K) > 255 || len(p.V) > 255:
			// the limit is on what is stored: a printed (quoted) form longer than 255 bytes is no reason
			cls = "item-over-255"
		}
	}
	return cls
}

// mkPipe: the pipe worker end to end. One in-process server, CREATE PIPE <p> FROM pp=1 before any write, then every
// event is written into a source partition (its tag text holds pp=1 among hostile-but-legal names and values) with
// write-level and event-level fields of its own; the copied event is read from the destination partition
// {logrange.pipe=<p>} through the RPC querier. Oracle: the Fields text parses back (field parser) to exactly the event's
// own fields followed by the provenance fields = the pairs of the source tag set in the order of its line (own fields
// first: Fields.Value answers with the first field of a name). One case per copied event.
func mkPipe(rp Replay) (out []*Case, err error) {
	defer func() {
		if r := recover(); r != nil {
			cp, ok := r.(callPanic)
			if !ok {
				cp = callPanic{fn: "harness/pipe", in: "", val: fmt.Sprint(r)}
			}
			out = []*Case{{Stream: "pipe", Replay: rp, NonTrivial: true,
				Coq:    GApp("KPanicked", GStr(cp.fn), GStr(cp.in)),
				Oracle: &Violation{Class: "panicked:" + cp.fn, Detail: fmt.Sprintf("%s(%s) panicked: %s", cp.fn, show([]byte(cp.in)), cp.val)}}}
			err = nil
		}
	}()
	srv, err := StartServer(ServerOpts{})
	if err != nil {
		return nil, err
	}
	defer srv.Stop()
	const pname = "c08p"
	if _, err := srv.Exec("CREATE PIPE " + pname + " FROM pp=1"); err != nil {
		return nil, fmt.Errorf("create pipe: %v", err)
	}
	ctx := context.Background()
	want := map[int]map[string]string{} // acknowledged events whose tag set the pipe selects
	for i, e := range rp.Evs {
		var res api.WriteResult
		ev := []*api.LogEvent{{Timestamp: int64(1000 + i), Message: fmt.Sprintf("m%04d", i), Fields: string(e.EF)}}
		if err := srv.Client.Write(ctx, string(e.Tags), string(e.WF), ev, &res); err != nil {
			return nil, fmt.Errorf("rpc write: %v", err)
		}
		if res.Err != nil {
			continue
		}
		if m, err := rToMap(string(e.Tags)); err == nil && m["pp"] == "1" {
			want[i] = m
		}
	}
	got := map[string]*api.LogEvent{}
	WaitFor(30*time.Second, func() bool {
		var qres api.QueryResult
		if err := srv.Client.Query(ctx, &api.QueryRequest{Query: "SELECT FROM logrange.pipe=" + pname + " LIMIT 10000", Limit: 10000}, &qres); err != nil || qres.Err != nil {
			return false
		}
		for _, e := range qres.Events {
			got[e.Message] = e
		}
		return len(got) >= len(want)
	})
	for i, e := range rp.Evs {
		m := want[i]
		ev := got[fmt.Sprintf("m%04d", i)]
		if m == nil || ev == nil {
			continue // refused, not selected, or not copied (yet): whether every event is copied is C10's business
		}
		cs := &Case{Stream: "pipe", Replay: Replay{Kind: "pipe", Evs: []E2EEvent{e}}, NonTrivial: true}
		var vals [][]byte
		var prov [][]byte
		for _, p := range sortedPairs(m) {
			vals = append(vals, p.K, p.V)
			prov = append(prov, p.K, p.V)
		}
		f1, _ := rNewFields(string(e.WF))
		f2 := rFieldParse(string(e.EF))
		ownItems, _ := decodeFields([]byte(string(f1) + string(f2)))
		vals = append(vals, ownItems...)
		ts := rMapToSet(m)
		ln := string(ts.Line())
		ut := unquoteTableMany(string(e.Tags), string(e.WF), string(e.EF), ln)
		cs.Coq = GApp("KPipe", GBytes(e.Tags), GBytes(e.WF), GBytes(e.EF), ut, quoteTable(vals), GStr(ev.Fields))
		back, e2 := rParse(ln)
		switch {
		case ev.Tags != "logrange.pipe="+pname:
			cs.Oracle = &Violation{Class: "pipe-destination-tags-text", Detail: show([]byte(ev.Tags))}
		case e2 != nil || !mapEq(tag.VC08TagMap(back), m):
			cs.Tags = append(cs.Tags, "pipe:line-unsafe") // the source line itself does not denote the set (recorded tag-line classes)
		default:
			fo, ferr := rNewFields(ev.Fields)
			exp := string(f1) + string(f2) + string(encodeFields(prov))
			if ferr != nil || string(fo) != exp {
				cls := provClass(m)
				if cls == "" {
					cls = "pipe-provenance-unclassified"
				} else {
					cls = "provenance-" + cls
				}
				what := "does not parse"
				if ferr == nil {
					bi, _ := decodeFields([]byte(fo))
					what = "parses to " + showItems(bi)
				}
				cs.Oracle = &Violation{Class: cls, Detail: fmt.Sprintf("event written with tags %s and fields %s + %s: the copy in the pipe's destination is returned with Fields %s which %s; expected the own fields %s followed by the source tags %s",
					show(e.Tags), show(e.WF), show(e.EF), show([]byte(ev.Fields)), what, showItems(ownItems), showItems(prov))}
			} else if len(ownItems) > 0 {
				// precedence: a name that is both a tag and an own field answers with the own field
				le := field.Fields(fo)
				if v := le.Value(string(ownItems[0])); v != string(ownItems[1]) {
					cs.Oracle = &Violation{Class: "pipe-own-field-precedence", Detail: fmt.Sprintf("Fields %s: Value(%s) = %s, the event's own field is %s", show([]byte(ev.Fields)), show(ownItems[0]), show([]byte(v)), show(ownItems[1]))}
				}
			}
		}
		out = append(out, cs)
	}
	return out, nil
}

// genPipe: source tag texts with pp=1 and hostile-but-legal names and values, events with fields of their own
func genPipe(r *Rng, n int) []E2EEvent {
	hostile := func() []byte {
		switch r.Intn(12) {
		case 0:
			return []byte("a,b=c")
		case 1:
			return []byte(" lead")
		case 2:
			return []byte("trail ")
		case 3:
			return []byte("\"q\"")
		case 4:
			return []byte("`b`")
		case 5:
			return []byte("x}")
		case 6:
			return bytes.Repeat([]byte{'v'}, r.PickInt(254, 255, 256))
		case 7:
			v := bytes.Repeat([]byte{'w'}, 255)
			v[r.Intn(255)] = ','
			return v // 255 bytes, quoted form longer
		case 8:
			return []byte{'y', 0xff, 0x80, 'z'}
		case 9:
			return []byte("in\"ner\"q")
		case 10:
			return []byte("")
		}
		return genStr(r, 6, 35)
	}
	name := func() []byte {
		switch r.Intn(10) {
		case 0:
			return []byte("\"qn\"") // a quoted literal as a name: the tag parser keeps the quotes
		case 1:
			return []byte("n m")
		case 2:
			return []byte{'n', 0xc3, 0xa9}
		case 3:
			return bytes.Repeat([]byte{'N'}, r.PickInt(255, 256))
		case 4:
			return []byte("k.x")
		}
		return []byte(r.PickStr("name", "ip", "zone", "a", "B"))
	}
	spellV := func(v []byte) string {
		if len(v) > 0 && bytes.IndexAny(v, ",=\" `{}\\") < 0 && r.Chance(1, 2) {
			return string(v)
		}
		return strconv.Quote(string(v))
	}
	fields := func(maxPairs int, dupOf [][]byte) []byte {
		np := r.Range(0, maxPairs)
		var sb bytes.Buffer
		for i := 0; i < np; i++ {
			if i > 0 {
				sb.WriteByte(',')
			}
			k := []byte(r.PickStr("f", "g", "msgid", "name", "pp"))
			if len(dupOf) > 0 && r.Chance(1, 3) {
				k = dupOf[r.Intn(len(dupOf))] // a field with the same name as a tag
			}
			if bytes.IndexAny(k, ",=\" `{}\\") >= 0 || len(k) == 0 || len(k) > 200 {
				k = []byte("f")
			}
			sb.Write(k)
			sb.WriteByte('=')
			v := hostile()
			if len(v) > 40 {
				v = v[:40]
			}
			sb.WriteString(spellV(v))
		}
		return sb.Bytes()
	}
	var evs []E2EEvent
	for i := 0; i < n; i++ {
		var names [][]byte
		var sb bytes.Buffer
		np := r.Range(1, 3)
		pos := r.Intn(np + 1)
		seen := map[string]bool{"pp": true}
		for j := 0; j <= np; j++ {
			if sb.Len() > 0 {
				sb.WriteByte(',')
			}
			if j == pos {
				sb.WriteString("pp=1")
				continue
			}
			k := name()
			if seen[string(k)] {
				k = []byte(fmt.Sprintf("t%d", j))
			}
			seen[string(k)] = true
			names = append(names, k)
			sb.WriteString(blanks(r))
			sb.Write(k)
			sb.WriteByte('=')
			sb.WriteString(spellV(hostile()))
		}
		e := E2EEvent{Tags: sb.Bytes(), WF: fields(2, names), EF: fields(2, names)}
		evs = append(evs, e)
		if r.Chance(1, 3) {
			evs = append(evs, E2EEvent{Tags: e.Tags, WF: fields(1, names), EF: fields(2, names)}) // a second event of the partition
		}
	}
	return evs
}

func corpusPipe() []E2EEvent {
	T := func(t, wf, ef string) E2EEvent { return E2EEvent{Tags: []byte(t), WF: []byte(wf), EF: []byte(ef)} }
	long := strings.Repeat("x", 256)
	return []E2EEvent{
		T(`pp=1,name=app`, `f=1`, `g=2`),
		T(`pp=1,name=app`, ``, ``),
		T(`name="a,b=c",pp=1,zone=" x "`, `name=own`, `zone=""`), // own fields with the names of tags: both kept, own first
		T(`pp=1,a="x}"`, `k="v}"`, ``),                           // closing braces at the ends of line and field text
		T("pp=1,b=\"`q`\",a=\"\\\"q\\\"\"", ``, "f=`r`"),
		T(`pp=1,"x"=1`, `f=1`, ``),               // provenance-tag-name-leading-quote-char
		T(`pp=1,a=`+long, `f=1`, `g=2`),          // provenance-item-over-255: no provenance at all
		T(`pp=1,a="`+long[:254]+`,"`, ``, `f=1`), // 255 bytes, quoted form of 258: fine
		T("pp=1,a=y\xff\x80z", `f=1`, ``),
		T("pp=1,a=\"new\\nline\"", `f=1`, "g=\"x\\ny\""),
		T(`pp=1,a="in\"ner\"q",b=""`, `f=""`, ``),
	}
}

// mkVars: the {vars} element of the formatter (model.NewFormatParser: forwarder sinks, the shell): the tag line, ','
// and the text of the field list. Oracle: for the canonical line of a tag set the text is accepted by the field parser
// and denotes the pairs of the set followed by the fields; {vars:<name>} gives the field of that name or, if there is
// none (or it is empty), the tag.
func mkVars(rp Replay) (*Case, error) {
	cs := &Case{Stream: "vars"}
	m := map[string]string{}
	for _, p := range rp.Pairs {
		m[string(p.K)] = string(p.V)
	}
	canon := rp.TL == nil
	var tl string
	if canon {
		ts := rMapToSet(m)
		tl = string(ts.Line())
	} else {
		tl = string(rp.TL)
	}
	items, wf := decodeFields(rp.S)
	wf = wf && len(items)%2 == 0
	var vals [][]byte
	for _, p := range sortedPairs(m) {
		vals = append(vals, p.K, p.V)
	}
	vals = append(vals, items...)
	le := model.LogEvent{Timestamp: 1, Msg: rbytes.StringToByteArray("m"), Fields: field.Fields(rp.S)}
	var txt string
	panicked := false
	func() {
		defer func() {
			if r := recover(); r != nil {
				panicked = true
			}
		}()
		fp, err := model.NewFormatParser("{vars}")
		if err != nil {
			panic(err)
		}
		txt = fp.FormatStr(&le, tl)
	}()
	cs.Replay = rp
	if panicked {
		cs.Coq = GApp("KVars", GStr(tl), GBytes(rp.S), gPairs(rp.Pairs), GBool(canon), "[]", "[]", GNone, GNone)
		cs.Tags = append(cs.Tags, "vars:panic")
		if wf {
			cs.Oracle = &Violation{Class: "vars-panic-on-wellformed", Detail: show(rp.S)}
		}
		return cs, nil
	}
	back, err := rNewFields(txt)
	cs.Coq = GApp("KVars", GStr(tl), GBytes(rp.S), gPairs(rp.Pairs), GBool(canon), unquoteTable(txt), quoteTable(vals), GSome(GStr(txt)), gOptBytes(err == nil, []byte(back)))
	cs.NonTrivial = len(m) > 0 && isSpecial([]byte(txt))
	if !canon || !wf || len(m) == 0 {
		cs.Tags = append(cs.Tags, "vars:no-claim")
		return cs, nil
	}
	if b2, e2 := rParse(tl); e2 != nil || !mapEq(tag.VC08TagMap(b2), m) {
		cs.Tags = append(cs.Tags, "vars:line-unsafe")
		return cs, nil
	}
	var prov [][]byte
	for _, p := range sortedPairs(m) {
		prov = append(prov, p.K, p.V)
	}
	exp := string(encodeFields(prov)) + string(rp.S)
	if err != nil || string(back) != exp {
		cls := provClass(m)
		if cls == "" {
			cls = "vars-roundtrip-unclassified"
		} else {
			cls = "vars-" + cls
		}
		what := "does not parse"
		if err == nil {
			bi, _ := decodeFields([]byte(back))
			what = "parses to " + showItems(bi)
		}
		cs.Oracle = &Violation{Class: cls, Detail: fmt.Sprintf("{vars} for the tags %s and the fields %s is %s which %s", showPairs(sortedPairs(m)), showItems(items), show([]byte(txt)), what)}
		return cs, nil
	}
	// {vars} among constants and the message ({{ and {} stand for the braces): the same text, in its place
	func() {
		defer guard("model.FormatStr", "{{{vars}{} {msg}|{vars}")
		fp, err := model.NewFormatParser("{{{vars}{} {msg}|{vars}")
		if err != nil {
			cs.Oracle = &Violation{Class: "vars-in-format", Detail: err.Error()}
			return
		}
		if got := fp.FormatStr(&le, tl); got != "{"+txt+"} m|"+txt {
			cs.Oracle = &Violation{Class: "vars-in-format", Detail: fmt.Sprintf("format {{{vars}{} {msg}|{vars} gives %s, {vars} alone %s", show([]byte(got)), show([]byte(txt)))}
		}
	}()
	if cs.Oracle != nil {
		return cs, nil
	}
	// {vars:<name>}: the first field of that name, or the tag if there is none or it is empty; printed as it is
	names := map[string]bool{}
	for k := range m {
		names[k] = true
	}
	for i := 0; i+1 < len(items); i += 2 {
		names[string(items[i])] = true
	}
	for k := range names {
		if strings.ContainsAny(k, "{}") || strings.Trim(k, " ") != k || k == "" {
			continue // not expressible in a format string
		}
		wantV := ""
		for i := 0; i+1 < len(items); i += 2 {
			if string(items[i]) == k {
				wantV = string(items[i+1])
				break
			}
		}
		if wantV == "" {
			wantV = m[k]
		}
		gotV := wantV
		func() {
			defer guard("model.FormatStr", k)
			fp, err := model.NewFormatParser("{vars:" + k + "}")
			if err != nil {
				return // the name cannot be written in a format
			}
			gotV = fp.FormatStr(&le, tl)
		}()
		if gotV != wantV {
			cs.Oracle = &Violation{Class: "vars-single-value", Detail: fmt.Sprintf("{vars:%s} gives %s for the tags %s and the fields %s", k, show([]byte(gotV)), showPairs(sortedPairs(m)), showItems(items))}
			break
		}
	}
	return cs, nil
}

func unquoteTableMany(texts ...string) string {
	var it []string
	seen := map[string]bool{}
	for _, s := range texts {
		fine, err := rCurly(s)
		if err != nil || len(fine) == 0 {
			continue
		}
		res, err := rSplit(fine)
		if err != nil {
			continue
		}
		for _, p := range res {
			v := rTrim(p)
			if len(v) > 0 && (v[0] == '"' || v[0] == '`') && !seen[v] {
				seen[v] = true
				u, e := strconv.Unquote(v)
				it = append(it, GPair(GStr(v), gOptBytes(e == nil, []byte(u))))
			}
		}
	}
	return GList(it)
}

var safeLetters = []byte("abcxyz019AZ._- :/")

func genSafe(r *Rng, maxLen int) []byte {
	n := r.Range(1, maxLen)
	b := make([]byte, n)
	for i := range b {
		b[i] = safeLetters[r.Intn(len(safeLetters))]
	}
	if b[0] == ' ' {
		b[0] = 'q'
	}
	if b[n-1] == ' ' {
		b[n-1] = 'q'
	}
	return b
}

// genE2E: texts whose values are printable ASCII, some needing quotes (',' '='), spelled with blanks/braces/quotes
func genE2E(r *Rng, n int) []E2EEvent {
	mk := func(maxPairs int, allowEmpty bool) []byte {
		np := r.Range(1, maxPairs)
		if allowEmpty && r.Chance(1, 5) {
			return nil
		}
		var ps []Pair
		seen := map[string]bool{}
		for i := 0; i < np; i++ {
			k := []byte(r.PickStr("name", "ip", "a", "k.x", "zone", "B"))
			if seen[string(k)] {
				continue
			}
			seen[string(k)] = true
			v := genSafe(r, 6)
			if r.Chance(1, 4) {
				v = append(v, r.PickStr(",", "=", ",x=", "\"y\",")...)
				v = append(v, 'z')
			} else if r.Chance(1, 5) {
				// values the printers must quote for their ends: blanks, quote characters, a closing brace
				v = []byte(r.PickStr(" x", "x ", "\"q\"", "`b`", "x}", "\"\"", "{x}", "a\"b\"c"))
			}
			ps = append(ps, Pair{K: k, V: v})
		}
		var sb bytes.Buffer
		for i, p := range ps {
			if i > 0 {
				sb.WriteByte(',')
			}
			sb.WriteString(blanks(r))
			sb.Write(p.K)
			sb.WriteString("=")
			plainV := bytes.IndexAny(p.V, ",=\" `{}") < 0
			if plainV && r.Chance(1, 2) {
				sb.Write(p.V)
			} else {
				sb.WriteString(strconv.Quote(string(p.V)))
			}
			sb.WriteString(blanks(r))
		}
		s := sb.Bytes()
		if r.Chance(1, 4) {
			s = append(append([]byte("{"), s...), '}')
		}
		return s
	}
	var evs []E2EEvent
	for i := 0; i < n; i++ {
		e := E2EEvent{Tags: mk(3, false), WF: mk(2, false), EF: mk(2, true)}
		if r.Chance(1, 12) {
			e.Tags = mutate(r, e.Tags) // mostly refused
		}
		if r.Chance(1, 15) {
			e.EF = []byte("broken") // field.Parse drops the error
		}
		evs = append(evs, e)
		if r.Chance(1, 4) {
			// same-shape neighbours: the next events of the same partition have field lists of exactly the same encoded
			// length (and messages of the same length) but other values: every event must come back with ITS Fields text
			for k := r.Range(1, 3); k > 0; k-- {
				if ef, ok := sameShape(r, evs[len(evs)-1].EF); ok {
					evs = append(evs, E2EEvent{Tags: e.Tags, WF: e.WF, EF: ef})
				}
			}
		}
	}
	return evs
}

// sameShape: the field text with one letter or digit replaced by another one (same length, other value or name)
func sameShape(r *Rng, ef []byte) ([]byte, bool) {
	var idx []int
	for i, c := range ef {
		if (c >= 'a' && c <= 'z') || (c >= '0' && c <= '9') {
			idx = append(idx, i)
		}
	}
	if len(idx) == 0 {
		return nil, false
	}
	out := append([]byte{}, ef...)
	i := idx[len(idx)-1-r.Intn((len(idx)+1)/2)] // in the second half: mostly a value
	for {
		c := "abcxyz0123456789"[r.Intn(16)]
		if c != out[i] {
			out[i] = c
			break
		}
	}
	return out, true
}

// corpusE2E: partitions created with non-canonical spellings of their tag sets (braces, blanks, unsorted names,
// needless quotes), written again with other spellings; and same-shape neighbouring events in one partition
func corpusE2E() []E2EEvent {
	T := func(t, wf, ef string) E2EEvent { return E2EEvent{Tags: []byte(t), WF: []byte(wf), EF: []byte(ef)} }
	return []E2EEvent{
		T(`{ zone="a,b" , app = x }`, `common=c1`, `v=1`),
		T(`zone="a,b",app=x`, `common=c1`, `v=2`),
		T(`app=x,zone="a,b"`, `common=c1`, `v=3`),
		T(`app=x,zone="a,b"`, `common=c1`, `v="a,b"`),
		T(`app=x,zone="a,b"`, `common=c1`, `v=xyz`),
		T(`app=x,zone="a,b"`, `common=c1`, `v=" yz"`),
		T(`app=x,zone="a,b"`, `common=c1`, `w=xyz`),
		T("a=\"new\\nline\",b=c", `k=v`, "f=\"x\\ny\""), // line feeds in a tag value and in a field value
		T("b=c,a=new\nline", `k=v`, ``),                 // the same set, the line feed written raw
		T(`b=2,a=1`, `k=v`, ``),
		T(` a = "1" , b=2 `, `k=w`, ``),
		T(`{{a=1,b=2}}`, `k=x`, `q=1`),
		T(`name = "app1"`, `k=v`, `q=2`),
		T(`name=app1`, `k=v`, `q=3`),
		T(`{ip="1.2.3.4"}`, ``, `a=1,b=2`),
		T(`ip=1.2.3.4`, ``, `a=2,b=1`),
	}
}

func showItems(items [][]byte) string {
	s := "["
	for i, it := range items {
		if i > 0 {
			s += " "
		}
		s += show(it)
	}
	return s + "]"
}

func decodeFields(f []byte) ([][]byte, bool) {
	var items [][]byte
	idx := 0
	for idx < len(f) {
		n := int(f[idx])
		if idx+1+n > len(f) {
			return items, false
		}
		items = append(items, f[idx+1:idx+1+n])
		idx += n + 1
	}
	return items, true
}

func encodeFields(items [][]byte) []byte {
	var b []byte
	for _, it := range items {
		b = append(b, byte(len(it)))
		b = append(b, it...)
	}
	return b
}

func pairsOf(m map[string]string, r *Rng) []Pair {
	ps := sortedPairs(m)
	if r != nil {
		perm := r.Perm(len(ps))
		out := make([]Pair, len(ps))
		for i, j := range perm {
			out[i] = ps[j]
		}
		return out
	}
	return ps
}

func str(s string) []byte { return []byte(s) }

// edgeCorpus: the systematic part of the fixed corpus (runs first on every check). Every byte the printers and parsers
// treat specially, at every position of a string (alone, first, middle, last), in every role (tag value that is / is
// not the last of its line; field name that is / is not the first; field value that is / is not the last); the lengths
// around the 255-byte limit of a field item, raw, quoted and with blanks to trim; length bytes at 127/128; tag sets and
// field lists with more pieces than the splitter's initial buffer (40); names in orders that a sort has to repair
// (reverse, prefixes of each other, upper before lower case, non-ASCII); brace nesting to depth 3.
func edgeCorpus() []Replay {
	var out []Replay
	enc := func(items ...string) []byte {
		var bs [][]byte
		for _, s := range items {
			bs = append(bs, []byte(s))
		}
		return encodeFields(bs)
	}
	P := func(kv ...string) []Pair {
		var ps []Pair
		for i := 0; i+1 < len(kv); i += 2 {
			ps = append(ps, Pair{K: []byte(kv[i]), V: []byte(kv[i+1])})
		}
		return ps
	}
	for _, c := range []byte{'"', '`', ' ', '{', '}', ',', '=', '\\', '\n', 0, 0xff} {
		ch := string([]byte{c})
		for _, v := range []string{ch, ch + "x", "x" + ch + "y", "x" + ch, ch + ch} {
			out = append(out,
				Replay{Kind: "line", Pairs: P("a", v)},                   // the last (only) value of a line
				Replay{Kind: "line", Pairs: P("a", v, "b", "1")},         // not the last
				Replay{Kind: "line", Pairs: P("a", "1", "b", v, "c", v)}, // in the middle and last
				Replay{Kind: "fprint", S: enc(v, "1")},                   // the first (only) name
				Replay{Kind: "fprint", S: enc("n", "1", v, "2")},         // a later name
				Replay{Kind: "fprint", S: enc("n", v)},                   // the last value
				Replay{Kind: "fprint", S: enc("n", v, "m", "2")},         // not the last
				Replay{Kind: "vars", Pairs: P("a", v), S: enc("n", v)},   // both printers in one text
			)
		}
	}
	// the 255-byte limit of a field item and the length byte
	rep := func(c byte, n int) string { return string(bytes.Repeat([]byte{c}, n)) }
	for _, n := range []int{0, 1, 127, 128, 254, 255} {
		out = append(out,
			Replay{Kind: "fprint", S: enc(rep('n', n), rep('v', n))},
			Replay{Kind: "fprint", S: enc("k", rep(',', n))}, // a value that is quoted whatever its length
		)
	}
	for _, n := range []int{254, 255, 256} {
		out = append(out,
			Replay{Kind: "fparse", S: []byte("a=" + rep('v', n))},
			Replay{Kind: "fparse", S: []byte(rep('n', n) + "=1")},
			Replay{Kind: "fparse", S: []byte("a=  " + rep('v', n) + "  ")}, // blanks are trimmed before the limit applies
			Replay{Kind: "fparse", S: []byte("a=\"" + rep('v', n) + "\"")}, // the quotes do not count
			Replay{Kind: "fparse", S: []byte("\"" + rep('n', n) + "\"=`" + rep('v', n) + "`")},
			Replay{Kind: "fparse", S: []byte("a=\"" + strings.Repeat("\\\"", n) + "\"")}, // 2n bytes of escapes for n bytes
			Replay{Kind: "prov", Pairs: P("a", rep('v', n))},
			Replay{Kind: "prov", Pairs: P(rep('n', n), "1")},
			Replay{Kind: "vars", Pairs: P("a", rep('v', n)), S: enc("f", rep('w', n-1))},
		)
	}
	// more pieces than the initial buffer of the splitter, names in hostile orders
	var many, rev []string
	for i := 0; i < 45; i++ {
		many = append(many, fmt.Sprintf("k%02d", i), fmt.Sprintf("v%d", i))
		rev = append(rev, fmt.Sprintf("k%02d", 44-i), fmt.Sprintf("v,%d", i))
	}
	var txt []string
	for i := 0; i+1 < len(rev); i += 2 {
		txt = append(txt, rev[i]+"="+strconv.Quote(rev[i+1]))
	}
	out = append(out,
		Replay{Kind: "line", Pairs: P(many...)}, Replay{Kind: "line", Pairs: P(rev...)},
		Replay{Kind: "parse", S: []byte("{ " + strings.Join(txt, " , ") + " }")},
		Replay{Kind: "fparse", S: []byte(strings.Join(txt, ","))},
		Replay{Kind: "fprint", S: enc(many...)}, Replay{Kind: "fprint", S: enc(rev...)},
		Replay{Kind: "prov", Pairs: P(rev...)},
		Replay{Kind: "line", Pairs: P("b", "1", "ab", "2", "a", "3", "a b", "4", "B", "5", "A", "6", "aé", "7", "a\xff", "8", "~", "9", "_", "0", "a.", "x", "a-", "y")},
		Replay{Kind: "parse", S: []byte("~=9,b=1,ab=2,a=3,B=5,A=6,a.=x,a-=y,_=0")},
		Replay{Kind: "parse", S: []byte("{{{a=1}}}")}, Replay{Kind: "parse", S: []byte(" { { {a=1} } } ")}, Replay{Kind: "parse", S: []byte("{{{a=1}}")},
		Replay{Kind: "parse", S: []byte("{{a=1}}}")}, Replay{Kind: "parse", S: []byte("{}")}, Replay{Kind: "parse", S: []byte("{ }")}, Replay{Kind: "parse", S: []byte("{a}")},
		Replay{Kind: "parse", S: []byte("a='x,y'")}, Replay{Kind: "parse", S: []byte("a=\"x\"y")}, Replay{Kind: "parse", S: []byte("a=`x`y")}, Replay{Kind: "parse", S: []byte("a=\"\"\"\"")},
		Replay{Kind: "fparse", S: []byte("{{a=1}}")}, Replay{Kind: "fparse", S: []byte("{}")}, Replay{Kind: "fparse", S: []byte("a")}, Replay{Kind: "fparse", S: []byte("a=1,b")},
		Replay{Kind: "fparse", S: []byte("a=1,,b=2")}, Replay{Kind: "fparse", S: []byte("=1")}, Replay{Kind: "fparse", S: []byte(" =1")}, Replay{Kind: "fparse", S: []byte("\"\"=1")},
	)
	return out
}

// corpus: the witnesses of the _refuted theorems and of the recorded findings, replayed on the real code first
func corpus() []Replay {
	P := func(kv ...string) []Pair {
		var ps []Pair
		for i := 0; i+1 < len(kv); i += 2 {
			ps = append(ps, Pair{K: str(kv[i]), V: str(kv[i+1])})
		}
		return ps
	}
	F := func(items ...string) []byte {
		var bs [][]byte
		for _, s := range items {
			bs = append(bs, str(s))
		}
		return encodeFields(bs)
	}
	long := make([]byte, 252)
	for i := range long {
		long[i] = 'a'
	}
	long[7] = ','
	return []Replay{
		// the witnesses of the repaired classes: line() now writes these values as quoted literals and they come back
		{Kind: "line", Pairs: P("a", "\"x")},                 // a="\"x"
		{Kind: "line", Pairs: P("a", "\"x\"")},               // a="\"x\""  (was a="x", which parses to x)
		{Kind: "line", Pairs: P("a", "\"\"")},                // a="\"\""   (was a="", the line of the empty value)
		{Kind: "line", Pairs: P("a", "")},                    // a=""
		{Kind: "line", Pairs: P("a", "`x`")},                 // back-quoted
		{Kind: "line", Pairs: P("a", "`x")},                  //
		{Kind: "line", Pairs: P("a", " x")},                  // edge blank
		{Kind: "line", Pairs: P("a", "x ")},                  //
		{Kind: "line", Pairs: P("a", "x}")},                  // trailing brace of the last pair: quoted
		{Kind: "line", Pairs: P("a", "x}", "b", "y")},        // not the last value: raw, as before
		{Kind: "line", Pairs: P("a", "x\"y }")},              // last value, unbalanced quote AND trailing brace: quoted, comes back
		{Kind: "line", Pairs: P("a", "new\nline", "b", "c")}, // a value with a line feed: quoted, the line is one line
		{Kind: "line", Pairs: P("a", "x\ny\"z")},             // ... also when it holds an unbalanced double quote
		{Kind: "line", Pairs: P("a", "cr\rtab\tnul\x00")},    // other control bytes are printed raw and come back
		{Kind: "line", Pairs: P("a\nb", "1")},                // a line feed in a NAME (names are printed as they are): comes back, two lines
		// what remains
		{Kind: "line", Pairs: P("name", "a\"pp")},          // pinned by TestTagLine: printed raw, does not split
		{Kind: "line", Pairs: P("a", "x\"y", "b", "z\"w")}, // two of them: the line splits into ONE pair (another set)
		{Kind: "line", Pairs: P("a", "x\"y}", "b", "1")},   // raw (not last), unbalanced
		{Kind: "line", Pairs: P("{a", "1", "~", "2")},      // first name with a leading brace
		{Kind: "line", Pairs: P("a", "x\"y\"z")},           // balanced inner quotes: fine
		{Kind: "line", Pairs: P("a", "b,c=d\"e\\")},        // quoted on the way out: fine
		{Kind: "line", Pairs: P("a b", "1")},               // inner blank in a name: fine
		{Kind: "line", Pairs: P(" a", "1")},                // MapToSet-only name
		{Kind: "parse", S: str("~=2,{a=1")},
		{Kind: "parse", S: str("a=\"\\\"x\"")},
		{Kind: "parse", S: str("{ name=\"a\\\"pp\" }")},
		{Kind: "parse", S: str("a=`x,y`")},
		{Kind: "parse", S: str("a=1,a=2")},
		{Kind: "parse", S: str("dir=C:\\logs\\,name=app")}, // unquoted value ending in a backslash before a separator
		{Kind: "parse", S: str("a=b\\")},                   // ... and at the end of the text
		{Kind: "parse", S: str("a\\=b\\ ,c\\=\\")},
		{Kind: "split", S: str("a=b\\")},
		{Kind: "split", S: str("a\\=\\,b=\"\\\\\"")},
		{Kind: "line", Pairs: P("dir", "C:\\logs\\", "name", "app")},
		{Kind: "fparse", S: str("dir=C:\\logs\\,name=app")},
		{Kind: "fparse", S: str("a=b\\")},
		{Kind: "fprint", S: F("a\\", "b\\", "c", "\\")},
		{Kind: "fprint", S: F("a=b", "1")},
		{Kind: "fprint", S: F("a", " x")},
		{Kind: "fprint", S: F("a", "\"x")},
		{Kind: "fprint", S: F("a", "x}")},
		{Kind: "fprint", S: F("\"a\"", "1")},
		{Kind: "fprint", S: F("a", "")},
		{Kind: "fprint", S: F("a", "", "b", "c,d")},
		{Kind: "fprint", S: F("a", string(long))},                                      // quoted form over 255 bytes: accepted back (the limit is on what is stored)
		{Kind: "fprint", S: F("a", string(bytes.Repeat([]byte{'v'}, 254))+",")},        // 255 bytes, quoted form of 257 (the earlier parser refused it)
		{Kind: "fprint", S: F("a", string(bytes.Repeat([]byte{'"'}, 255)))},            // quoted form of 512 bytes
		{Kind: "fprint", S: F("", "", " ", "{", "{a", "}", "`n`", "`v`", "n\"", "x}")}, // empty name, blanks, braces inside, quote characters
		{Kind: "fprint", S: F("{a", "x}")},                                             // both edges of the text
		{Kind: "fprint", S: F("a", "x}", "{b", "")},                                    // inner brace values stay raw, empty last value
		{Kind: "fprint", S: []byte{5, 'a'}},
		{Kind: "fparse", S: str("\"a=b\"=1")},
		{Kind: "fparse", S: append(append(str("a=\""), bytes.Repeat([]byte{0xff}, 90)...), '"')}, // unquotes to 270 bytes: refused
		{Kind: "fparse", S: append(append(str("a=\""), bytes.Repeat([]byte{0xff}, 85)...), '"')}, // unquotes to 255 bytes: accepted
		{Kind: "fparse", S: append(bytes.Repeat([]byte{' '}, 300), str("a=1")...)},               // 301-byte raw piece, stored name a
		{Kind: "prov", Pairs: P("\"x\"", "1")},
		{Kind: "prov", Pairs: P("a", string(long[:8])+string(bytes.Repeat([]byte{'b'}, 250)))},
		{Kind: "prov", Pairs: P("a", "b c", "d", "e,f")},
		// the {vars} element of the formatter: tag line, ',' and the field text
		{Kind: "vars", Pairs: P("a", "1", "b", "x,y"), S: F("f", "1", "a", "own")},
		{Kind: "vars", Pairs: P("a", "1", "b", "x}"), S: nil},                                    // no fields: the line alone
		{Kind: "vars", Pairs: P("a", "x}"), S: F("f", "v}", "{g", "")},                           // braces at the ends of the two texts
		{Kind: "vars", Pairs: P("a", " x "), S: F("", "", " ", "`q`", "n\"", "1")},               // names and values the field printer quotes
		{Kind: "vars", Pairs: P("\"x\"", "1"), S: F("f", "1")},                                   // vars-tag-name-leading-quote-char
		{Kind: "vars", Pairs: P("a", string(bytes.Repeat([]byte{'x'}, 256))), S: F("f", "1")},    // vars-item-over-255
		{Kind: "vars", Pairs: P("a", "1", "b", "2"), TL: str("{ b = 2 , a=1 }"), S: F("f", "1")}, // a line that is not canonical: no claim
		{Kind: "vars", Pairs: P("a", "1"), S: []byte{5, 'a'}},                                    // malformed field list: AsKVString panics
		{Kind: "unquote", S: str("\"x\"")},
		{Kind: "unquote", S: str("`x`")},
		{Kind: "fparse", S: str("a=1,a=2, b = `q` ")},
		{Kind: "quote", S: str("")},
		{Kind: "quote", S: str("a\"b\\c\x00\xff,=")},
	}
}

func main() {
	Main("C08", "C08K", func(c *Ctx) error {
		if c.Replay != nil {
			var rp Replay
			if err := FromJSON(c.Replay, &rp); err != nil {
				return err
			}
			if rp.Kind == "e2e" || rp.Kind == "pipe" {
				mk := mkE2E
				if rp.Kind == "pipe" {
					mk = mkPipe
				}
				css, err := mk(rp)
				if err != nil {
					return err
				}
				for _, cs := range css {
					c.Add(*cs)
				}
				return c.Finish(rule)
			}
			cs, err := mkCase(rp)
			if err != nil {
				return err
			}
			c.Add(*cs)
			return c.Finish(rule)
		}
		var jobs []Replay
		jobs = append(jobs, corpus()...)
		jobs = append(jobs, edgeCorpus()...)
		r := c.Rng
		// exhaustive small scope: every string of length <= 3 (thorough: 4) over 9 symbols through tag.Parse
		maxLen := 3
		if c.Tier == "thorough" {
			maxLen = 4
		}
		var rec func(prefix []byte)
		rec = func(prefix []byte) {
			jobs = append(jobs, Replay{Kind: "parse", S: append([]byte{}, prefix...)})
			if len(prefix) == maxLen {
				return
			}
			for _, ch := range small9 {
				rec(append(prefix, ch))
			}
		}
		rec(nil)
		// spellings of random maps through tag.Parse, then the printed line of every accepted map
		for i := 0; i < c.N(260); i++ {
			ps := genPairs(r, 4, 8, 30, false)
			s := spell(r, ps, false)
			if r.Chance(1, 5) {
				s = mutate(r, s)
			}
			jobs = append(jobs, Replay{Kind: "parse", S: s})
			var set tag.Set
			err := fmt.Errorf("not parsed")
			quiet(func() { set, err = rParse(string(s)) })
			if err == nil {
				ps := pairsOf(tag.VC08TagMap(set), r)
				jobs = append(jobs, Replay{Kind: "line", Pairs: ps})
				if r.Chance(1, 2) {
					jobs = append(jobs, Replay{Kind: "prov", Pairs: ps})
				}
				if r.Chance(1, 3) {
					// the {vars} element of the formatter for this set and a field list
					fps := genPairs(r, 3, 15, 35, false)
					var items [][]byte
					for _, p := range fps {
						items = append(items, p.K, p.V)
					}
					if r.Chance(1, 4) && len(ps) > 0 {
						items = append(items, ps[0].K, []byte("own")) // a field with the name of a tag
					}
					jobs = append(jobs, Replay{Kind: "vars", Pairs: ps, S: encodeFields(items)})
				}
			}
		}
		// maps handed over as maps (tag.MapToSet: collector meta data), names mostly plain
		for i := 0; i < c.N(160); i++ {
			jobs = append(jobs, Replay{Kind: "line", Pairs: genPairs(r, 4, 12, 35, true)})
		}
		// field texts and field lists
		for i := 0; i < c.N(160); i++ {
			ps := genPairs(r, 4, 15, 30, false)
			s := spell(r, ps, true)
			if r.Chance(1, 5) {
				s = mutate(r, s)
			}
			if r.Chance(1, 25) {
				// a quoted literal of raw invalid bytes: Unquote turns every byte into 3 (U+FFFD)
				if len(s) > 0 {
					s = append(s, ',')
				}
				s = append(append(append(s, []byte("w=\"")...), bytes.Repeat([]byte{0xff}, r.Range(80, 100))...), '"')
			}
			jobs = append(jobs, Replay{Kind: "fparse", S: s})
			var f field.Fields
			err := fmt.Errorf("not parsed")
			quiet(func() { f, err = rNewFields(string(s)) })
			if err == nil {
				jobs = append(jobs, Replay{Kind: "fprint", S: []byte(f)})
			}
		}
		for i := 0; i < c.N(120); i++ {
			ps := genPairs(r, 4, 15, 35, false)
			var items [][]byte
			for _, p := range ps {
				items = append(items, p.K, p.V)
			}
			if r.Chance(1, 10) && len(items) > 0 {
				// a long value that needs quoting: the quoted form may exceed 255 bytes
				v := bytes.Repeat([]byte{'v'}, r.Range(240, 255))
				v[r.Intn(len(v))] = ','
				items[len(items)-1] = v
			}
			f := encodeFields(items)
			if r.Chance(1, 12) {
				f = mutate(r, f) // malformed binary: AsKVString may panic
			}
			jobs = append(jobs, Replay{Kind: "fprint", S: f})
		}
		// the component functions and the strconv oracles on random strings
		for i := 0; i < c.N(60); i++ {
			s := genStr(r, 10, 50)
			jobs = append(jobs, Replay{Kind: "split", S: s}, Replay{Kind: "curly", S: mutate(r, append([]byte("{ "), append(s, " } "...)...))},
				Replay{Kind: "trim", S: append([]byte(blanks(r)), append(s, blanks(r)...)...)},
				Replay{Kind: "quote", S: genStr(r, 8, 60)})
			q := []byte(strconv.Quote(string(genStr(r, 6, 50))))
			if r.Chance(1, 2) {
				q = mutate(r, q)
			}
			jobs = append(jobs, Replay{Kind: "unquote", S: q})
		}
		res := make([]*Case, len(jobs))
		errs := make([]error, len(jobs))
		Parallel(len(jobs), 8, func(i int) {
			jobs[i].Text = show(jobs[i].S)
			if len(jobs[i].Pairs) > 0 {
				jobs[i].Text = showPairs(jobs[i].Pairs)
			}
			res[i], errs[i] = mkCase(jobs[i])
		})
		for i := range jobs {
			if errs[i] != nil {
				return errs[i]
			}
			c.Add(*res[i])
		}
		// end to end: one in-process server, events written and read back through RPC
		// (a query without FROM merges at most 50 partitions: at most 30 events, hence partitions, per server)
		evs := append(corpusE2E(), genE2E(r, c.N(40))...)
		for lo := 0; lo < len(evs); lo += 30 {
			hi := lo + 30
			if hi > len(evs) {
				hi = len(evs)
			}
			css, err := mkE2E(Replay{Kind: "e2e", Evs: evs[lo:hi]})
			if err != nil {
				return err
			}
			for _, cs := range css {
				c.Add(*cs)
			}
		}
		// the pipe worker end to end: one server, one pipe, source partitions with hostile-but-legal tag sets
		pcs, err := mkPipe(Replay{Kind: "pipe", Evs: append(corpusPipe(), genPipe(r, c.N(14))...)})
		if err != nil {
			return err
		}
		for _, cs := range pcs {
			c.Add(*cs)
		}
		c.Note("pipe_events_copied_and_compared", len(pcs))
		return c.Finish(rule)
	})
}
