#!/usr/bin/env python3
"""Mutation probe: flips one comparison / boolean connective / small constant at a time in the given Go files of a scratch copy
of /repo and asks the property's check (quick tier, VERIF_REPO=<copy>) whether it notices.

  tools/mutprobe.py Cxx [--files f1.go,f2.go] [--lines a-b] [--max n] [--seed s] [--jobs j]

Default files: the property's anchored files. A mutant that does not build, or that the package's own tests reject, is
not a realistic change (skipped). The others are reported as CAUGHT (the check exits 1) or SURVIVED. A survivor is either
an equivalent mutant (no observable difference, or no violation of the property text) or a gap in the check: that
classification is manual. Not a verification step; output in mutprobe/Cxx.txt."""
import sys, os, re, json, subprocess, shutil, random, concurrent.futures as cf

ROOT = os.path.dirname(os.path.dirname(os.path.abspath(__file__)))
ENV = dict(os.environ, GOFLAGS="-mod=mod", GOPROXY="off", GOSUMDB="off", GOTOOLCHAIN="local")
pid = sys.argv[1]
args = sys.argv[2:]


def opt(n, d):
    return args[args.index(n) + 1] if n in args else d


prop = [json.loads(l) for l in open(os.path.join(ROOT, "properties.jsonl")) if json.loads(l)["id"] == pid][0]
files = opt("--files", None)
files = files.split(",") if files else [f for f in (prop["anchors"].get("files") or []) if f.endswith(".go")]
lines = opt("--lines", None)
lo, hi = (int(x) for x in lines.split("-")) if lines else (1, 10 ** 9)
maxn = int(opt("--max", "60"))
jobs = int(opt("--jobs", "4"))
rnd = random.Random(int(opt("--seed", "1")))

SWAPS = [(" <= ", " < "), (" < ", " <= "), (" >= ", " > "), (" > ", " >= "), (" == ", " != "), (" != ", " == "),
         (" && ", " || "), (" || ", " && "), (" + 1", " + 0"), (" - 1", " - 0"), ("!ok", "ok"), ("err == nil", "err != nil"),
         ("break", "continue"), ("continue", "break")]


def sites(path):
    out = []
    src = open(path, encoding="utf8").read().split("\n")
    in_block = False
    for i, line in enumerate(src, 1):
        s = line.strip()
        if s.startswith("/*"):
            in_block = True
        if in_block:
            if "*/" in s:
                in_block = False
            continue
        if i < lo or i > hi or s.startswith("//") or "logger." in s or s.startswith("import") or 'Errorf(' in s:
            continue
        code = line.split("//")[0]
        for a, b in SWAPS:
            start = 0
            while True:
                k = code.find(a, start)
                if k < 0:
                    break
                # not inside a string literal (rough: even number of quotes before)
                if code[:k].count('"') % 2 == 0 and code[:k].count('`') % 2 == 0:
                    if not (a.strip() in ("<", ">") and ("<-" in code[max(0, k - 1):k + 3] or "chan" in code)):
                        out.append((i, k, a, b, line))
                start = k + len(a)
    return out


def run_one(idx, f, site):
    i, k, a, b, line = site
    copy = "/var/tmp/mutprobe-%s-%d" % (pid, idx % jobs)
    return copy, f, site


def main():
    allsites = []
    for f in files:
        p = os.path.join("/repo", f)
        if os.path.exists(p):
            for s in sites(p):
                allsites.append((f, s))
    rnd.shuffle(allsites)
    allsites = allsites[:maxn]
    copies = []
    for j in range(jobs):
        c = "/var/tmp/mutprobe-%s-%d" % (pid, j)
        shutil.rmtree(c, ignore_errors=True)
        subprocess.run(["cp", "-r", "/repo", c], check=True)
        copies.append(c)
    results = []

    def work(j, items):
        c = copies[j]
        res = []
        for f, (i, k, a, b, line) in items:
            p = os.path.join(c, f)
            orig = open(p, encoding="utf8").read()
            src = orig.split("\n")
            src[i - 1] = src[i - 1][:k] + b + src[i - 1][k + len(a):]
            open(p, "w", encoding="utf8").write("\n".join(src))
            verdict, note = "?", ""
            try:
                pkg = "./" + os.path.dirname(f) + "/..."
                r = subprocess.run(["go", "build", "./..."], cwd=c, env=ENV, stdout=subprocess.PIPE, stderr=subprocess.STDOUT, timeout=600)
                if r.returncode != 0:
                    verdict = "nobuild"
                else:
                    r = subprocess.run(["go", "test", "-vet=off", "-count=1", "-timeout", "300s", pkg], cwd=c, env=ENV, stdout=subprocess.PIPE, stderr=subprocess.STDOUT, timeout=900)
                    if r.returncode != 0:
                        verdict = "suite"
                    else:
                        r = subprocess.run([os.path.join(ROOT, "check"), pid], cwd=ROOT, env=dict(ENV, VERIF_REPO=c), stdout=subprocess.PIPE, stderr=subprocess.STDOUT, universal_newlines=True, timeout=1800)
                        if r.returncode == 1 and "VIOLATION" in r.stdout:
                            verdict = "CAUGHT"
                            m = re.search(r"VIOLATION property=\S+ replay=(\S+)(.*)", r.stdout)
                            if m:
                                try:
                                    d = json.load(open(m.group(1)))
                                    note = (d.get("class") or d.get("kind") or "") + (" " + m.group(2).strip() if m.group(2).strip() else "")
                                except Exception:
                                    note = m.group(2).strip()
                        elif r.returncode == 0:
                            verdict = "SURVIVED"
                        else:
                            verdict = "error"
                            note = r.stdout[-200:].replace("\n", " | ")
            except subprocess.TimeoutExpired:
                verdict = "timeout"
            finally:
                open(p, "w", encoding="utf8").write(orig)
            res.append((f, i, a.strip(), b.strip(), line.strip()[:110], verdict, note))
            print("%-9s %s:%d  %s -> %s   %s   %s" % (verdict, f, i, a.strip(), b.strip(), line.strip()[:90], note), flush=True)
        return res

    chunks = [allsites[j::jobs] for j in range(jobs)]
    with cf.ThreadPoolExecutor(max_workers=jobs) as ex:
        for r in ex.map(lambda jc: work(*jc), enumerate(chunks)):
            results += r
    for c in copies:
        shutil.rmtree(c, ignore_errors=True)
    # alt run directories of the probes
    for d in os.listdir(os.path.join(ROOT, "run")):
        pass
    os.makedirs(os.path.join(ROOT, "mutprobe"), exist_ok=True)
    results.sort()
    with open(os.path.join(ROOT, "mutprobe", pid + ".txt"), "w") as fo:
        cnt = {}
        for r in results:
            cnt[r[5]] = cnt.get(r[5], 0) + 1
            fo.write("%-9s %s:%d  %s -> %s   %s   %s\n" % (r[5], r[0], r[1], r[2], r[3], r[4], r[6]))
        fo.write("\nsummary: %s\n" % json.dumps(cnt, sort_keys=True))
    print("summary:", json.dumps(cnt, sort_keys=True))


if __name__ == "__main__":
    main()
