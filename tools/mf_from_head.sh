#!/bin/bash
# Regenerates MANIFEST.json from the committed checks/*.json plus the working-tree versions of the ids given
# (used while several properties are being edited at once: only finished ones enter the manifest)
set -e
cd "$(dirname "$0")/.."
T=$(mktemp -d /tmp/mf.XXXXXX)
git archive HEAD checks tools properties.jsonl | tar -x -C $T
cp tools/gen_manifest.py $T/tools/
for id in "$@"; do cp checks/$id.json $T/checks/; done
[ -f checks/READY ] && cp checks/READY $T/checks/READY
(cd $T && python3 tools/gen_manifest.py) && cp $T/MANIFEST.json MANIFEST.json
rm -rf $T
