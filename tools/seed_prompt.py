#!/usr/bin/env python3
"""Prints the brief for an independent mutation-seeding sub-agent for one property (text of the property only)."""
import json, sys
pid = sys.argv[1]
n = sys.argv[2] if len(sys.argv) > 2 else "2"
tagx = sys.argv[3] if len(sys.argv) > 3 else ""
for l in open('/verif/properties.jsonl'):
    p = json.loads(l)
    if p['id'] == pid:
        break
wt = "/tmp/seed-%s%s" % (pid.lower(), tagx)
print(f"""You are testing how well a semantic property of the Go project logrange/logrange (a streaming log database) is protected against regressions. Work ONLY inside your own scratch git worktree; create it with:
  git -C /repo worktree add --detach {wt} HEAD
Never edit or commit anything in /repo itself, and do not look at /verif (it is off-limits for this task: your work must be independent of it). Every shell call: export GOFLAGS=-mod=mod GOPROXY=off GOSUMDB=off GOTOOLCHAIN=local (no network). 

The property (id {pid}: {p['title']}):
  {p['statement']}
Quantified: {p['quantifier']['text']}
Where the mechanism lives: {json.dumps(p['anchors'].get('files'))}; mechanisms: {json.dumps(p['anchors'].get('mechanism'))}

Task: produce {n} DIFFERENT small source changes (each a separate patch against HEAD, touching different mechanisms) to non-test .go files of the project such that, for each one:
 (a) the project still compiles (`go build ./...`) and the whole existing test suite still passes (`go test -vet=off -count=1 ./...` in the worktree; run it with and without your change; ignore tests that already fail without it);
 (b) the property above is violated by the changed code — a realistic bug a developer could introduce (off-by-one, wrong comparison, missing update on one path, wrong order of two steps, stale state, a condition that only matters in a corner), NOT something that ordinary use exposes at once: it must need something specific to manifest (a particular interleaving, a crash or fault at a particular point, a multi-step sequence of operations, an unusual input or boundary value, or two cooperating sites that each look fine alone);
 (c) you have a demonstration: a Go test file (package-internal _test.go or a small program under a new cmd dir) that FAILS with the change and PASSES without it, exercising the real code through its normal API (in-process is fine). State the exact command to run it.
Do not modify existing tests. Do not change public API signatures. Keep each patch minimal (a few lines).

Deliver, for change k = 1..{n}, a directory {wt}-out/k/ containing: patch.diff (output of `git diff` in the worktree, source change only, without the demonstration), demo/ (the demonstration files with their paths relative to the repo root preserved, e.g. demo/pkg/pipe/zz_seed_test.go), and meta.json with keys: property ("{pid}"), summary (one sentence: what was changed), needs (what specific condition is needed for the violation to manifest), demo_cmd (command run from the repo root), verified (what you ran and saw: build ok, suite passes with the change, demo fails with / passes without). Reset the worktree between changes (`git checkout -- . && git clean -fd`). When finished, remove the worktree: `git -C /repo worktree remove --force {wt}` (keep {wt}-out). Your final message: list the {n} changes with one line each and the path of the output directory.""")
