#!/usr/bin/env python3
"""Statement coverage of /repo (and the range dependency) reached by one property's harness run.

  tools/coverage.py Cxx [--tier quick] [--seed n] [--files pat,pat]   -> prints per-file coverage of the property's anchored
  files and the uncovered blocks (file:line ranges), and writes coverage/Cxx.txt.

Not a verification step (nothing depends on it): it shows which parts of the mechanism the correspondence check and the
oracle never execute, i.e. where a code change cannot be seen by K/O at all."""
import sys, os, json, subprocess, shutil, re, collections
ROOT = os.path.dirname(os.path.dirname(os.path.abspath(__file__)))
pid = sys.argv[1]
args = sys.argv[2:]
def opt(n, d):
    return args[args.index(n) + 1] if n in args else d
tier, seed = opt("--tier", "quick"), opt("--seed", "1")
cfg = json.load(open(os.path.join(ROOT, "checks", pid + ".json")))
prop = [json.loads(l) for l in open(os.path.join(ROOT, "properties.jsonl")) if json.loads(l)["id"] == pid][0]
files = opt("--files", None)
files = files.split(",") if files else (prop["anchors"].get("files") or [])
env = dict(os.environ, GOFLAGS="-mod=mod", GOPROXY="off", GOSUMDB="off", GOTOOLCHAIN="local")
work = "/var/tmp/cov/" + pid
shutil.rmtree(work, ignore_errors=True)
os.makedirs(work + "/data"); os.makedirs(work + "/out")
shutil.copyfile("/repo/go.sum", os.path.join(ROOT, "harness", "go.sum"))
b = subprocess.run(["go", "build", "-tags", "verif", "-cover", "-coverpkg=verifharness/...,github.com/logrange/logrange/...,github.com/logrange/range/...",
                    "-o", work + "/h", "./" + cfg["harness"]], cwd=os.path.join(ROOT, "harness"), env=env, stdout=subprocess.PIPE, stderr=subprocess.STDOUT, universal_newlines=True)
if b.returncode != 0:
    print(b.stdout[-3000:]); sys.exit(2)
env2 = dict(env, GOCOVERDIR=work + "/data", VERIF_SCRATCH="/var/tmp", VERIF_REPO="/repo", TMPDIR="/var/tmp")
r = subprocess.run([work + "/h", "-seed", seed, "-tier", tier, "-scale", "1", "-out", work + "/out"], cwd=ROOT, env=env2, stdout=subprocess.PIPE, stderr=subprocess.STDOUT, universal_newlines=True)
print("harness rc", r.returncode, r.stdout[-300:].replace("\n", " | "))
subprocess.run(["go", "tool", "covdata", "textfmt", "-i=" + work + "/data", "-o", work + "/cov.txt"], env=env, check=True)
blocks = collections.defaultdict(dict)
for l in open(work + "/cov.txt"):
    m = re.match(r"(\S+):(\d+)\.(\d+),(\d+)\.(\d+) (\d+) (\d+)$", l.strip())
    if not m:
        continue
    f = m.group(1)
    key = (int(m.group(2)), int(m.group(4)))
    n, c = int(m.group(6)), int(m.group(7))
    o = blocks[f].get(key, (n, 0))
    blocks[f][key] = (n, o[1] + c)
out = []
for f in sorted(blocks):
    rel = f.replace("github.com/logrange/logrange/", "").replace("github.com/logrange/range/", "range:")
    if not any(rel == a or rel.startswith(a.rstrip("/") + "/") or a in rel for a in files):
        continue
    tot = sum(n for n, c in blocks[f].values()); cov = sum(n for n, c in blocks[f].values() if c > 0)
    out.append("%-60s %4d/%4d  %3d%%" % (rel, cov, tot, 100 * cov // max(tot, 1)))
    un = sorted(k for k, (n, c) in blocks[f].items() if c == 0)
    # merge adjacent
    merged = []
    for a, b2 in un:
        if merged and a <= merged[-1][1] + 1:
            merged[-1][1] = max(merged[-1][1], b2)
        else:
            merged.append([a, b2])
    out.append("    uncovered: " + " ".join("%d-%d" % (a, b2) if a != b2 else str(a) for a, b2 in merged))
os.makedirs(os.path.join(ROOT, "coverage"), exist_ok=True)
open(os.path.join(ROOT, "coverage", pid + ".txt"), "w").write("\n".join(out) + "\n")
print("\n".join(out))
shutil.rmtree(work, ignore_errors=True)
