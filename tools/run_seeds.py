#!/usr/bin/env python3
"""Re-runs every kept seed (seeded/*/) against the current /repo + /verif: copies /repo, applies patch.diff, runs the
checks named in meta.json (checks_run keys) with VERIF_REPO, and records the verdict under `rerun` in meta.json.

  tools/run_seeds.py [ids...]      (default: all; sequential)
A patch that no longer applies (the code it changed was repaired meanwhile) is recorded as such."""
import sys, os, json, glob, subprocess, time
ROOT = os.path.dirname(os.path.dirname(os.path.abspath(__file__)))
ids = sys.argv[1:] or sorted(os.path.basename(d) for d in glob.glob(os.path.join(ROOT, "seeded", "*")))
head = subprocess.check_output(["git", "-C", "/repo", "log", "--format=%h", "-1"], universal_newlines=True).strip()
for sid in ids:
    d = os.path.join(ROOT, "seeded", sid)
    mp = os.path.join(d, "meta.json")
    if not os.path.exists(mp):
        continue
    m = json.load(open(mp))
    prop = m.get("breaks_property") or m.get("property")
    checks = [prop]
    t0 = time.time()
    p = subprocess.run([sys.executable, os.path.join(ROOT, "tools", "verify_seed.py"), d, "--skip-confirm", "--checks", ",".join(checks)],
                       stdout=subprocess.PIPE, stderr=subprocess.STDOUT, universal_newlines=True)
    try:
        r = json.loads(p.stdout[p.stdout.index("{"):])
    except Exception:
        r = {"error": p.stdout[-500:]}
    rr = {"repo_head": head, "patch_applies": r.get("patch_applies"), "wall_s": round(time.time() - t0)}
    for k, v in (r.get("checks") or {}).items():
        rr[k] = {"caught": v.get("caught"), "rc": v.get("rc"), "lines": v.get("lines")}
    if "error" in r:
        rr["error"] = r["error"]
    m["rerun"] = rr
    json.dump(m, open(mp, "w"), indent=1)
    print(sid, json.dumps(rr)[:300], flush=True)
