#!/usr/bin/env python3
"""Confirms a seeded change (patch.diff + demo/ + meta.json) in a scratch copy of /repo and runs checks against it.

  tools/verify_seed.py <seed dir> [--checks C19,C07] [--keep]

Steps (all in /tmp/vs-<name>, a copy of /repo's working tree; /repo itself is never touched):
  1. demo passes on the unchanged copy;  2. patch applies, `go build ./...` ok, baseline test suite passes;
  3. demo fails with the patch;          4. each listed check is run with VERIF_REPO=<copy>: caught iff exit 1 + VIOLATION line.
Prints a JSON summary."""
import sys, os, json, subprocess, shutil, argparse, time

ENV = dict(os.environ, GOFLAGS="-mod=mod", GOPROXY="off", GOSUMDB="off", GOTOOLCHAIN="local")


def sh(cmd, cwd, timeout=1800, env=ENV):
    try:
        p = subprocess.run(cmd, cwd=cwd, shell=isinstance(cmd, str), env=env, timeout=timeout, stdout=subprocess.PIPE, stderr=subprocess.STDOUT, universal_newlines=True, errors="replace")
        return p.returncode, p.stdout
    except subprocess.TimeoutExpired as e:
        return 124, "timeout"


def main():
    ap = argparse.ArgumentParser()
    ap.add_argument("seed")
    ap.add_argument("--checks", default="")
    ap.add_argument("--keep", action="store_true")
    ap.add_argument("--skip-confirm", action="store_true")
    ap.add_argument("--keep-as", default="", help="store the confirmed seed as /verif/seeded/<id>/ with the results merged into meta.json")
    a = ap.parse_args()
    seed = os.path.abspath(a.seed)
    meta = json.load(open(os.path.join(seed, "meta.json")))
    name = os.path.basename(os.path.dirname(seed + "/")) if not os.path.basename(seed) else os.path.basename(seed)
    wt = "/tmp/vs-%s-%d" % (name.replace("/", "_"), os.getpid())
    if os.path.exists(wt):
        shutil.rmtree(wt)
    shutil.copytree("/repo", wt, symlinks=True)
    res = {"seed": seed, "property": meta.get("property"), "summary": meta.get("summary")}
    try:
        demo = os.path.join(seed, "demo")
        demo_files = []
        for root, _, files in os.walk(demo):
            for f in files:
                rel = os.path.relpath(os.path.join(root, f), demo)
                demo_files.append(rel)

        def put_demo():
            for rel in demo_files:
                os.makedirs(os.path.dirname(os.path.join(wt, rel)) or wt, exist_ok=True)
                shutil.copyfile(os.path.join(demo, rel), os.path.join(wt, rel))

        def rm_demo():
            for rel in demo_files:
                try:
                    os.remove(os.path.join(wt, rel))
                except OSError:
                    pass
        if not a.skip_confirm:
            put_demo()
            rc, out = sh(meta["demo_cmd"], wt, 900)
            res["demo_without_patch"] = "pass" if rc == 0 else "FAIL(rc=%d)" % rc
            if rc != 0:
                res["demo_without_patch_log"] = out[-1500:]
            rm_demo()
        rc, out = sh(["git", "apply", os.path.join(seed, "patch.diff")], wt)
        if rc != 0:
            # the working tree of /repo may carry uncommitted add-only hook lines near the patched site
            rc, out = sh("patch -p1 --fuzz=3 --no-backup-if-mismatch < " + os.path.join(seed, "patch.diff"), wt)
        res["patch_applies"] = rc == 0
        if rc != 0:
            res["apply_log"] = out[-1000:]
            print(json.dumps(res, indent=1))
            return 1
        if not a.skip_confirm:
            rc, out = sh("go build ./...", wt)
            res["build"] = rc == 0
            rc, out = sh("go test -vet=off -count=1 ./... 2>&1 | grep -E '^(FAIL|---|ok|panic)' | grep -v '^ok' | head -20", wt, 1500)
            fails = out.strip()
            import re as _re
            pk = sorted(set(_re.findall(r"^FAIL[ \t]+(\S+)", fails, _re.M)))
            still = []
            for pkg in pk:
                okp = False
                for _ in range(3):
                    rc2, out2 = sh("go test -vet=off -count=1 " + pkg.replace("github.com/logrange/logrange", "."), wt, 900)
                    if rc2 == 0:
                        okp = True
                        break
                if not okp:
                    still.append(pkg)
            res["suite_failures"] = "" if not still else "still failing after 3 solo reruns: " + " ".join(still)
            if pk and not still:
                res["suite_flaky_under_load"] = pk
            put_demo()
            rc, out = sh(meta["demo_cmd"], wt, 900)
            res["demo_with_patch"] = "fail" if rc != 0 else "PASSES(unexpected)"
            rm_demo()
        cpath = os.path.join(seed, "confirm.json")
        if not a.skip_confirm:
            json.dump({k: res.get(k) for k in ("demo_without_patch", "patch_applies", "build", "suite_failures", "suite_flaky_under_load", "demo_with_patch")}, open(cpath, "w"))
        elif os.path.exists(cpath):
            res.update(json.load(open(cpath)))
        res["checks"] = {}
        for pid in [c for c in a.checks.split(",") if c]:
            t0 = time.time()
            rc, out = sh(["./check", pid, "--tier", "quick"], "/verif", 3000, dict(os.environ, VERIF_REPO=wt))
            viol = [l for l in out.split("\n") if l.startswith("VIOLATION")]
            res["checks"][pid] = {"rc": rc, "caught": rc == 1 and bool(viol), "lines": viol[:4], "wall_s": round(time.time() - t0, 1),
                                  "tail": out[-600:] if rc not in (0, 1) else ""}
            # keep the first replay for the record
            for l in viol[:1]:
                rp = l.split("replay=")[1].split()[0]
                if os.path.exists(rp):
                    try:
                        res["checks"][pid]["replay_excerpt"] = open(rp).read()[:1500]
                    except Exception:
                        pass
    finally:
        if not a.keep:
            shutil.rmtree(wt, ignore_errors=True)
            import hashlib
            alt = os.path.join("/verif/run", "alt-" + hashlib.sha1(wt.encode()).hexdigest()[:8])
            shutil.rmtree(alt, ignore_errors=True)
    print(json.dumps(res, indent=1))
    if a.keep_as:
        dst = os.path.join("/verif/seeded", a.keep_as)
        if os.path.exists(dst):
            shutil.rmtree(dst)
        os.makedirs(dst)
        shutil.copyfile(os.path.join(seed, "patch.diff"), os.path.join(dst, "patch.diff"))
        if os.path.isdir(os.path.join(seed, "demo")):
            shutil.copytree(os.path.join(seed, "demo"), os.path.join(dst, "demo"))
        m = dict(meta)
        m["breaks_property"] = meta.get("property")
        m["confirmed_by_lead"] = {k: res.get(k) for k in ("demo_without_patch", "patch_applies", "build", "suite_failures", "demo_with_patch")}
        m["confirmed_how"] = "tools/verify_seed.py: scratch copy of /repo; demo passes unpatched; patch applies; go build ./...; go test -vet=off -count=1 ./... ; demo fails patched; then VERIF_REPO=<copy> ./check <id> --tier quick"
        m["checks_run"] = {k: {"caught": v["caught"], "rc": v["rc"], "lines": v["lines"], "wall_s": v["wall_s"]} for k, v in res.get("checks", {}).items()}
        json.dump(m, open(os.path.join(dst, "meta.json"), "w"), indent=1)
    return 0


if __name__ == "__main__":
    sys.exit(main())
