#!/usr/bin/env python3
"""Regenerates /verif/MANIFEST.json from checks/*.json (one file per claimed property)."""
import json, glob, os, subprocess
ROOT = os.path.dirname(os.path.dirname(os.path.abspath(__file__)))
props = [json.loads(l) for l in open(os.path.join(ROOT, "properties.jsonl"))]
cfgs = {}
for p in sorted(glob.glob(os.path.join(ROOT, "checks", "C*.json"))):
    c = json.load(open(p))
    cfgs[c["id"]] = c
ready_path = os.path.join(ROOT, "checks", "READY")
ready = set(open(ready_path).read().split()) if os.path.exists(ready_path) else set(cfgs)
cfgs = {k: v for k, v in cfgs.items() if k in ready}
na_path = os.path.join(ROOT, "checks", "not_applicable.json")
na = json.load(open(na_path)) if os.path.exists(na_path) else {}
try:
    commits = subprocess.check_output(["git", "-C", "/repo", "log", "--format=%h %s"], universal_newlines=True).strip().split("\n")
    hook_commits = [c.split()[0] for c in commits if c.split(" ", 1)[1].startswith("verif:")]
except Exception:
    hook_commits = []
baseline = json.load(open("/root/.vp/BASELINE.json"))["cmd"] if os.path.exists("/root/.vp/BASELINE.json") else ""
m = {
    "version": 1,
    "setup_cmd": "./check --setup",
    "hooks": {
        "guard": "verif",
        "enable": "go build -tags verif (the harness module /verif/harness replaces github.com/logrange/logrange by /repo, so every check rebuilds from the working tree)",
        "baseline_off_cmd": baseline,
        "source_commits": hook_commits,
        "add_only": True,
    },
    "engines": [{
        "name": "coq-model+correspondence", "path": "/verif/check",
        "serves_properties": sorted(cfgs),
        "kind_free_text": "Coq 8.16.1 theorems over hand-written executable Gallina models (coq/model, coq/proofs, coq/props); the models are tied to /repo on every run by a correspondence check: a Go harness (built -tags verif against the working tree) drives the implementation on generated cases, writes the observations as Gallina terms, and coqc evaluates the model on the same cases with vm_compute; an independent oracle evaluates the property on the implementation's observations and supplies the failing input for replay",
    }],
    "checks": [],
    "not_applicable": [],
    "notes": "See DESIGN.md. known_findings.txt lists recorded (known:) and repaired (fixed:) genuine defects.",
}
for p in props:
    pid = p["id"]
    if pid in cfgs:
        c = cfgs[pid]
        m["checks"].append({
            "property_id": pid,
            "quick_cmd": "./check %s --tier quick" % pid,
            "thorough_cmd": "./check %s --tier thorough" % pid,
            "evidence_file": "/verif/evidence/%s.json" % pid,
            "replay_cmd_template": "./check %s --replay {path}" % pid,
            "engine": "coq-model+correspondence",
            "level_claimed": {"category": c.get("level", "proof"), "text": c["level_text"], "design_ref": c.get("design_ref", "")},
            "level_note": c["level_note"],
            "technique": c["technique"],
        })
    else:
        m["not_applicable"].append({"property_id": pid, "reason": na.get(pid, "not claimed yet: the check for this property is still under construction (see DESIGN.md section 8 for the design)")})
with open(os.path.join(ROOT, "MANIFEST.json"), "w") as f:
    json.dump(m, f, indent=1)
print("MANIFEST.json: %d checks, %d not applicable" % (len(m["checks"]), len(m["not_applicable"])))
